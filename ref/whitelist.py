"""Whitelist ring signature (src/modules/whitelist/whitelist.md): ring keys online_i + H(offline_i + W) * (offline_i + W),
message = H(ser33(W) || ser33(offline_0) || ser33(online_0) || ...), single Borromean ring of size n_keys >= 1."""
from .ec import *
from . import borromean

def keys_and_msg(online, offline, W):
    """returns (keys, msg32) or None when a tweak hash is out of range / a key degenerates (unmodelled corner)"""
    m = ser33(W); keys = []
    for on, off in zip(online, offline):
        m += ser33(off) + ser33(on)
    for on, off in zip(online, offline):
        S = add(off, W)
        if S is None: return None
        h = I(sha(ser33(S)))
        if not 0 < h < n: return None
        K = add(mul(h, S), on)
        keys.append(K)
    return keys, sha(m)

def verify(sigbytes, online, offline, W):
    """sigbytes = serialized signature; lists of points"""
    if len(sigbytes) < 1: return False
    nk = sigbytes[0]
    if nk > 255 or len(sigbytes) != 1 + 32 * (nk + 1): return False
    if nk != len(online) or nk != len(offline): return False
    if nk == 0: return False      # a member of a non-empty list
    s = [I(sigbytes[33 + 32 * j:65 + 32 * j]) for j in range(nk)]
    if any(x == 0 or x >= n for x in s): return False
    km = keys_and_msg(online, offline, W)
    if km is None: return None
    keys, m = km
    return borromean.verify(sigbytes[1:33], s, keys, [nk], m)

def forge_sign(online, offline, W, idx, sec, forged, k):
    """reference prover: sec = discrete log of ring key idx; forged = chosen scalars"""
    km = keys_and_msg(online, offline, W)
    if km is None: return None
    keys, m = km
    res = borromean.sign([keys], [idx], [sec], [k], [forged], m)
    if res is None: return None
    e0, s = res
    return bytes([len(keys)]) + e0 + b''.join(b32(x) for x in s[0])
