"""Bulletproofs++ norm argument: round-by-round folding verifier (deliberately not the library's single
multi-exponentiation) and the generator derivation (DESIGN Appendix A)."""
import hashlib
from .ec import *
from .hashes import Drbg
from . import zkp

_GENS = []; _GENS_DRBG = []
def gens(k):
    """first k generators: generator_generate applied to successive 32-byte outputs of the RFC 6979 DRBG keyed with G.x || G.y
    (memoised: the list is prefix-consistent by construction)"""
    if not _GENS_DRBG: _GENS_DRBG.append(Drbg(b32(Gx) + b32(Gy)))
    while len(_GENS) < k:
        ok, P = zkp.generate(_GENS_DRBG[0].gen(32)); _GENS.append(P)
    return list(_GENS[:k])
def gens_ser(pts): return b''.join(zkp.gen_ser(P) for P in pts)
def gens_parse(b):
    if len(b) % 33: return None
    out = []
    for i in range(0, len(b), 33):
        P = zkp.gen_parse(b[i:i + 33])
        if P is None: return None
        out.append(P)
    return out

def parse_one(in65, idx):
    """returns 'bad', None (infinity) or a point"""
    if in65[0] > 3: return 'bad'
    xb = in65[1 + 32 * idx:33 + 32 * idx]; bit = (in65[0] >> (1 - idx)) & 1
    if xb != bytes(32):
        P = decompress(I(xb), bit)
        return 'bad' if P is None else P
    return 'bad' if bit else None

def is_pow2(x): return x > 0 and x & (x - 1) == 0

def commit(gs, g_len, nv, lv, cv, rho):
    mu = rho * rho % n
    v = (sum(pow(mu, i + 1, n) * x * x for i, x in enumerate(nv)) + sum(a * b for a, b in zip(lv, cv))) % n
    C = mulG(v)
    for x, P in zip(nv, gs[:g_len]): C = add(C, mul(x, P))
    for x, P in zip(lv, gs[g_len:]): C = add(C, mul(x, P))
    return C

def verify(proof, prefix, rho, gs, g_len, c, C):
    """gs: list of generator points (G_i then H_i); c: list of ints; C: commitment point or None"""
    h_len = len(c)
    if g_len == 0 or h_len == 0: return False
    if not is_pow2(g_len) or not is_pow2(h_len):
        # the library computes floor(log2) first and compares lengths before the power-of-two test; every such input is rejected
        return False
    lg = g_len.bit_length() - 1; lh = h_len.bit_length() - 1; rounds = max(lg, lh)
    if len(gs) != g_len + h_len or len(proof) != 65 * rounds + 64: return False
    nn = I(proof[65 * rounds:65 * rounds + 32]); ll = I(proof[65 * rounds + 32:])
    if nn >= n or ll >= n or rho % n == 0: return False
    tr = hashlib.sha256(prefix); g = list(gs[:g_len]); h = list(gs[g_len:]); c = list(c); r = rho % n
    for i in range(rounds):
        blk = proof[65 * i:65 * i + 65]; X = parse_one(blk, 0); R = parse_one(blk, 1)
        if X == 'bad' or R == 'bad': return False
        tr.update(blk); t2 = tr.copy(); t2.update((0).to_bytes(8, 'little')); gam = I(t2.digest()) % n
        C = add(C, add(mul(gam, X) if X else None, mul((gam * gam - 1) % n, R) if R else None))
        if len(g) > 1:
            g = [add(mul(r, g[2 * k]), mul(gam, g[2 * k + 1])) for k in range(len(g) // 2)]; r = r * r % n
        if len(h) > 1:
            h = [add(h[2 * k], mul(gam, h[2 * k + 1])) for k in range(len(h) // 2)]; c = [(c[2 * k] + gam * c[2 * k + 1]) % n for k in range(len(c) // 2)]
    mu = r * r % n; v = (nn * nn % n * mu + c[0] * ll) % n
    rhs = add(add(mulG(v) if v else None, mul(nn, g[0]) if nn else None), mul(ll, h[0]) if ll else None)
    return C == rhs
