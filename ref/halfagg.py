"""Schnorr half-aggregation (draft BIP "Half-Aggregation of BIP 340 signatures"), written from the draft:
z_0 = 1, z_i = H_tag(r_0||pk_0||m_0||...||r_i||pk_i||m_i) mod n, s = sum z_i s_i."""
import hashlib
from .ec import *

def _tag():
    t = sha(b'HalfAgg/randomizer'); return hashlib.sha256(t + t)

def aggregate(pks, msgs, sigs):
    """pks: list of 32-byte x-only keys, msgs: list of 32-byte messages, sigs: list of 64-byte signatures"""
    st = _tag(); S = 0; rs = b''
    for j, (pk, m, sg) in enumerate(zip(pks, msgs, sigs)):
        st.update(sg[:32] + pk + m)
        z = I(st.copy().digest()) % n if j else 1
        S = (S + z * I(sg[32:])) % n; rs += sg[:32]
    return rs + b32(S)

def verify(pks, msgs, agg):
    k = len(pks)
    if len(msgs) != k or len(agg) != 32 * (k + 1): return False
    st = _tag(); rhs = None
    for j in range(k):
        P = lift_x(I(pks[j]))
        if P is None: return False
        r = agg[32 * j:32 * j + 32]
        st.update(r + pks[j] + msgs[j])
        z = I(st.copy().digest()) % n if j else 1
        R = lift_x(I(r))
        if R is None: return False
        e = I(tagged("BIP0340/challenge", r + pks[j] + msgs[j])) % n
        T = add(R, mul(e, P))
        rhs = add(rhs, mul(z, T))
    s = I(agg[32 * k:])
    if s >= n: return False
    return mulG(s) == rhs
