"""Borromean ring signatures as documented in src/modules/rangeproof/borromean_impl.h:39-52, written from that
description: e_{i,0} = H(e0 || m || i || 0), R_{i,j} = s_{i,j} G + e_{i,j} P_{i,j}, e_{i,j+1} = H(R_{i,j} || m || i || j+1),
accept iff e0 == H(R_{0,last} || ... || R_{k-1,last} || m)."""
from .ec import *

def bhash(m, e, ridx, eidx):
    return sha(e + m + ridx.to_bytes(4, 'big') + eidx.to_bytes(4, 'big'))

def verify(e0, s, pubs, rsizes, m):
    """e0: 32 bytes; s: flat list of ints (already checked < n by the caller, 0 rejected here); pubs: flat list of points"""
    cnt = 0; acc = b''
    for i, rs in enumerate(rsizes):
        ens = I(bhash(m, e0, i, 0))
        for j in range(rs):
            if ens >= n or ens == 0 or s[cnt] == 0 or s[cnt] >= n or pubs[cnt] is None: return False
            R = add(mul(ens, pubs[cnt]), mulG(s[cnt]))
            if R is None: return False
            t = ser33(R)
            if j != rs - 1: ens = I(bhash(m, t, i, j + 1))
            else: acc += t
            cnt += 1
    return sha(acc + m) == e0

def sign(rings, secidx, secx, ks, forged, m):
    """adversarial prover: rings = list of lists of points; secidx[i] index of the known key in ring i with secret secx[i];
    ks[i] the nonce; forged[i][j] the freely chosen s for the other members. returns (e0, s nested list) or None if a hash overflows"""
    lasts = []
    for i, ring in enumerate(rings):
        R = mulG(ks[i])
        if R is None: return None
        for j in range(secidx[i] + 1, len(ring)):
            e = I(bhash(m, ser33(R), i, j))
            if not 0 < e < n: return None
            R = add(mulG(forged[i][j]), mul(e, ring[j]))
            if R is None: return None
        lasts.append(ser33(R))
    e0 = sha(b''.join(lasts) + m); s = [list(f) for f in forged]
    for i, ring in enumerate(rings):
        e = I(bhash(m, e0, i, 0))
        if not 0 < e < n: return None
        for j in range(secidx[i]):
            R = add(mulG(forged[i][j]), mul(e, ring[j]))
            if R is None: return None
            e = I(bhash(m, ser33(R), i, j + 1))
            if not 0 < e < n: return None
        s[i][secidx[i]] = (ks[i] - e * secx[i]) % n
        if s[i][secidx[i]] == 0: return None
    return e0, s

def craft_infinity(e0, s, pubs, secs, rsizes, m, ring, pos):
    """verification INPUT (not a valid signature) whose chain value R_{ring,pos} = s*G + e*P is the point at infinity:
    s[ring][pos] := -e_{ring,pos} * secs[ring][pos] where e is what the verifier will have at that position.  s: nested list
    (copied), pubs / secs nested like s.  returns the new nested list, or None if a hash value is out of range on the way."""
    s = [list(r) for r in s]
    e = I(bhash(m, e0, ring, 0))
    for j in range(pos):
        if not 0 < e < n or not 0 < s[ring][j] < n: return None
        R = add(mul(e, pubs[ring][j]), mulG(s[ring][j]))
        if R is None: return None
        e = I(bhash(m, ser33(R), ring, j + 1))
    if not 0 < e < n: return None
    v = (-e * secs[ring][pos]) % n
    if v == 0: return None
    s[ring][pos] = v
    return s
