"""ECDSA adaptor signatures (DLC specification as implemented; Appendix A of DESIGN.md)."""
from .ec import *

def nonce_fn(msg32, key32, pk33, algo, data):
    mk = bytes(a ^ b for a, b in zip(tagged(b'ECDSAadaptor/aux', data), key32)) if data is not None else key32
    return tagged(algo, mk + pk33 + msg32)
def dleq_chal(P1, Y, P2, R1, R2):
    return I(tagged(b'DLEQ', ser33(P1) + ser33(Y) + ser33(P2) + ser33(R1) + ser33(R2))) % n
def pt33(b):
    if b[0] not in (2, 3): return None
    return decompress(I(b[1:]), b[0] & 1)

def encrypt(sk32, Y, msg32, aux=None, main_nonce=None, dleq_nonce=None):
    """returns the 162 bytes or None (failure: the library then returns 0 and zeroes the output).  main_nonce / dleq_nonce: the 32 bytes
    a custom nonce function answers for the two requests (reduced mod n by the library; a zero scalar is a failure)"""
    d = I(sk32)
    k = I(main_nonce if main_nonce is not None else nonce_fn(msg32, sk32, ser33(Y), b'ECDSAadaptor/non', aux)) % n
    if k == 0: return None
    R = mul(k, Y); Rp = mulG(k)
    buf = sha(ser33(Rp) + ser33(R))
    kd = I(dleq_nonce if dleq_nonce is not None else nonce_fn(buf, b32(k), ser33(Y), b'DLEQ', aux)) % n
    if kd == 0: return None
    R1 = mulG(kd); R2 = mul(kd, Y)
    e = dleq_chal(Rp, Y, R, R1, R2); ds = (kd + e * k) % n
    if not 0 < d < n: return None
    sigr = R[0] % n
    if sigr == 0: return None
    sp = pow(k, -1, n) * ((I(msg32) % n) + sigr * d) % n
    if sp == 0: return None
    return ser33(R) + ser33(Rp) + b32(sp) + b32(e) + b32(ds)

def verify(a, X, msg32, Y):
    if len(a) != 162: return False
    R = pt33(a[:33]); Rp = pt33(a[33:66])
    if R is None or Rp is None: return False
    sigr = I(a[1:33]) % n
    if sigr == 0: return False
    sp = I(a[66:98]); e = I(a[98:130]) % n; s = I(a[130:162])
    if not 0 < sp < n or s >= n: return False
    R1 = add(mulG(s), neg(mul(e, Rp))); R2 = add(mul(s, Y), neg(mul(e, R)))
    if R1 is None or R2 is None: return False
    if dleq_chal(Rp, Y, R, R1, R2) != e: return False
    si = pow(sp, -1, n)
    D = add(mulG(si * (I(msg32) % n) % n), mul(si * sigr % n, X))
    return D is not None and D == Rp

def decrypt(dk32, a):
    """returns (r, s) or None"""
    y = I(dk32)
    if not 0 < y < n: return None
    sigr = I(a[1:33]) % n; sp = I(a[66:98])
    if sigr == 0 or not 0 < sp < n: return None
    s = sp * pow(y, -1, n) % n
    if s > HALF_N: s = n - s
    return sigr, s

def recover(r, s, a, Y):
    """returns deckey int or None"""
    sigr = I(a[1:33]) % n; sp = I(a[66:98])
    if sigr == 0 or not 0 < sp < n: return None
    if r != sigr or s == 0 or s >= n: return None
    y = pow(s, -1, n) * sp % n
    P = mulG(y)
    if P[0] != Y[0]: return None
    if P[1] != Y[1]: y = n - y
    return y

def make(d, Y, k, kd, sp):
    """adversarial prover: adaptor signature with a *chosen* s' (the message is solved for): returns (a162, msg32)"""
    R = mul(k, Y); Rp = mulG(k); sigr = R[0] % n
    R1 = mulG(kd); R2 = mul(kd, Y)
    e = dleq_chal(Rp, Y, R, R1, R2); ds = (kd + e * k) % n
    m = (sp * k - sigr * d) % n
    return ser33(R) + ser33(Rp) + b32(sp) + b32(e) + b32(ds), b32(m)
