"""Boundary pools (DESIGN 2.4).  Every generator draws from a pool with
probability ~1/3 and uniformly otherwise."""
from .ec import p, n, LAMBDA, BETA, b32

def _uniq(xs):
    out = []; seen = set()
    for x in xs:
        x %= 2**256
        if x not in seen:
            seen.add(x); out.append(x)
    return out

SCALARS = _uniq(
    [0, 1, 2, 3, n - 3, n - 2, n - 1, n, n + 1, n + 2, (n - 1) // 2, (n + 1) // 2, (n - 1) // 2 - 1, (n + 1) // 2 + 1,
     2**256 - 1, 2**256 - 2, p, p - 1, p + 1, p - n - 1, p - n, p - n + 1, 2**255, 2**255 - 1, 2**128, 2**128 - 1, 2**127, 2**127 - 1,
     2**64, 2**64 - 1, 2**63, 2**32, 2**32 - 1, LAMBDA, n - LAMBDA, LAMBDA + 1, LAMBDA - 1,
     0xFFFFFFFFFFFFFFFF << 192, 0xFFFFFFFFFFFFFFFF << 128, 0xFFFFFFFFFFFFFFFF << 64, 0xFFFFFFFFFFFFFFFF,
     (1 << 256) - (1 << 64), (1 << 192) - 1, 2**256 - 2**128,
     int("aa" * 32, 16), int("55" * 32, 16), int("01" * 32, 16), int("80" * 32, 16), int("7f" * 32, 16)]
    + [2**k for k in (8, 16, 31, 33, 52, 104, 156, 208, 26, 78, 130, 182, 234, 191, 192, 193, 254)]
    + [2**k - 1 for k in (8, 16, 31, 33, 52, 104, 156, 208, 26, 78, 130, 182, 234, 191, 192, 193, 254)]
    + [(r1 + LAMBDA * r2) % n for r1 in (2**127, 2**127 - 1, n - 2**127, 0, 1, n - 1) for r2 in (2**127, 2**127 - 1, n - 2**127, 1, n - 1)]
)
FIELDS = _uniq(
    [0, 1, 2, p - 2, p - 1, p, p + 1, 2**256 - 1, (p - 1) // 2, (p + 1) // 2, BETA, BETA * BETA % p, 7, p - 7, 2**255, 2**255 - 1,
     2**256 - 2**32, 2**32 + 977, 2**32 + 976, 977]
    + [2**k for k in (26, 52, 78, 104, 130, 156, 182, 208, 234, 64, 128, 192)]
    + [2**k - 1 for k in (26, 52, 78, 104, 130, 156, 182, 208, 234, 64, 128, 192)]
    + [int("f" * 13 + "0" * 13, 16), int("ff" * 32, 16) >> 4]
)
U64 = _uniq([0, 1, 2, 3, 9, 10, 11, 99, 100, 255, 256, 10**3, 10**9, 10**18, 10**19, 2**31, 2**32 - 1, 2**32, 2**32 + 1,
             2**53, 2**62, 2**63 - 1, 2**63, 2**63 + 1, 2**64 - 2, 2**64 - 1] + [10**k for k in range(1, 20)] + [10**k - 1 for k in range(1, 20)])

def limbs(rng):
    """256 bits assembled from limbs of one of the library's layouts (26/32/52/64 bits), each limb 0, all-ones, 1, all-ones-1,
    top bit only or random: the operands that maximise or kill carries between limbs"""
    w = rng.choice((26, 32, 52, 64)); v = 0; sh = 0
    while sh < 256:
        k = rng.randrange(8); full = (1 << w) - 1
        limb = (0, full, full, 1, full - 1, 1 << (w - 1), rng.getrandbits(w), rng.getrandbits(w))[k]
        v |= limb << sh; sh += w
    return v & (2**256 - 1)

def near_limbwise(rng, K):
    """a value that agrees with the constant K in its top limbs (32- or 64-bit), is just above / below / far from K in the next limb,
    and has misleading lower limbs (all-ones under a smaller limb, zero under a larger one, or random): the inputs that separate a
    correct limb-by-limb comparison with K from one that drops or mis-orders a limb (seeded change C01-2)"""
    w = rng.choice((32, 64)); nl = 256 // w; j = rng.randrange(nl); full = (1 << w) - 1
    kj = (K >> (w * j)) & full
    d = rng.choice((-1, 1, -1, 1, -rng.randrange(1, 1 << (w - 1)), rng.randrange(1, 1 << (w - 1))))
    vj = min(max(kj + d, 0), full)
    top = (K >> (w * (j + 1))) << (w * (j + 1))
    low_bits = w * j
    if low_bits == 0: low = 0
    else:
        kind = rng.randrange(4); lowfull = (1 << low_bits) - 1
        low = (lowfull if vj < kj else 0) if kind < 2 else (rng.getrandbits(low_bits) if kind == 2 else ((K & lowfull) + rng.choice((-1, 0, 1))) & lowfull)
    return (top | (vj << low_bits) | low) & (2**256 - 1)

CMP_SCALARS = [n, (n - 1) // 2, p - n, 2**256 - n]
def scalar(rng, pool_p=0.34):
    if rng.random() < pool_p: return rng.choice(SCALARS)
    x = rng.random()
    if x < 0.2: return limbs(rng)
    if x < 0.32: return near_limbwise(rng, rng.choice(CMP_SCALARS))
    return rng.getrandbits(256)
def valid_seckey(rng, pool_p=0.25):
    while True:
        k = scalar(rng, pool_p)
        if 0 < k < n: return k
def field(rng, pool_p=0.34):
    if rng.random() < pool_p: return rng.choice(FIELDS)
    x = rng.random()
    if x < 0.2: return limbs(rng)
    if x < 0.32: return near_limbwise(rng, rng.choice((p, p, (p - 1) // 2, n)))
    return rng.getrandbits(256)
def u64(rng, pool_p=0.4):
    if rng.random() < pool_p: return rng.choice(U64)
    k = rng.choice((8, 16, 32, 48, 63, 64))
    return rng.getrandbits(k)
def msg32(rng, pool_p=0.3):
    return b32(scalar(rng, pool_p))
def rbytes(rng, k): return bytes(rng.getrandbits(8) for _ in range(k)) if k < 64 else rng.getrandbits(8 * k).to_bytes(k, 'big')
