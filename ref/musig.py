"""BIP-327 (MuSig2) written from the BIP's algorithms, plus this library's adaptor extension (the adaptor point is added to
the first aggregate nonce before the nonce coefficient is hashed; adapt adds t, negated for an odd-y final nonce)."""
from .ec import *

def cbytes_ext(P): return bytes(33) if P is None else ser33(P)
def cpoint_ext(b):
    if b == bytes(33): return None
    P = parse_pubkey(b) if len(b) == 33 else None
    if P is None: raise ValueError("bad point")
    return P

class KeyAggCtx:
    def __init__(self, pk33s):
        self.pks = list(pk33s)
        self.pk2 = next((q for q in self.pks[1:] if q != self.pks[0]), None)
        self.L = tagged("KeyAgg list", b''.join(self.pks))
        Q = None
        for q in self.pks:
            Q = add(Q, mul(self.coef(q), parse_pubkey(q)))
        self.Q = Q; self.gacc = 1; self.tacc = 0
    def coef(self, pk33):
        if self.pk2 is not None and pk33 == self.pk2: return 1
        return I(tagged("KeyAgg coefficient", self.L + pk33)) % n
    def tweak(self, t, xonly):
        """returns False if the tweak is invalid (t >= n or the result is infinity); state unchanged then"""
        if t >= n: return False
        g = n - 1 if (xonly and not has_even_y(self.Q)) else 1
        Q2 = add(mul(g, self.Q), mulG(t))
        if Q2 is None: return False
        self.Q = Q2; self.gacc = g * self.gacc % n; self.tacc = (t + g * self.tacc) % n
        return True
    def copy(self):
        c = KeyAggCtx.__new__(KeyAggCtx); c.__dict__ = dict(self.__dict__); c.pks = list(self.pks); return c

def nonce_gen(rand_, sk, pk33, aggpk32, msg, extra):
    rand = bytes(a ^ b for a, b in zip(sk, tagged("MuSig/aux", rand_))) if sk is not None else rand_
    mp = b'\x00' if msg is None else b'\x01' + len(msg).to_bytes(8, 'big') + msg
    ag = aggpk32 or b''; ex = extra or b''
    return [I(tagged("MuSig/nonce", rand + bytes([len(pk33)]) + pk33 + bytes([len(ag)]) + ag + mp + len(ex).to_bytes(4, 'big') + ex + bytes([i]))) % n for i in range(2)]
def nonce_gen_counter(counter, sk, pk33, aggpk32, msg, extra):
    return nonce_gen(counter.to_bytes(8, 'big') + bytes(24), sk, pk33, aggpk32, msg, extra)
def pubnonce(ks): return ser33(mulG(ks[0])) + ser33(mulG(ks[1]))
def parse_pubnonce(b):
    if len(b) != 66: return None
    A = parse_pubkey(b[:33]); B = parse_pubkey(b[33:])
    return None if A is None or B is None else (A, B)
def parse_aggnonce(b):
    if len(b) != 66: return None
    out = []
    for h in (b[:33], b[33:]):
        if h == bytes(33): out.append(None); continue
        P = parse_pubkey(h)
        if P is None: return None
        out.append(P)
    return tuple(out) + (True,)
def nonce_agg(pubnonces):
    R1 = R2 = None
    for (A, B) in pubnonces: R1 = add(R1, A); R2 = add(R2, B)
    return R1, R2

class Session:
    def __init__(self, R1, R2, kctx, msg, adaptor=None):
        if adaptor is not None: R1 = add(R1, adaptor)
        Q = kctx.Q
        self.b = I(tagged("MuSig/noncecoef", cbytes_ext(R1) + cbytes_ext(R2) + xbytes(Q) + msg)) % n
        R = add(R1, mul(self.b, R2))
        self.nonce_was_infinity = R is None
        if R is None: R = G
        self.R = R; self.e = I(tagged("BIP0340/challenge", xbytes(R) + xbytes(Q) + msg)) % n
        self.kctx = kctx; self.msg = msg
        self.g = 1 if has_even_y(Q) else n - 1
        self.parity = R[1] & 1
        self.s_part = self.e * self.g * kctx.tacc % n
    def partial_sign(self, ks, d, pk33):
        k1, k2 = ks
        if self.parity: k1, k2 = n - k1, n - k2
        dd = self.g * self.kctx.gacc * d % n
        return (k1 + self.b * k2 + self.e * self.kctx.coef(pk33) * dd) % n
    def partial_verify(self, s, pubnonce, pk33):
        if s >= n: return False
        A, B = pubnonce
        Re = add(A, mul(self.b, B))
        if self.parity: Re = neg(Re)
        P = parse_pubkey(pk33)
        gp = self.g * self.kctx.gacc % n
        return mulG(s) == add(Re, mul(self.e * self.kctx.coef(pk33) * gp % n, P))
    def agg(self, psigs):
        return xbytes(self.R) + b32((sum(psigs) + self.s_part) % n)
