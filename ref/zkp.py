"""Generators, Pedersen commitments (src/modules/generator): Shallue-van de Woestijne map as documented in
main_impl.h:94-202, 'quadratic-residue y' encodings (prefix 8/9 commitments, 10/11 generators)."""
from .ec import *

NEGC = 0xf5d2d456caf80e20dcc88f3d586869d339e092ea25eb132b8272d850e32a03dd   # -c, c = (sqrt(-3)-1)/2
D = 0x851695d49a83f8ef919bb86153cbcb16630fb68aed0a766a3ec693d68e6afa40      # d = (c-1)... as documented
H_POINT = lift_x(I(sha(bytes.fromhex('0479be667ef9dcbbac55a06295ce870b07029bfcdb2dce28d959f2815b16f81798483ada7726a3c4655da4fbfc0e1108a8fd17b448a68554199c47d08ffb10d4b8'))))

def _sq(a):
    """the library's fe_sqrt: returns (is_square, a^((p+1)/4))"""
    a %= p; r = pow(a, (p + 1) // 4, p); return (r * r % p == a, r)
def svdw(t):
    wd = t * t % p; x1 = NEGC * wd % p; x3d = (-3 * wd) % p; wd = (wd + 8) % p
    j = wd * x3d % p; jinv = pow(j, p - 2, p)
    x1 = (x1 * x3d % p * jinv + D) % p; x2 = (-(x1 + 1)) % p; x3 = (wd * wd % p * wd % p * jinv + 1) % p
    f = lambda x: (x * x * x + 7) % p
    a_ok, y1 = _sq(f(x1)); b_ok, y2 = _sq(f(x2)); _, y3 = _sq(f(x3))
    if a_ok: x, y = x1, y1
    elif b_ok: x, y = x2, y2
    else: x, y = x3, y3
    if t & 1: y = (-y) % p
    return (x, y)
def generate(key32, blind32=None):
    """returns (ok, point)"""
    ok = True
    acc = None
    if blind32 is not None:
        b = I(blind32)
        if b >= n: ok = False; b %= n
        acc = mulG(b)
    for pre in (b"1st generation: ", b"2nd generation: "):
        t = I(sha(pre + key32))
        if t >= p: ok = False; t %= p
        acc = add(acc, svdw(t))
    return ok, acc
def xquad(x):
    """the point with this x whose y is a quadratic residue, or None"""
    y = fsqrt((x * x * x + 7) % p)
    if y is None: return None
    if not is_square(y): y = p - y
    return (x, y)
def gen_ser(P): return bytes([11 ^ (1 if is_square(P[1]) else 0)]) + b32(P[0])
def commit_ser(P): return bytes([9 ^ (1 if is_square(P[1]) else 0)]) + b32(P[0])
def gen_parse(b):
    if len(b) != 33 or (b[0] & 0xFE) != 10: return None
    x = I(b[1:])
    if x >= p: return None
    P = xquad(x)
    if P is None: return None
    return neg(P) if b[0] & 1 else P
def commit_parse(b):
    if len(b) != 33 or (b[0] & 0xFE) != 8: return None
    x = I(b[1:])
    if x >= p: return None
    P = xquad(x)
    if P is None: return None
    return neg(P) if b[0] & 1 else P
def commit(b, v, H):
    """b*G + v*H or None (failure)"""
    if b >= n: return None
    return add(mulG(b), mul(v, H))
