"""Sign-to-contract / anti-exfil (DESIGN Appendix A)."""
from .ec import *
from .hashes import rfc6979_nonce
from . import ecdsa

def data_hash(data32): return tagged(b's2c/ecdsa/data', data32)
def point_tweak(R0, data32): return I(tagged(b's2c/ecdsa/point', ser33(R0) + data32))

def sign(sk32, msg32, data32):
    """returns (ok, r, s, R0)"""
    d = I(sk32); valid = 0 < d < n; dd = d if valid else 1
    nd = data_hash(data32); c = 0
    while True:
        k = I(rfc6979_nonce(sk32, msg32, nd, None, c)); c += 1
        if not 0 < k < n: continue
        R0 = mulG(k); tk = point_tweak(R0, data32)
        if tk >= n: return (0, 0, 0, R0)
        k2 = (k + tk) % n
        if k2 == 0: return (0, 0, 0, R0)
        res = ecdsa.sign_with_nonce(dd, msg32, k2)
        if res is None: continue
        if not valid: return (0, 0, 0, R0)
        return (1, res[0], res[1], R0)

def signer_commit(sk32, msg32, commitment32):
    c = 0
    while True:
        k = I(rfc6979_nonce(sk32, msg32, commitment32, None, c)); c += 1
        if 0 < k < n: return mulG(k)

def verify_commit(r, data32, R0):
    """r: the signature's r as an integer; R0: opening point"""
    if R0 is None: return False
    tk = point_tweak(R0, data32)
    if tk >= n: return False
    C = add(R0, mulG(tk))
    if C is None: return False
    return C[0] % n == r
