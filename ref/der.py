"""Strict DER for ECDSA-Sig-Value as restricted by include/secp256k1.h:
SEQUENCE { INTEGER r, INTEGER s }, definite minimal lengths, no trailing bytes.
Integers that are negative, longer than 32 bytes (after the sign byte) or >= n make the
parse *succeed* with the value 0 placed in the object ("will accept any valid DER
encoded signature, even if the encoded numbers are out of range")."""
from .ec import n, I

class Bad(Exception): pass

def _read_len(b, pos, end):
    if pos >= end: raise Bad()
    b1 = b[pos]; pos += 1
    if b1 == 0xFF: raise Bad()            # X.690-0207 8.1.3.5.c: 0xFF shall not be used
    if b1 & 0x80 == 0: return b1, pos     # short form
    if b1 == 0x80: raise Bad()            # indefinite length not allowed in DER
    k = b1 & 0x7F
    if k > end - pos: raise Bad()
    if b[pos] == 0: raise Bad()           # not the shortest possible length encoding
    if k > 8: raise Bad()                 # would exceed size_t (the library's stated limit)
    ln = I(b[pos:pos + k]); pos += k
    if ln < 128: raise Bad()              # should have used the short form
    if ln > end - pos: raise Bad()
    return ln, pos

def _read_int(b, pos, end):
    """returns (value or 'overflow', newpos)"""
    if pos >= end or b[pos] != 0x02: raise Bad()
    pos += 1
    ln, pos = _read_len(b, pos, end)
    if ln == 0 or ln > end - pos: raise Bad()
    body = b[pos:pos + ln]
    if body[0] == 0x00 and ln > 1 and body[1] & 0x80 == 0: raise Bad()   # excessive 0x00 padding
    if body[0] == 0xFF and ln > 1 and body[1] & 0x80 == 0x80: raise Bad() # excessive 0xFF padding
    overflow = False
    if body[0] & 0x80: overflow = True    # negative
    mag = body
    if len(mag) > 0 and mag[0] == 0: mag = mag[1:]
    if len(mag) > 32: overflow = True
    v = 0
    if not overflow:
        v = I(mag) if mag else 0
        if v >= n: overflow = True
    return (None if overflow else v), pos + ln

def parse(b):
    """returns (r, s) to be stored in the object (both 0 when either integer is out of range), or raises Bad"""
    end = len(b); pos = 0
    if pos == end or b[pos] != 0x30: raise Bad()
    pos += 1
    ln, pos = _read_len(b, pos, end)
    if ln != end - pos: raise Bad()       # tuple exceeds / falls short of the input: no trailing bytes
    r, pos = _read_int(b, pos, end)
    s, pos = _read_int(b, pos, end)
    if pos != end: raise Bad()            # trailing garbage inside the tuple
    # an out-of-range integer is stored as 0; the other one keeps its value
    return (0 if r is None else r, 0 if s is None else s)

def enc_int(v):
    b = v.to_bytes(max(1, (v.bit_length() + 7) // 8), 'big')
    if b[0] & 0x80: b = b'\x00' + b
    return b
def enc_len(l):
    if l < 128: return bytes([l])
    lb = l.to_bytes((l.bit_length() + 7) // 8, 'big')
    return bytes([0x80 | len(lb)]) + lb
def serialize(r, s):
    rb = enc_int(r); sb = enc_int(s)
    body = b'\x02' + enc_len(len(rb)) + rb + b'\x02' + enc_len(len(sb)) + sb
    return b'\x30' + enc_len(len(body)) + body
