"""BIP-340 written from the BIP text."""
from .ec import *

def verify(pk32, msg, sig64):
    if len(pk32) != 32 or len(sig64) != 64: return False
    P = lift_x(I(pk32))
    r = I(sig64[:32]); s = I(sig64[32:])
    if P is None or r >= p or s >= n: return False
    e = I(tagged("BIP0340/challenge", sig64[:32] + pk32 + msg)) % n
    R = add(mulG(s), mul(n - e, P))
    if R is None or not has_even_y(R) or R[0] != r: return False
    return True

def nonce(sk32_masked_src, d, P, msg, aux):
    t = b32(d ^ I(tagged("BIP0340/aux", aux)))
    return I(tagged("BIP0340/nonce", t + xbytes(P) + msg)) % n

def sign(sk32, msg, aux=None):
    """default signing; aux None behaves as 32 zero bytes. returns sig or None"""
    d0 = I(sk32)
    if not 0 < d0 < n: return None
    P = mulG(d0)
    d = d0 if has_even_y(P) else n - d0
    if aux is None: aux = bytes(32)
    k0 = nonce(None, d, P, msg, aux)
    if k0 == 0: return None
    return sign_with_nonce(d0, msg, k0)

def sign_with_nonce(d0, msg, k0):
    P = mulG(d0)
    d = d0 if has_even_y(P) else n - d0
    R = mulG(k0)
    k = k0 if has_even_y(R) else n - k0
    e = I(tagged("BIP0340/challenge", xbytes(R) + xbytes(P) + msg)) % n
    return xbytes(R) + b32((k + e * d) % n)
