"""Borromean range proofs: reference verifier (header grammar, ring layout, digit commitments, message hash) and an
adversarial prover for arbitrary headers with every forged scalar chosen freely (DESIGN Appendix A)."""
from .ec import *
from . import borromean, zkp

U64 = 2**64 - 1
def rp_ser_point(P): return bytes([0 if is_square(P[1]) else 1]) + b32(P[0])

def header(proof):
    """returns (offset, exp, mantissa, scale, min, max) or None"""
    plen = len(proof); off = 0
    if plen < 65 or proof[0] & 128: return None
    has_nz = proof[0] & 64; has_min = proof[0] & 32; exp = -1; mant = 0
    if has_nz:
        exp = proof[0] & 31; off += 1
        if exp > 18: return None
        mant = proof[off] + 1
        if mant > 64: return None
        maxv = (1 << mant) - 1
    else: maxv = 0
    off += 1; scale = 1
    for i in range(max(exp, 0)):
        if maxv > U64 // 10: return None
        maxv *= 10; scale *= 10
    minv = 0
    if has_min:
        if plen - off < 8: return None
        minv = I(proof[off:off + 8]); off += 8
    if maxv > U64 - minv: return None
    return off, exp, mant, scale, minv, maxv + minv

def layout(mant):
    if mant:
        rsizes = [4] * (mant >> 1)
        if mant & 1: rsizes.append(2)
    else: rsizes = [1]
    return rsizes

def verify(C, H, proof, extra):
    """C, H: points (commitment, generator). returns (min, max) or None"""
    h = header(proof)
    if h is None: return None
    off, exp, mant, scale, minv, maxv = h
    rsizes = layout(mant); rings = len(rsizes); npub = sum(rsizes)
    if len(proof) - off < 32 * (npub + rings - 1) + 32 + ((rings + 6) >> 3): return None
    m = rp_ser_point(C) + rp_ser_point(H) + proof[:off]
    signs = [(proof[off + (i >> 3)] >> (i & 7)) & 1 for i in range(rings - 1)]
    off += (rings + 6) >> 3
    if (rings - 1) & 7 and (proof[off - 1] >> ((rings - 1) & 7)) != 0: return None
    acc = mul(minv, H) if minv else None
    firsts = []
    for i in range(rings - 1):
        x = I(proof[off:off + 32])
        if x >= p: return None
        c = zkp.xquad(x)
        if c is None: return None
        if signs[i]: c = neg(c)
        m += bytes([signs[i]]) + proof[off:off + 32]
        firsts.append(c); acc = add(acc, c); off += 32
    last = add(neg(acc), C)
    if last is None: return None
    firsts.append(last)
    base = neg(mul(10 ** max(exp, 0), H)); pubs = []
    for i in range(rings):
        P = firsts[i]; pubs.append(P)
        for j in range(1, rsizes[i]):
            P = add(P, base); pubs.append(P)
        if i < rings - 1: base = mul(4, base)
    e0 = proof[off:off + 32]; off += 32; s = []
    for i in range(npub):
        v = I(proof[off:off + 32])
        if v >= n: return None
        s.append(v); off += 32
    if off != len(proof): return None
    m = sha(m + extra)
    if not borromean.verify(e0, s, pubs, rsizes, m): return None
    return minv, maxv

def make_proof(value, blind, H, exp, mantissa, minv, extra, rng, reserved=0, small=True, exp_field=None, mant_field=None, spare_bits=0, no_range=False, forged_override=None, bl_override=None, force_min_flag=False):
    """adversarial prover. The statement is value = minv + v*10^exp with v < 2^mantissa (all arithmetic over the integers, so
    wrapping headers can be produced). returns dict(C, proof, scalars offset, forged (flat list with None at the real ones), ...) or None"""
    if no_range:
        rsizes = [1]; rings = 1; scale = 1; v = 0
        hdr = bytes([(32 if minv else 0) | (128 if reserved else 0)]) + (minv.to_bytes(8, 'big') if minv else b'')
    else:
        rsizes = layout(mantissa); rings = len(rsizes); scale = 10 ** exp
        v = (value - minv) // scale
        if v * scale + minv != value or not 0 <= v < (1 << mantissa): return None
        hm = bool(minv) or force_min_flag      # the minimum-value field may be present with an explicit zero
        hdr = bytes([64 | (exp if exp_field is None else exp_field) | (32 if hm else 0) | (128 if reserved else 0), (mantissa - 1) if mant_field is None else mant_field]) + (minv.to_bytes(8, 'big') if hm else b'')
    C = add(mulG(blind), mul(value, H) if value else None)
    if C is None: return None
    digs = [(v >> (2 * i)) & 3 for i in range(rings)] if not no_range else [0]
    bl = [rng.randrange(1, n) for i in range(rings - 1)]
    if bl_override:
        for i_, v_ in bl_override.items():
            if i_ < rings - 1: bl[i_] = v_(digs[i_], scale * 4 ** i_) % n      # v_(digit, weight) -> blinding factor of ring i_
    bl.append((blind - sum(bl)) % n)
    firsts = []; signs = []; xs = []
    for i in range(rings - 1):
        Ci = add(mulG(bl[i]), mul(digs[i] * scale * 4 ** i, H) if digs[i] else None)
        if Ci is None: return None
        firsts.append(Ci); signs.append(0 if is_square(Ci[1]) else 1); xs.append(b32(Ci[0]))
    acc = mul(minv, H) if minv else None
    for c in firsts: acc = add(acc, c)
    last = add(C, neg(acc))
    if last is None: return None
    firsts.append(last)
    signbytes = bytearray((rings + 6) >> 3)
    for i, sg in enumerate(signs): signbytes[i >> 3] |= sg << (i & 7)
    if spare_bits and (rings - 1) & 7: signbytes[-1] |= (spare_bits << ((rings - 1) & 7)) & 0xFF
    m = rp_ser_point(C) + rp_ser_point(H) + hdr + b''.join(bytes([signs[i]]) + xs[i] for i in range(rings - 1))
    m = sha(m + extra)
    pubs = []; base = neg(mul(scale, H))
    for i in range(rings):
        ring = [firsts[i]]
        for j in range(1, rsizes[i]): ring.append(add(ring[-1], base))
        pubs.append(ring)
        if i < rings - 1: base = mul(4, base)
    if any(P is None for ring in pubs for P in ring) and not bl_override: return None
    forged = [[(rng.randrange(1, 2**100) if small else rng.randrange(1, n)) for j in range(rsizes[i])] for i in range(rings)]
    if forged_override:
        for (i_, j_), v_ in forged_override.items():
            if i_ < rings and j_ < rsizes[i_] and j_ != digs[i_]: forged[i_][j_] = v_
    res = borromean.sign(pubs, digs, bl, [rng.randrange(1, n) for i in range(rings)], forged, m)
    if res is None: return None
    e0, s = res
    soff = len(hdr) + len(signbytes) + 32 * (rings - 1) + 32
    flat = [x for ring in s for x in ring]
    is_forged = []
    for i in range(rings):
        for j in range(rsizes[i]): is_forged.append(j != digs[i])
    proof = hdr + bytes(signbytes) + b''.join(xs) + e0 + b''.join(b32(x) for x in flat)
    def ring_secs_all(h):
        """discrete logs of every ring member when the generator is H = h*G"""
        return [[(bl[i] + (digs[i] - j) * scale * 4 ** i * h) % n for j in range(rsizes[i])] for i in range(rings)]
    return dict(C=C, proof=proof, soff=soff, scalars=flat, is_forged=is_forged, xoff=len(hdr) + len(signbytes), rings=rings, hdrlen=len(hdr), rsizes=rsizes,
                e0=e0, s_nested=s, pubs=pubs, m=m, ring_secs=True, ring_secs_all=ring_secs_all, acc=acc)

def make_proof_smallx(rng, extra, noncanon, mantissa=None):
    """adversarial prover for a proof whose FIRST digit commitment has a tiny x coordinate (x0 < 2^32 + 977), so that x0 + p still
    fits in 32 bytes.  Nobody knows the discrete log of such a point, but the prover is free to choose the generator: with
    H := d0^-1 (C0 - k0 G) the ring member for the true digit d0 is C0 - d0 H = k0 G.  noncanon=True encodes the coordinate as
    x0 + p (and hashes those bytes, as the verifier would): a correct verifier must reject it.  returns dict(C, H, proof, x0)."""
    mant = mantissa or rng.choice((3, 4)); rsizes = layout(mant); rings = len(rsizes)
    while True:
        x0 = rng.randrange(1, 2**32 + 977)
        C0 = zkp.xquad(x0)
        if C0 is not None: break
    sign0 = rng.randrange(2)
    if sign0: C0 = neg(C0)
    d0 = rng.randrange(1, 4); k0 = rng.randrange(1, n)
    H = mul(pow(d0, -1, n), sub(C0, mulG(k0)))
    if H is None: return None
    digs = [d0]; secs = [k0]; firsts = [C0]
    for i in range(1, rings):
        di = rng.randrange(rsizes[i]); bi = rng.randrange(1, n)
        Ci = add(mulG(bi), mul(di * 4 ** i, H) if di else None)
        if Ci is None: return None
        digs.append(di); secs.append(bi); firsts.append(Ci)
    C = None
    for c in firsts: C = add(C, c)
    if C is None: return None
    hdr = bytes([64, mant - 1])
    signs = [sign0] + [0 if is_square(firsts[i][1]) else 1 for i in range(1, rings - 1)]
    xs = [b32(x0 + p if noncanon else x0)] + [b32(firsts[i][0]) for i in range(1, rings - 1)]
    signbytes = bytearray((rings + 6) >> 3)
    for i, sg in enumerate(signs): signbytes[i >> 3] |= sg << (i & 7)
    m = rp_ser_point(C) + rp_ser_point(H) + hdr + b''.join(bytes([signs[i]]) + xs[i] for i in range(rings - 1))
    m = sha(m + extra)
    pubs = []; base = neg(H)
    for i in range(rings):
        ring = [firsts[i]]
        for j in range(1, rsizes[i]): ring.append(add(ring[-1], base))
        pubs.append(ring)
        if i < rings - 1: base = mul(4, base)
    if any(P is None for ring in pubs for P in ring): return None
    forged = [[rng.randrange(1, n) for j in range(rsizes[i])] for i in range(rings)]
    res = borromean.sign(pubs, digs, secs, [rng.randrange(1, n) for i in range(rings)], forged, m)
    if res is None: return None
    e0, s = res
    proof = hdr + bytes(signbytes) + b''.join(xs) + e0 + b''.join(b32(x) for ring in s for x in ring)
    return dict(C=C, H=H, proof=proof, x0=x0, mant=mant)
