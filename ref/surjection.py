"""Surjection proofs (src/modules/surjection/surjection.md): canonical encoding le16(n_inputs) || bitmap || e0 || s...,
ring keys = output - selected inputs, single Borromean ring over message H(tagser(in_0)..tagser(in_{n-1}) tagser(out))."""
from .ec import *
from . import borromean

def tagser(P): return bytes([2 + (P[1] & 1)]) + b32(P[0])
def popcount(b): return sum(bin(x).count("1") for x in b)

def parse(s):
    """canonical encoding -> (n_inputs, bitmap bytes, e0, [scalars]) or None"""
    if len(s) < 2: return None
    nin = s[0] | (s[1] << 8)
    if nin > 256: return None
    bl = (nin + 7) // 8
    if len(s) < 2 + bl: return None
    bm = s[2:2 + bl]
    if nin % 8 and bm[-1] >> (nin % 8): return None
    used = popcount(bm)
    if len(s) != 2 + bl + 32 * (1 + used): return None
    body = s[2 + bl:]
    return nin, bm, body[:32], [I(body[32 + 32 * j:64 + 32 * j]) for j in range(used)]

def serialize(nin, bm, e0, scalars):
    return bytes([nin & 0xFF, nin >> 8]) + bm + e0 + b''.join(b32(x) for x in scalars)

def msg(inputs, out):
    return sha(b''.join(tagser(P) for P in inputs) + tagser(out))

def verify(s, inputs, out):
    """s: serialized proof; inputs: list of points (ephemeral input tags); out: point"""
    pr = parse(s)
    if pr is None: return False
    nin, bm, e0, sc = pr
    if nin != len(inputs) or len(sc) == 0 or len(sc) > nin: return False
    if any(x >= n for x in sc): return False
    used = [j for j in range(nin) if bm[j // 8] >> (j % 8) & 1]
    pubs = [add(out, neg(inputs[j])) for j in used]
    return borromean.verify(e0, sc, pubs, [len(used)], msg(inputs, out))

def prove(inputs, out, used, idx, sec, forged, k, allow_infinite_member=False):
    """adversarial prover. used: sorted list of selected input indices; idx: position within `used` of the known key;
    sec: discrete log of out - inputs[used[idx]]; forged: chosen scalars"""
    nin = len(inputs); bm = bytearray((nin + 7) // 8)
    for j in used: bm[j // 8] |= 1 << (j % 8)
    pubs = [add(out, neg(inputs[j])) for j in used]
    if any(P is None for P in pubs) and not allow_infinite_member: return None
    res = borromean.sign([pubs], [idx], [sec], [k], [forged], msg(inputs, out))
    if res is None: return None
    e0, s = res
    return serialize(nin, bytes(bm), e0, s[0])
