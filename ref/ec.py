"""Independent reference arithmetic for secp256k1 written from the textbook:
Python integers, affine/Jacobian formulas, explicit point at infinity (None).
Shares no code with the library."""
import hashlib

p = 2**256 - 2**32 - 977
n = 0xFFFFFFFFFFFFFFFFFFFFFFFFFFFFFFFEBAAEDCE6AF48A03BBFD25E8CD0364141
Gx = 0x79BE667EF9DCBBAC55A06295CE870B07029BFCDB2DCE28D959F2815B16F81798
Gy = 0x483ADA7726A3C4655DA4FBFC0E1108A8FD17B448A68554199C47D08FFB10D4B8
G = (Gx, Gy)
HALF_N = n // 2
BETA = 0x7ae96a2b657c07106e64479eac3434e99cf0497512f58995c1396c28719501ee
LAMBDA = 0x5363ad4cc05c30e0a5261c028812645a122e22ea20816678df02967c1b23bd72

def I(b): return int.from_bytes(b, 'big')
def b32(i): return int(i).to_bytes(32, 'big')
def sha(b): return hashlib.sha256(b).digest()
def tagged(tag, msg):
    if isinstance(tag, str): tag = tag.encode()
    t = sha(tag); return sha(t + t + msg)

def finv(a): return pow(a, -1, p)
def fsqrt(a):
    """a square root of a mod p or None"""
    a %= p
    r = pow(a, (p + 1) // 4, p)
    return r if r * r % p == a else None
def is_square(a):
    a %= p
    return a == 0 or pow(a, (p - 1) // 2, p) == 1
def on_curve(P):
    return P is not None and (P[1] * P[1] - P[0] * P[0] * P[0] - 7) % p == 0

# ---- affine group law (the specification)
def add(P, Q):
    if P is None: return Q
    if Q is None: return P
    if P[0] == Q[0]:
        if (P[1] + Q[1]) % p == 0: return None
        l = 3 * P[0] * P[0] * finv(2 * P[1]) % p
    else:
        l = (Q[1] - P[1]) * finv(Q[0] - P[0]) % p
    x = (l * l - P[0] - Q[0]) % p
    return (x, (l * (P[0] - x) - P[1]) % p)
def neg(P): return None if P is None else (P[0], (-P[1]) % p)
def sub(P, Q): return add(P, neg(Q))

# ---- Jacobian helpers for speed (checked against the affine law in selftest)
def _jdbl(X, Y, Z):
    if Y == 0 or Z == 0: return (0, 1, 0)
    A = X * X % p; B = Y * Y % p; C = B * B % p
    D = 2 * ((X + B) * (X + B) - A - C) % p
    E = 3 * A; F = E * E
    X3 = (F - 2 * D) % p
    return (X3, (E * (D - X3) - 8 * C) % p, 2 * Y * Z % p)
def _jadd_affine(X1, Y1, Z1, x2, y2):
    if Z1 == 0: return (x2, y2, 1)
    Z1Z1 = Z1 * Z1 % p
    U2 = x2 * Z1Z1 % p; S2 = y2 * Z1 * Z1Z1 % p
    H = (U2 - X1) % p; r = (S2 - Y1) % p
    if H == 0:
        if r == 0: return _jdbl(X1, Y1, Z1)
        return (0, 1, 0)
    HH = H * H % p; HHH = H * HH % p; V = X1 * HH % p
    X3 = (r * r - HHH - 2 * V) % p
    return (X3, (r * (V - X3) - Y1 * HHH) % p, Z1 * H % p)
def _jaff(X, Y, Z):
    if Z == 0: return None
    zi = finv(Z); zi2 = zi * zi % p
    return (X * zi2 % p, Y * zi2 * zi % p)

def mul(k, P):
    """k*P for any integer k (reduced mod n), P affine or None"""
    if P is None: return None
    k %= n
    if k == 0: return None
    if P == G: return mulG(k)
    # 4-bit fixed window
    tab = [None, P]
    J = (P[0], P[1], 1)
    jt = [None, J]
    for i in range(2, 16):
        J = _jadd_affine(J[0], J[1], J[2], P[0], P[1]) if i != 2 else _jdbl(P[0], P[1], 1)
        jt.append(J)
    # convert the table to affine with one batch inversion
    zs = [t[2] for t in jt[1:]]
    if any(z == 0 for z in zs):
        # tiny-order impossible on secp256k1; fall back to the plain ladder
        R = None; Q = P
        while k:
            if k & 1: R = add(R, Q)
            Q = add(Q, Q); k >>= 1
        return R
    acc = [1] * len(zs); run = 1
    for i, z in enumerate(zs):
        acc[i] = run; run = run * z % p
    inv = finv(run); at = [None] * 16
    for i in range(len(zs) - 1, -1, -1):
        zi = inv * acc[i] % p; inv = inv * zs[i] % p
        zi2 = zi * zi % p; t = jt[i + 1]
        at[i + 1] = (t[0] * zi2 % p, t[1] * zi2 * zi % p)
    X, Y, Z = 0, 1, 0
    for sh in range(252, -1, -4):
        if Z:
            X, Y, Z = _jdbl(X, Y, Z); X, Y, Z = _jdbl(X, Y, Z); X, Y, Z = _jdbl(X, Y, Z); X, Y, Z = _jdbl(X, Y, Z)
        d = (k >> sh) & 15
        if d:
            X, Y, Z = _jadd_affine(X, Y, Z, at[d][0], at[d][1])
    return _jaff(X, Y, Z)

_GT = None
def _gtable():
    global _GT
    if _GT is None:
        T = []; B = G
        for w in range(64):
            row = [None, B]; Q = B
            for d in range(2, 16):
                Q = add(Q, B); row.append(Q)
            T.append(row)
            B = add(Q, B)  # 16 * B_prev
        _GT = T
    return _GT
def mulG(k):
    k %= n
    if k == 0: return None
    T = _gtable(); X, Y, Z = 0, 1, 0
    for w in range(64):
        d = (k >> (4 * w)) & 15
        if d:
            q = T[w][d]; X, Y, Z = _jadd_affine(X, Y, Z, q[0], q[1])
    return _jaff(X, Y, Z)

def msum(pairs):
    """sum of k_i * P_i"""
    R = None
    for k, P in pairs:
        R = add(R, mul(k, P))
    return R

# ---- encodings
def ser33(P): return bytes([2 + (P[1] & 1)]) + b32(P[0])
def ser65(P): return b'\x04' + b32(P[0]) + b32(P[1])
def xbytes(P): return b32(P[0])
def lift_x(x):
    """BIP-340 lift_x: even y; None if x >= p or not on the curve"""
    if x >= p: return None
    y = fsqrt((x * x * x + 7) % p)
    if y is None: return None
    return (x, y if y % 2 == 0 else p - y)
def decompress(x, odd):
    if x >= p: return None
    y = fsqrt((x * x * x + 7) % p)
    if y is None: return None
    if (y & 1) != odd: y = p - y
    return (x, y)
def parse_pubkey(b):
    """SEC1 parser as restricted by the library header: 33 bytes 02/03, 65 bytes 04/06/07"""
    if len(b) == 33 and b[0] in (2, 3):
        return decompress(I(b[1:]), b[0] & 1)
    if len(b) == 65 and b[0] in (4, 6, 7):
        x = I(b[1:33]); y = I(b[33:])
        if x >= p or y >= p: return None
        if (y * y - x * x * x - 7) % p: return None
        if b[0] in (6, 7) and (y & 1) != (b[0] & 1): return None
        return (x, y)
    return None
def has_even_y(P): return P[1] % 2 == 0

def selftest():
    import random
    r = random.Random(7)
    assert on_curve(G) and mul(n - 1, G) == neg(G) and mulG(n) is None
    for _ in range(20):
        k = r.randrange(1, n); l = r.randrange(1, n)
        P = mulG(k)
        # plain double-and-add ladder in affine coordinates as the specification
        R = None; Q = G; kk = k
        while kk:
            if kk & 1: R = add(R, Q)
            Q = add(Q, Q); kk >>= 1
        assert R == P and on_curve(P)
        assert mul(l, P) == mulG(k * l % n)
        assert add(P, neg(P)) is None and add(P, P) == mul(2, P)
    return True
