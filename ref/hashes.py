"""HMAC-DRBG of RFC 6979 as used by the library, written from the RFC."""
import hmac, hashlib
from .ec import I, b32, n

class Drbg:
    def __init__(s, key):
        s.v = b'\x01' * 32; s.k = b'\x00' * 32
        s.k = hmac.new(s.k, s.v + b'\x00' + key, 'sha256').digest(); s.v = hmac.new(s.k, s.v, 'sha256').digest()
        s.k = hmac.new(s.k, s.v + b'\x01' + key, 'sha256').digest(); s.v = hmac.new(s.k, s.v, 'sha256').digest()
        s.retry = False
    def gen(s, outlen=32):
        if s.retry:
            s.k = hmac.new(s.k, s.v + b'\x00', 'sha256').digest(); s.v = hmac.new(s.k, s.v, 'sha256').digest()
        out = b''
        while len(out) < outlen:
            s.v = hmac.new(s.k, s.v, 'sha256').digest(); out += s.v
        s.retry = True
        return out[:outlen]

def rfc6979_nonce(key32, msg32, data=None, algo=None, counter=0):
    """library's nonce_function_rfc6979: DRBG keyed with key || (msg mod n) || [data32] || [algo16]; nonce for
    attempt c is the (c+1)-th 32-byte output"""
    kd = key32 + b32(I(msg32) % n) + (data or b'') + (algo or b'')
    d = Drbg(kd)
    for _ in range(counter + 1): out = d.gen()
    return out
