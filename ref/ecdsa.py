"""ECDSA on secp256k1 from the textbook + the library's documented conventions
(low-S, RFC 6979 nonce with retry counter, recovery id)."""
from .ec import *
from .hashes import rfc6979_nonce

def verify_rs(r, s, msg32, Q, require_low_s=True):
    """r,s integers in [0,n); Q affine point"""
    if Q is None or not (1 <= r < n) or not (1 <= s < n): return False
    if require_low_s and s > HALF_N: return False
    m = I(msg32) % n
    si = pow(s, -1, n)
    R = add(mulG(m * si % n), mul(r * si % n, Q))
    if R is None: return False
    return R[0] % n == r

def sign_with_nonce(d, msg32, k):
    """one attempt of the sign core. returns (r, s, recid) or None when r == 0 or s == 0"""
    m = I(msg32) % n
    R = mulG(k)
    r = R[0] % n
    recid = (2 if R[0] >= n else 0) | (R[1] & 1)
    s = pow(k, -1, n) * (m + r * d) % n
    if r == 0 or s == 0: return None
    if s > HALF_N:
        s = n - s; recid ^= 1
    return (r, s, recid)

def sign(sk32, msg32, noncefn=None, extra=None):
    """the library's signing function. noncefn(counter) -> 32 bytes or None (failure); default RFC 6979.
    returns (ok, r, s, recid, calls)"""
    d = I(sk32); valid = 0 < d < n
    dd = d if valid else 1
    c = 0
    while True:
        nb = noncefn(c) if noncefn else rfc6979_nonce(sk32, msg32, extra, None, c)
        if nb is None:
            return (0, 0, 0, 0, c + 1)
        k = I(nb)
        if 0 < k < n:
            res = sign_with_nonce(dd, msg32, k)
            if res is not None:
                if not valid: return (0, 0, 0, 0, c + 1)
                return (1, res[0], res[1], res[2], c + 1)
        c += 1

def recover(r, s, recid, msg32):
    """returns the public key or None"""
    if not (1 <= r < n) or not (1 <= s < n): return None
    x = r
    if recid & 2:
        if x + n >= p: return None
        x += n
    R = decompress(x, recid & 1)
    if R is None: return None
    ri = pow(r, -1, n); m = I(msg32) % n
    Q = add(mul(s * ri % n, R), mulG((-m * ri) % n))
    return Q
