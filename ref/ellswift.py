"""ElligatorSwift per BIP-324 (XSwiftEC) and the ECDH hashers."""
from .ec import *
MINUS_3_SQRT = 0x0a2d2ba93507f1df233770c2a797962cc61f6d15da14ecd47d8d27ae1cd5f852
assert MINUS_3_SQRT * MINUS_3_SQRT % p == p - 3

def xswiftec(u, t, info=None):
    """BIP-324 XSwiftEC; u, t integers (reduced mod p here). info: optional dict receiving the branch taken"""
    u %= p; t %= p
    rem = []
    if u == 0: u = 1; rem.append("u0")
    if t == 0: t = 1; rem.append("t0")
    if (u * u * u + t * t + 7) % p == 0: t = 2 * t % p; rem.append("sum0")
    X = (u * u * u + 7 - t * t) * finv(2 * t) % p
    Y = (X + t) * finv(MINUS_3_SQRT * u % p) % p
    cands = [(u + 4 * Y * Y) % p]
    if Y:
        cands += [(-X * finv(Y) - u) * finv(2) % p, (X * finv(Y) - u) * finv(2) % p]
    for i, x in enumerate(cands):
        if fsqrt((x * x * x + 7) % p) is not None:
            if info is not None: info["branch"] = "x%d" % (i + 1); info["remap"] = "+".join(rem) or "none"
            return x
    raise AssertionError("xswiftec: no candidate on the curve")

def decode(ell64, info=None):
    u = I(ell64[:32]); t = I(ell64[32:])
    x = xswiftec(u, t, info)
    return decompress(x, (t % p) & 1)

def ecdh_default(P):
    return sha(bytes([2 | (P[1] & 1)]) + b32(P[0]))
def xdh_bip324(ell_a, ell_b, x): return tagged(b'bip324_ellswift_xonly_ecdh', ell_a + ell_b + b32(x))
def xdh_prefix(prefix64, ell_a, ell_b, x): return sha(prefix64 + ell_a + ell_b + b32(x))
