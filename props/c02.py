"""C02 BIP-340 Schnorr signing and verification are exact."""
from ref.ec import *
from ref import pools, schnorr

ID = "C02"
LEVEL = "exploration"
CONFIGS = {"quick": ["san", "mx_i64", "mx_noasm"], "thorough": ["san", "san_nv", "mx_i64", "mx_i128s", "mx_noasm", "mx_clang", "mx_w2"]}
EXTRA_BUILDS = ["sg13", "sg199"]
RULE = ("sign32 / sign_custom / verify records: every message length 0..300 and sampled lengths to 10^5 (block boundaries), both key parities, "
        "aux absent / zero / random, custom nonce functions (failing, zero, fixed incl. values >= n); candidate signatures: honest, all 512 single-bit "
        "flips of some and sampled flips of the rest, r in {p, p+1, 2^256-1, off-curve}, s in {n, n+1, 2^256-1, s+n}, the R = infinity construction "
        "(s = e*d), odd-y R, random strings, pool x-only keys; outputs compared byte for byte with a BIP-340 model written from the BIP. "
        "non-trivial = valid signature or one mutation from one; distinct = distinct (op, inputs)")
ASSUMPTIONS = ["ref/schnorr.py transcribes BIP-340 correctly (checked against the BIP's own test vectors in tools/selftest_ref.py)",
               "s+n re-encodings of *valid* signatures are not constructible on the real curve; that clause is decided in the small-group build (C17 / sg checks)"]

def keypair(ctx, sk, config):
    r = ctx.call("keypair_create", sk, config=config)
    return r.b(1) if r is not None and r.ret == 1 else None
def xonly(ctx, x32, config):
    r = ctx.call("xonly_parse", x32, config=config)
    return r.b(1) if r is not None and r.ret == 1 else None

def msg_lengths(ctx):
    rng = ctx.rng
    L = list(ctx.mine(range(0, 301)))
    extra = []
    for k in range(9, 17):
        extra += [2**k - 1, 2**k, 2**k + 1]
    extra += [64 * j + d for j in (5, 6, 7, 8, 16, 100, 1000) for d in (-1, 0, 1)] + [55, 56, 57, 119, 120, 121, 99999, 100000]
    if not ctx.quick: extra += [rng.randrange(301, 100001) for _ in range(40)]
    L += list(ctx.mine(sorted(set(extra))))
    return L

def wl_sign(ctx, config, scale=1.0):
    rng = ctx.rng
    lens = msg_lengths(ctx) if scale == 1.0 else list(ctx.mine([0, 1, 31, 32, 33, 55, 56, 63, 64, 65, 119, 120, 128, 300, 301, 1000, 4097]))
    reps = 1 if ctx.quick else 6
    for L in lens:
        for rep in range(reps):
            d0 = pools.valid_seckey(rng, 0.2); sk = b32(d0)
            kp = keypair(ctx, sk, config)
            if kp is None: continue
            P = mulG(d0); par = "odd" if P[1] & 1 else "even"
            msg = pools.rbytes(rng, L)
            auxk = rng.randrange(3); aux = None if auxk == 0 else (bytes(32) if auxk == 1 else pools.rbytes(rng, 32))
            want = schnorr.sign(sk, msg, aux)
            mode = rng.choice((0, 1, 2)) if aux is not None else rng.choice((0, 1, 2))
            if mode == 0 and aux is not None: mode = 1
            r = ctx.call("schnorr_sign_custom", msg, kp, mode, aux, config=config)
            if r is None: continue
            ctx.ev("schnorr_sign_custom", "len%s:%s:aux%d" % ("<=300" if L <= 300 else ">300", par, auxk), True, sk, msg, aux or b'-', mode)
            ctx.count("msg_len_%s" % ("le300" if L <= 300 else "gt300"))
            ok = r.ret == 1 and r.b(1) == want
            ctx.check(ok, "schnorr_sign_custom:bytes:%s" % ("len<=300" if L <= 300 else "len>300"), "sk=%s len=%d aux=%s mode=%d want %s got %r msg=%s" % (sk.hex(), L, aux.hex() if aux else None, mode, want.hex(), r, msg[:80].hex()), config)
            xo = xonly(ctx, xbytes(P), config)
            if xo is not None and r.ret == 1:
                v = ctx.call("schnorr_verify", r.b(1), msg, xo, config=config)
                if v is not None: ctx.check(v.ret == 1, "schnorr_sign_custom:output_does_not_verify", "sk=%s len=%d" % (sk.hex(), L), config)
            if L == 32:
                for op in ("schnorr_sign32", "schnorr_sign_old"):
                    r2 = ctx.call(op, msg, kp, aux, config=config)
                    if r2 is None: continue
                    ctx.ev(op, "aux%d:%s" % (auxk, par), True, sk, msg, aux or b'-')
                    ctx.check(r2.ret == 1 and r2.b(1) == want, "%s:bytes" % op, "sk=%s aux=%s want %s got %r" % (sk.hex(), aux, want.hex(), r2), config)
    # 32-byte messages from the pool, all aux kinds
    for it in range(int(ctx.n(600, 15000) * scale)):
        d0 = pools.valid_seckey(rng, 0.3); sk = b32(d0); kp = keypair(ctx, sk, config)
        if kp is None: continue
        msg = pools.msg32(rng, 0.4); auxk = it % 3; aux = None if auxk == 0 else (bytes(32) if auxk == 1 else pools.msg32(rng, 0.3))
        want = schnorr.sign(sk, msg, aux)
        r = ctx.call("schnorr_sign32", msg, kp, aux, config=config)
        if r is None: continue
        ctx.ev("schnorr_sign32", "pool:aux%d" % auxk, True, sk, msg, aux or b'-')
        ctx.check(r.ret == 1 and r.b(1) == want, "schnorr_sign32:bytes", "sk=%s msg=%s aux=%s want %s got %r" % (sk.hex(), msg.hex(), aux, want.hex(), r), config)
        if it % 2 == 0:
            # the deprecated entry point secp256k1_schnorrsig_sign is the same function of (key, message, aux)
            ro = ctx.call("schnorr_sign_old", msg, kp, aux, config=config)
            if ro is not None:
                ctx.ev("schnorr_sign_old", "pool:aux%d" % auxk, True, sk, msg, aux or b'-')
                ctx.check(ro.ret == 1 and ro.b(1) == want, "schnorr_sign_old:bytes", "sk=%s msg=%s aux=%s want %s got %r" % (sk.hex(), msg.hex(), aux, want.hex(), ro), config)
    # custom nonce functions
    for it in range(int(ctx.n(300, 6000) * scale)):
        d0 = pools.valid_seckey(rng, 0.2); sk = b32(d0); kp = keypair(ctx, sk, config)
        if kp is None: continue
        msg = pools.rbytes(rng, rng.choice((0, 1, 32, 33, 100)))
        mode = rng.choice((3, 4, 5, 5, 5, 6))
        nd = None
        if mode == 5:
            k0 = rng.choice((1, n - 1, n, n + 1, 0, 2**256 - 1)) if rng.random() < 0.4 else rng.getrandbits(256)
            nd = b32(k0); want = schnorr.sign_with_nonce(d0, msg, k0 % n) if k0 % n else None
        else: want = None
        r = ctx.call("schnorr_sign_custom", msg, kp, mode, nd, config=config, ill=(2 if mode == 6 else 0))
        if r is None: continue
        ctx.ev("schnorr_sign_custom", "noncefp_mode%d%s" % (mode, "" if want or mode != 5 else ":zero"), True, sk, msg, mode, nd or b'')
        if want is None:
            if mode == 6: ctx.check(r.ret == 0, "schnorr_sign_custom:bad_magic_accepted", repr(r), config)
            else: ctx.check(r.ret == 0 and r.b(1) == bytes(64), "schnorr_sign_custom:failing_nonce:%s" % ("ret" if r.ret else "nonzero_output"), "mode=%d nd=%s %r" % (mode, nd, r), config)
        else:
            ctx.check(r.ret == 1 and r.b(1) == want, "schnorr_sign_custom:fixed_nonce_bytes", "sk=%s nd=%s want %s got %r" % (sk.hex(), nd.hex(), want.hex(), r), config)

def wl_nonce_fn(ctx, config, scale=1.0):
    """the exported BIP-340 nonce function called directly: TaggedHash(algo, (key XOR TaggedHash("BIP0340/aux", aux)) || pk || msg) for
    the BIP's own tag (optimised midstate path), other tags of every length 0..40, aux present / absent; algo == NULL must fail"""
    rng = ctx.rng
    for it in range(int(ctx.n(200, 5000) * scale)):
        key = pools.rbytes(rng, 32); pk = pools.rbytes(rng, 32); msg = pools.rbytes(rng, rng.choice((0, 1, 32, 33, 64, 100)))
        algo = b"BIP0340/nonce" if it % 3 == 0 else (pools.rbytes(rng, it % 41) if it % 3 == 1 else b"BIP0340/nonce"[:rng.randrange(13)] + pools.rbytes(rng, rng.randrange(3)))
        aux = pools.rbytes(rng, 32) if it % 2 else None
        r = ctx.call("nonce_bip340", msg, key, pk, algo, aux, config=config)
        if r is None: continue
        ctx.ev("nonce_bip340", "algo_%s:aux%d" % ("bip340" if algo == b"BIP0340/nonce" else "len%d" % min(len(algo), 17), aux is not None), True, msg, key, pk, algo, aux or b'')
        t = bytes(a ^ b for a, b in zip(key, tagged(b"BIP0340/aux", aux if aux is not None else bytes(32))))
        want = tagged(algo, t + pk + msg)
        if it % 9 == 0:
            r0 = ctx.call("nonce_bip340", msg, key, pk, None, aux, config=config)
            if r0 is not None: ctx.check(r0.ret == 0, "nonce_bip340:null_algo_accepted", repr(r0), config)
        ctx.check(r.ret == 1 and r.b(1) == want, "nonce_bip340:bytes", "algo=%s aux=%s want %s got %r" % (algo.hex(), aux, want.hex(), r), config)

def vcase(ctx, config, pk32, msg, sig, cls, nontrivial=True):
    xo = xonly(ctx, pk32, config)
    if xo is None: return
    exp = schnorr.verify(pk32, msg, sig)
    v = ctx.call("schnorr_verify", sig, msg, xo, config=config)
    if v is None: return
    ctx.ev("schnorr_verify", cls, nontrivial, pk32, msg, sig)
    ctx.check(v.ret == (1 if exp else 0), "schnorr_verify:%s:%s" % (cls, "accepted_invalid" if v.ret else "rejected_valid"),
              "pk=%s msglen=%d msg=%s sig=%s model=%s lib=%d" % (pk32.hex(), len(msg), msg[:64].hex(), sig.hex(), exp, v.ret), config)
    # verification needs no signing tables: the same verdict on a byte copy of secp256k1_context_static (verify-only callers)
    if ctx.rng.random() < 0.15:
        slot = _static_slot(ctx, config)
        if slot is not None:
            v2 = ctx.call("schnorr_verify", sig, msg, xo, config=config, c=slot)
            if v2 is not None:
                ctx.ev("schnorr_verify", "static_context:" + cls.split(":")[0], nontrivial, pk32, msg, sig, b"static")
                ctx.check(v2.ret == (1 if exp else 0), "schnorr_verify:static_context:%s" % ("accepted_invalid" if v2.ret else "rejected_valid"), "pk=%s sig=%s model=%s" % (pk32.hex(), sig.hex(), exp), config)

def _static_slot(ctx, config):
    key = "_static_slot_" + config
    if not hasattr(ctx, key) or ctx.sh(config).nstarts != getattr(ctx, key)[1]:
        r = ctx.call("ctx_static_copy", config=config)
        if r is None: return None
        setattr(ctx, key, (r.i(0), ctx.sh(config).nstarts))
    return getattr(ctx, key)[0]

def off_curve_x(rng):
    while True:
        x = rng.randrange(p)
        if lift_x(x) is None: return x

def wl_verify(ctx, config, scale=1.0):
    rng = ctx.rng
    nfull = 0
    for it in range(int(ctx.n(1400, 40000) * scale)):
        d0 = pools.valid_seckey(rng, 0.15); P = mulG(d0); pk32 = xbytes(P)
        L = rng.choice((32, 32, 32, 0, 1, 31, 33, 64, 100, 300, 1000))
        msg = pools.rbytes(rng, L)
        sig = schnorr.sign(b32(d0), msg, pools.rbytes(rng, 32))
        vcase(ctx, config, pk32, msg, sig, "honest")
        r_ = I(sig[:32]); s_ = I(sig[32:])
        kind = it % 12
        if kind == 0 and nfull < (1 if ctx.quick else 8):
            nfull += 1
            for i in range(512):
                t = bytearray(sig); t[i // 8] ^= 1 << (i % 8); vcase(ctx, config, pk32, msg, bytes(t), "flip_all512")
        elif kind == 1:
            for _ in range(8):
                i = rng.randrange(512); t = bytearray(sig); t[i // 8] ^= 1 << (i % 8); vcase(ctx, config, pk32, msg, bytes(t), "flip_sampled")
        elif kind == 2:
            for rv in (p, p + 1, 2**256 - 1, off_curve_x(rng), 0, r_ + p if r_ + p < 2**256 else 1):
                vcase(ctx, config, pk32, msg, b32(rv) + sig[32:], "r_out_of_range_or_off_curve")
        elif kind == 3:
            for sv in (n, n + 1, 2**256 - 1, 0, (s_ + n) if s_ + n < 2**256 else n + 2, n - s_):
                vcase(ctx, config, pk32, msg, sig[:32] + b32(sv), "s_out_of_range")
        elif kind == 4:
            # R = infinity: any on-curve r, s = e*d
            dd = d0 if has_even_y(P) else n - d0
            for _ in range(6):
                Rr = mulG(rng.randrange(1, n)); m6 = msg if _ == 0 else pools.rbytes(rng, rng.choice((0, 32, 32, 77)))
                e = I(tagged("BIP0340/challenge", xbytes(Rr) + pk32 + m6)) % n
                vcase(ctx, config, pk32, m6, xbytes(Rr) + b32(e * dd % n), "R_infinity")
        elif kind == 5:
            # odd-y R: nonce not negated
            k = rng.randrange(1, n); R = mulG(k)
            if has_even_y(R): k = n - k; R = neg(R)
            dd = d0 if has_even_y(P) else n - d0
            e = I(tagged("BIP0340/challenge", xbytes(R) + pk32 + msg)) % n
            vcase(ctx, config, pk32, msg, xbytes(R) + b32((k + e * dd) % n), "R_odd_y")
        elif kind == 6:
            vcase(ctx, config, pk32, msg, pools.rbytes(rng, 64), "random_sig", nontrivial=False)
            vcase(ctx, config, pk32, msg, b32(pools.field(rng)) + b32(pools.scalar(rng)), "pool_sig")
        elif kind == 7:
            m2 = bytearray(msg) + (b'' if L else b'\x00')
            if L: i = rng.randrange(L * 8); m2[i // 8] ^= 1 << (i % 8)
            vcase(ctx, config, pk32, bytes(m2), sig, "msg_altered")
            vcase(ctx, config, pk32, msg + b'\x00', sig, "msg_extended"); vcase(ctx, config, pk32, msg[:-1] if L else b'\x01', sig, "msg_truncated")
        elif kind == 8:
            Q = mulG(rng.randrange(1, n)); vcase(ctx, config, xbytes(Q), msg, sig, "other_key")
        elif kind == 9:
            # pool x-only keys
            x = pools.field(rng)
            if lift_x(x): vcase(ctx, config, b32(x), msg, sig, "pool_key")
        elif kind == 10:
            # sign-flipped s (a sign-blind final comparison) and neighbours
            vcase(ctx, config, pk32, msg, sig[:32] + b32((n - I(sig[32:])) % n), "s_negated"); vcase(ctx, config, pk32, msg, sig[:32] + b32((I(sig[32:]) + 1) % n), "s_plus_1")
            # signature by the negated key verifies under the same x-only key (x-only semantics)
            sig2 = schnorr.sign(b32(n - d0), msg, bytes(32)); vcase(ctx, config, pk32, msg, sig2, "negated_secret_same_xonly")

def run(ctx):
    from vlib import smallgroup
    smallgroup.run(ctx, 'schnorr', {'schnorr_s_reenc': 'accepted'})
    for i, config in enumerate(ctx.configs):
        scale = 1.0 if i == 0 else 0.25
        wl_sign(ctx, config, scale)
        wl_verify(ctx, config, scale)
        wl_nonce_fn(ctx, config, scale)
