"""C04 Secret-key and public-key operations commute (key derivation algebra)."""
from ref.ec import *
from ref import pools

ID = "C04"
LEVEL = "exploration"
CONFIGS = {"quick": ["san", "san_nv", "mx_i64"], "thorough": ["san", "san_nv", "mx_i64", "mx_w2"]}
EXTRA_BUILDS = ["sg13", "sg199"]
RULE = ("single key operations on pool keys x pool tweaks (0, n-d, >= n, lambda-split boundaries), histories of mixed negate/add/mul/x-only/keypair "
        "tweaks carried in lock-step on the secret and the public side against an integer/point model, combine on 1..200 keys with duplicates "
        "and cancelling pairs at every position, cmp/sort on lists of 0..200 keys with duplicates and negated pairs. non-trivial = every record "
        "(each compares library output with the model); distinct = distinct (op, inputs)")
ASSUMPTIONS = ["ref/ec.py group law is correct (self-tested)", "'no usable key' after a failure is judged through the API: seckey_verify / the serializer must refuse the object"]
COMP = 258

def pkobj(ctx, P, config):
    r = ctx.call("pubkey_parse", ser33(P), config=config)
    return r.b(1) if r is not None and r.ret == 1 else None
def pkser(ctx, obj, config, ill=0):
    r = ctx.call("pubkey_serialize", obj, 33, COMP, config=config, ill=ill)
    return r
def expect_pub(ctx, config, r, want, key, detail):
    """r: result of an op returning (ret, pubkey object); want: point or None (failure)"""
    if r is None: return False
    if not ctx.check(r.ret == (1 if want else 0), key + (":succeeded_outside_documented_cases" if r.ret else ":failed_on_valid_input"), detail + " -> %r" % r, config): return False
    if want:
        s = pkser(ctx, r.b(1), config)
        return s is not None and ctx.check(s.ret == 1 and s.b(2) == ser33(want), key + ":wrong_point", detail + " want %s got %r" % (ser33(want).hex(), s), config)
    s = pkser(ctx, r.b(1), config, ill=1)
    return s is not None and ctx.check(s.ret == 0 and s.ill >= 1, key + ":failed_op_left_usable_key", detail + " object %s" % r.b(1).hex(), config)
def expect_sec(ctx, config, r, want, key, detail):
    if r is None: return False
    if not ctx.check(r.ret == (1 if want else 0), key + (":succeeded_outside_documented_cases" if r.ret else ":failed_on_valid_input"), detail + " -> %r" % r, config): return False
    if want:
        return ctx.check(r.b(1) == b32(want), key + ":wrong_scalar", detail + " want %x got %s" % (want, r.b(1).hex()), config)
    v = ctx.call("seckey_verify", r.b(1), config=config)
    return v is not None and ctx.check(v.ret == 0, key + ":failed_op_left_usable_key", detail + " output %s" % r.b(1).hex(), config)

def tweak_for(rng, d):
    k = rng.randrange(10)
    if k == 0: return (n - d) % 2**256 if 0 < d < n else 0
    if k == 1: return 0
    if k == 2: return rng.choice((n, n + 1, 2**256 - 1))
    if k == 3: return rng.choice((1, n - 1, 2, n - 2))
    return pools.scalar(rng, 0.3)

def wl_single(ctx, config):
    rng = ctx.rng
    for it in ctx.iters(2500, 60000):
        d = pools.scalar(rng, 0.35); valid = 0 < d < n
        sk = b32(d)
        # creation
        r = ctx.call("pubkey_create", sk, config=config)
        ctx.ev("pubkey_create", "valid" if valid else "invalid_key", True, sk)
        P = mulG(d) if valid else None
        if not expect_pub(ctx, config, r, P, "pubkey_create", "sk=%s" % sk.hex()): continue
        v = ctx.call("seckey_verify", sk, config=config)
        if v is not None: ctx.check(v.ret == (1 if valid else 0), "seckey_verify", sk.hex(), config)
        kp = ctx.call("keypair_create", sk, config=config)
        if kp is not None:
            ctx.ev("keypair_create", "valid" if valid else "invalid_key", True, sk)
            ctx.check(kp.ret == (1 if valid else 0), "keypair_create:ret", sk.hex(), config)
            if not valid: ctx.check(kp.b(1) == bytes(96), "keypair_create:failed_not_zeroed", kp.b(1).hex(), config)
        t = tweak_for(rng, d); tw = b32(t); tv = t < n
        det = "sk=%s tweak=%s" % (sk.hex(), tw.hex())
        # negate
        r = ctx.call("seckey_negate", sk, config=config); ctx.ev("seckey_negate", "valid" if valid else "invalid_key", True, sk)
        expect_sec(ctx, config, r, (n - d) if valid else None, "seckey_negate", det)
        # additive tweak, secret side
        want = (d + t) % n if (valid and tv and (d + t) % n) else None
        cls = "add:" + ("ok" if want else ("key_invalid" if not valid else ("tweak_ge_n" if not tv else "sum_zero")))
        r = ctx.call("seckey_tweak_add", sk, tw, config=config); ctx.ev("seckey_tweak_add", cls, True, sk, tw)
        expect_sec(ctx, config, r, want, "seckey_tweak_add:" + cls, det)
        want = (d * t) % n if (valid and tv and t) else None
        cls = "mul:" + ("ok" if want else ("key_invalid" if not valid else ("tweak_ge_n" if not tv else "tweak_zero")))
        r = ctx.call("seckey_tweak_mul", sk, tw, config=config); ctx.ev("seckey_tweak_mul", cls, True, sk, tw)
        expect_sec(ctx, config, r, want, "seckey_tweak_mul:" + cls, det)
        if not valid: continue
        po = pkobj(ctx, P, config)
        if po is None: continue
        # public side must commute
        wantP = mulG(d + t) if (tv and (d + t) % n) else None
        cls = "add:" + ("ok" if wantP else ("tweak_ge_n" if not tv else "sum_infinity"))
        r = ctx.call("pubkey_tweak_add", po, tw, config=config); ctx.ev("pubkey_tweak_add", cls, True, sk, tw)
        expect_pub(ctx, config, r, wantP, "pubkey_tweak_add:" + cls, det)
        wantP = mul(t, P) if (tv and t) else None
        cls = "mul:" + ("ok" if wantP else ("tweak_ge_n" if not tv else "tweak_zero"))
        r = ctx.call("pubkey_tweak_mul", po, tw, config=config); ctx.ev("pubkey_tweak_mul", cls, True, sk, tw)
        if wantP: ctx.check(wantP == mulG(d * t), "model:mul_commutes", "", config)
        expect_pub(ctx, config, r, wantP, "pubkey_tweak_mul:" + cls, det)
        r = ctx.call("pubkey_negate", po, config=config); ctx.ev("pubkey_negate", "ok", True, sk)
        expect_pub(ctx, config, r, neg(P), "pubkey_negate", det)
        # x-only view and Taproot tweak
        xo = ctx.call("xonly_from_pubkey", po, 1, config=config)
        if xo is None: continue
        par = P[1] & 1; Pe = P if not par else neg(P)
        ctx.ev("xonly_from_pubkey", "parity%d" % par, True, sk)
        ctx.check(xo.ret == 1 and xo.i(2) == par, "xonly_from_pubkey:parity", det + " %r" % xo, config)
        xs = ctx.call("xonly_serialize", xo.b(1), config=config)
        if xs is not None: ctx.check(xs.b(1) == xbytes(P), "xonly_from_pubkey:x", det, config)
        de = d if not par else n - d
        wantQ = mulG(de + t) if (tv and (de + t) % n) else None
        cls = "xonly_add:" + ("ok" if wantQ else ("tweak_ge_n" if not tv else "sum_infinity"))
        r = ctx.call("xonly_tweak_add", xo.b(1), tw, config=config); ctx.ev("xonly_tweak_add", cls, True, sk, tw)
        expect_pub(ctx, config, r, wantQ, "xonly_tweak_add:" + cls, det)
        if wantQ:
            qpar = wantQ[1] & 1
            for (x32, pr, good) in ((xbytes(wantQ), qpar, True), (xbytes(wantQ), qpar ^ 1, False), (xbytes(mulG(de + t + 1)) if (de + t + 1) % n else b32(1), qpar, False),
                                    (b32((wantQ[0] + 1) % p), qpar, False), (xbytes(wantQ), qpar + 2, False), (xbytes(wantQ), -1 - qpar, False)):
                good = (x32 == xbytes(wantQ) and pr == qpar)
                c = ctx.call("xonly_tweak_add_check", x32, pr, xo.b(1), tw, config=config)
                if c is None: continue
                ctx.ev("xonly_tweak_add_check", "good" if good else "bad", True, sk, tw, x32, pr)
                ctx.check(c.ret == (1 if good else 0), "xonly_tweak_add_check:%s" % ("rejected_correct" if good else "accepted_wrong"), det + " x=%s parity=%d" % (x32.hex(), pr), config)
        else:
            c = ctx.call("xonly_tweak_add_check", xbytes(P), 0, xo.b(1), tw, config=config)
            if c is not None: ctx.check(c.ret == 0, "xonly_tweak_add_check:accepted_failing_tweak", det, config)
        # keypair tweak: secret and public part move together
        if kp is not None and kp.ret == 1:
            r = ctx.call("keypair_xonly_tweak_add", kp.b(1), tw, config=config); ctx.ev("keypair_xonly_tweak_add", cls, True, sk, tw)
            if r is None: continue
            if not ctx.check(r.ret == (1 if wantQ else 0), "keypair_xonly_tweak_add:%s:ret" % cls, det + " %r" % r, config): continue
            if wantQ:
                s2 = ctx.call("keypair_sec", r.b(1), config=config); p2 = ctx.call("keypair_pub", r.b(1), config=config)
                if s2 is None or p2 is None: continue
                ctx.check(s2.b(1) == b32((de + t) % n), "keypair_xonly_tweak_add:secret", det + " got %s" % s2.b(1).hex(), config)
                ps = pkser(ctx, p2.b(1), config)
                if ps is not None: ctx.check(ps.b(2) == ser33(wantQ), "keypair_xonly_tweak_add:public", det, config)
            else:
                ctx.check(r.b(1) == bytes(96), "keypair_xonly_tweak_add:failed_not_zeroed", det + " kp=%s" % r.b(1).hex(), config)

def wl_history(ctx, config):
    rng = ctx.rng
    maxlen = 40 if ctx.quick else 400
    for it in ctx.iters(160, 1600):
        d = pools.valid_seckey(rng, 0.3); P = mulG(d)
        sk = b32(d); po = pkobj(ctx, P, config)
        if po is None: continue
        L = rng.randrange(1, maxlen + 1); trace = []
        for step in range(L):
            op = rng.choice(("neg", "add", "add", "mul", "xonly", "kp_tweak"))
            t = tweak_for(rng, d); tw = b32(t); tv = t < n
            trace.append((op, t))
            det = "history start... step %d %s d=%x t=%x trace=%s" % (step, op, d, t, [(o, hex(x)) for o, x in trace[-6:]])
            if op == "neg":
                rs = ctx.call("seckey_negate", sk, config=config); rp = ctx.call("pubkey_negate", po, config=config)
                nd = n - d
            elif op == "add":
                rs = ctx.call("seckey_tweak_add", sk, tw, config=config); rp = ctx.call("pubkey_tweak_add", po, tw, config=config)
                nd = (d + t) % n if tv and (d + t) % n else None
            elif op == "mul":
                rs = ctx.call("seckey_tweak_mul", sk, tw, config=config); rp = ctx.call("pubkey_tweak_mul", po, tw, config=config)
                nd = (d * t) % n if tv and t else None
            elif op == "xonly":
                # secret side: negate iff the public key has odd y; public side: x-only conversion
                xo = ctx.call("xonly_from_pubkey", po, 1, config=config)
                if xo is None: break
                par = P[1] & 1
                if not ctx.check(xo.i(2) == par, "history:xonly_parity", det, config): break
                rs = ctx.call("seckey_negate", sk, config=config) if par else ctx.call("seckey_tweak_add", sk, b32(0), config=config)
                rp = xo
                nd = n - d if par else d
            else:
                kp = ctx.call("keypair_create", sk, config=config)
                if kp is None or kp.ret != 1: break
                r = ctx.call("keypair_xonly_tweak_add", kp.b(1), tw, config=config)
                if r is None: break
                de = d if not (P[1] & 1) else n - d
                nd = (de + t) % n if tv and (de + t) % n else None
                if not ctx.check(r.ret == (1 if nd else 0), "history:keypair_xonly_tweak_add:ret", det, config): break
                if nd is None: ctx.ev("history", "kp_tweak_fail", True, sk, tw); continue
                rs = ctx.call("keypair_sec", r.b(1), config=config); rp = ctx.call("keypair_pub", r.b(1), config=config)
            if rs is None or rp is None: break
            ctx.ev("history", op + (":ok" if nd else ":fail"), True, sk, tw, op)
            if nd is None:
                ctx.check(rs.ret == 0 and rp.ret == 0, "history:%s:failure_not_on_both_sides" % op, det + " sec %r pub %r" % (rs, rp), config)
                continue
            if not ctx.check(rs.ret == 1 and rp.ret == 1, "history:%s:unexpected_failure" % op, det + " sec %r pub %r" % (rs, rp), config): break
            d = nd; P = mulG(d); sk = rs.b(1); po = rp.b(1)
            if not ctx.check(sk == b32(d), "history:%s:secret_diverged" % op, det + " got %s" % sk.hex(), config): break
            s = pkser(ctx, po, config)
            if s is None or not ctx.check(s.b(2) == ser33(P), "history:%s:public_diverged" % op, det + " got %r" % s, config): break
            # commutation: deriving after the secret operation gives the same key
            c = ctx.call("pubkey_create", sk, config=config)
            if c is None: break
            cs = pkser(ctx, c.b(1), config)
            if cs is None or not ctx.check(cs.b(2) == s.b(2), "history:%s:does_not_commute" % op, det, config): break

def wl_combine(ctx, config):
    rng = ctx.rng
    for it in ctx.iters(120, 3000):
        nk = rng.choice((1, 2, 3, 4, 5, 8, 16, 33, 64, 100, 200)) if rng.random() < 0.7 else rng.randrange(1, 201)
        ds = [rng.randrange(1, n) if rng.random() < 0.8 else rng.choice((1, 2, n - 1, n - 2, 3)) for _ in range(nk)]
        mode = it % 5
        if mode == 1 and nk >= 2:      # cancelling pair placed somewhere: intermediate infinity must not fail
            i = rng.randrange(nk - 1); ds[i + 1] = n - ds[i]
        elif mode == 2 and nk >= 2:    # prefix sums to infinity at a chosen position
            i = rng.randrange(1, nk); ds[i] = (-sum(ds[:i])) % n or 1
        elif mode == 3:                # total is infinity: must fail
            ds[-1] = (-sum(ds[:-1])) % n
            if ds[-1] == 0:
                if nk == 1: ds = [1, n - 1]; nk = 2
                else: ds[0] = (ds[0] + 1) % n or 1; ds[-1] = (-sum(ds[:-1])) % n
        elif mode == 4 and nk >= 3:    # duplicates
            ds[1] = ds[0]; ds[2] = ds[0]
        tot = sum(ds) % n
        want = mulG(tot) if tot else None
        objs = []
        for dd in ds:
            o = ctx.call("pubkey_create", b32(dd), config=config)
            if o is None or o.ret != 1: objs = None; break
            objs.append(o.b(1))
        if objs is None: continue
        r = ctx.call("pubkey_combine", b''.join(objs), len(objs), config=config)
        ctx.ev("pubkey_combine", "n%s:mode%d:%s" % ("<=8" if nk <= 8 else ">8", mode, "ok" if want else "infinity"), True, *[b32(x) for x in ds[:6]], nk)
        expect_pub(ctx, config, r, want, "pubkey_combine:mode%d" % mode, "n=%d ds=%s" % (nk, [hex(x) for x in ds[:8]]))
    r = ctx.call("pubkey_combine", b'', 0, config=config, ill=2)
    if r is not None: ctx.check(r.ret == 0, "pubkey_combine:n0_accepted", repr(r), config)

def wl_sort(ctx, config):
    rng = ctx.rng
    def sign(x): return (x > 0) - (x < 0)
    for it in ctx.iters(150, 3000):
        nk = rng.choice((0, 1, 2, 3, 5, 8, 39, 40, 41, 64, 100, 199, 200)) if rng.random() < 0.6 else rng.randrange(0, 201)
        base = [rng.randrange(1, n) for _ in range(max(1, nk // 2 + 1))]
        ds = []
        for i in range(nk):
            k = rng.randrange(6)
            d = rng.choice(base)
            if k == 0: d = n - d          # negated pair: same x, other prefix
            elif k == 1: d = rng.randrange(1, n)
            ds.append(d)
        mode = it % 4
        pts = [mulG(d) for d in ds]
        if mode == 1: pts.sort(key=ser33)
        elif mode == 2: pts.sort(key=ser33, reverse=True)
        objs = [pkobj(ctx, P, config) for P in pts]
        if any(o is None for o in objs): continue
        r = ctx.call("pubkey_sort", b''.join(objs) if objs else b'', nk, config=config)
        if r is None: continue
        ctx.ev("pubkey_sort", "n%s:mode%d" % ("<=40" if nk <= 40 else ">40", mode), True, nk, *[ser33(P) for P in pts[:5]])
        perm = [r.i(1 + i) for i in range(nk)]
        ok = r.ret == 1 and sorted(perm) == list(range(nk))
        if ok:
            keys = [ser33(pts[j]) for j in perm]
            ok = all(keys[i] <= keys[i + 1] for i in range(nk - 1))
        ctx.check(ok, "pubkey_sort:%s" % ("not_a_permutation" if sorted(perm) != list(range(nk)) else "not_sorted") + (":n>40" if nk > 40 else ""), "n=%d perm=%s" % (nk, perm[:60]), config)
        # comparison = lexicographic order of compressed encodings
        for _ in range(4):
            if nk < 2: break
            i, j = rng.randrange(nk), rng.randrange(nk)
            c = ctx.call("pubkey_cmp", objs[i], objs[j], config=config)
            if c is None: continue
            a, b = ser33(pts[i]), ser33(pts[j])
            ctx.ev("pubkey_cmp", "pair", True, a, b)
            ctx.check(sign(c.ret) == (a > b) - (a < b), "pubkey_cmp:order", "%s vs %s -> %d" % (a.hex(), b.hex(), c.ret), config)
            xi = ctx.call("xonly_from_pubkey", objs[i], 0, config=config); xj = ctx.call("xonly_from_pubkey", objs[j], 0, config=config)
            if xi is None or xj is None: continue
            c2 = ctx.call("xonly_cmp", xi.b(1), xj.b(1), config=config)
            if c2 is not None: ctx.check(sign(c2.ret) == (a[1:] > b[1:]) - (a[1:] < b[1:]), "xonly_cmp:order", "%s vs %s -> %d" % (a.hex(), b.hex(), c2.ret), config)

def near_x_family(rng, k=None):
    """valid curve points whose x coordinates differ in exactly ONE byte (position k, any of the 32), with the y parity free to choose:
    the encodings that tell a full 33-byte lexicographic comparison from one that stops early, skips a byte or mis-orders the parity byte"""
    k = rng.randrange(32) if k is None else k
    while True:
        x0 = rng.randrange(p)
        if lift_x(x0): break
    out = []
    for b in rng.sample(range(256), 256):
        x = (x0 & ~(0xFF << (8 * (31 - k)))) | (b << (8 * (31 - k)))
        if x < p and lift_x(x): out.append(lift_x(x))
        if len(out) >= 6: break
    return k, out

def wl_near_keys(ctx, config):
    rng = ctx.rng
    def sign(x): return (x > 0) - (x < 0)
    for kk in ctx.mine(list(range(32)) * (2 if ctx.quick else 40)):
        k, fam = near_x_family(rng, kk)
        pts = []
        for P in fam:
            pts.append(P if rng.random() < 0.5 else neg(P))
            if rng.random() < 0.3: pts.append(neg(pts[-1]))
        rng.shuffle(pts)
        objs = [pkobj(ctx, P, config) for P in pts]
        if any(o is None for o in objs) or len(objs) < 2: continue
        for _ in range(6):
            i, j = rng.sample(range(len(pts)), 2)
            c = ctx.call("pubkey_cmp", objs[i], objs[j], config=config)
            if c is None: continue
            a, b = ser33(pts[i]), ser33(pts[j])
            ctx.ev("pubkey_cmp", "x_differs_in_byte_%d" % k, True, a, b)
            ctx.check(sign(c.ret) == (a > b) - (a < b), "pubkey_cmp:order", "%s vs %s -> %d" % (a.hex(), b.hex(), c.ret), config)
            xi = ctx.call("xonly_from_pubkey", objs[i], 0, config=config); xj = ctx.call("xonly_from_pubkey", objs[j], 0, config=config)
            if xi is not None and xj is not None:
                c2 = ctx.call("xonly_cmp", xi.b(1), xj.b(1), config=config)
                if c2 is not None: ctx.check(sign(c2.ret) == (a[1:] > b[1:]) - (a[1:] < b[1:]), "xonly_cmp:order", "%s vs %s -> %d" % (a.hex(), b.hex(), c2.ret), config)
        r = ctx.call("pubkey_sort", b''.join(objs), len(objs), config=config)
        if r is None: continue
        perm = [r.i(1 + i) for i in range(len(objs))]
        ctx.ev("pubkey_sort", "x_differs_in_byte_%d" % k, True, len(objs), *[ser33(P) for P in pts[:5]])
        ok = r.ret == 1 and sorted(perm) == list(range(len(objs)))
        if ok:
            keys = [ser33(pts[j]) for j in perm]; ok = all(keys[i] <= keys[i + 1] for i in range(len(keys) - 1))
        ctx.check(ok, "pubkey_sort:not_sorted:near_keys", "byte %d perm=%s keys=%s" % (k, perm, [ser33(P).hex() for P in pts]), config)

def wl_small_x(ctx, config):
    """Taproot check against a tweaked key whose x is below 2^256 - p: the internal key is built from the chosen OUTPUT
    (P = T - t*G), so that the non-canonical 32-byte string x + p exists and must be refused (seeded change C04-7)"""
    rng = ctx.rng
    lim = 2**256 - p
    xs = [x for x in list(range(1, 60)) + [lim - k for k in range(1, 40)] if lift_x(x) is not None]
    for x in ctx.mine(xs * (1 if ctx.quick else 8)):
        T0 = lift_x(x)
        for T in (T0, neg(T0)):
            for _ in range(12):
                t = pools.valid_seckey(rng, 0.2); P = sub(T, mulG(t))
                if P is not None and has_even_y(P): break
            else: continue
            xo = ctx.call("xonly_parse", xbytes(P), config=config)
            if xo is None or xo.ret != 1: continue
            par = T[1] & 1; det = "x(T)=%d t=%x P=%s" % (x, t, xbytes(P).hex())
            r = ctx.call("xonly_tweak_add", xo.b(1), b32(t), config=config); ctx.ev("xonly_tweak_add", "small_x_output", True, x, par, t)
            expect_pub(ctx, config, r, T, "xonly_tweak_add:small_x_output", det)
            for (x32, pr, good, cls) in ((b32(x), par, True, "canonical"), (b32(x + p), par, False, "x_plus_p"), (b32(x + p), par ^ 1, False, "x_plus_p_other_parity"), (b32(x), par ^ 1, False, "other_parity")):
                c = ctx.call("xonly_tweak_add_check", x32, pr, xo.b(1), b32(t), config=config)
                if c is None: continue
                ctx.ev("xonly_tweak_add_check", "small_x:" + cls, True, x, pr, t)
                ctx.check(c.ret == (1 if good else 0), "xonly_tweak_add_check:small_x:%s:%s" % (cls, "rejected_correct" if good else "accepted_wrong"), det + " x32=%s parity=%d" % (x32.hex(), pr), config)

def run(ctx):
    from vlib import smallgroup
    smallgroup.run(ctx, 'misc', {'tweak_reenc': 'accepted'})
    for config in ctx.cfgs():
        wl_single(ctx, config)
        wl_history(ctx, config)
        wl_combine(ctx, config)
        wl_sort(ctx, config)
        wl_near_keys(ctx, config)
        wl_small_x(ctx, config)
