"""C15 Sign-to-contract commitments and the anti-exfil protocol are sound and complete."""
from ref.ec import *
from ref import pools, s2c, ecdsa

ID = "C15"
LEVEL = "exploration"
CONFIGS = {"quick": ["san", "san_nv", "mx_i64"], "thorough": ["san", "san_nv", "mx_i64", "mx_noasm"]}
RULE = ("s2c_sign / verify_commit / host_commit / signer_commit / anti_exfil_sign / host_verify records over pool keys, messages (incl. >= n) and data; "
        "repeated protocol runs with equal and different host randomness, on contexts with the default and with a replaced (correct) SHA-256 "
        "compression function on either side; openings from the parser on pool strings; single-bit flips of signature, datum and opening; outputs "
        "compared with a model (tagged hashes, RFC 6979 with hashed data, nonce tweak). non-trivial = every record; distinct = (op, inputs)")
ASSUMPTIONS = ["ref/s2c.py transcribes the in-tree protocol description (byte-exact at design time)"]

def wl_protocol(ctx, config):
    rng = ctx.rng
    sh = ctx.sh(config)
    # a second context with an independent SHA-256 compression function installed
    r = ctx.call("ctx_create", 1, config=config); alt = r.i(0)
    r = ctx.call("ctx_set_compress", 1, config=config, c=alt)
    ctx.check(r is not None and r.i(0) == 1, "ctx_set_compress:correct_function_refused", repr(r), config)
    for it in ctx.iters(1200, 30000):
        d = pools.scalar(rng, 0.25) if it % 11 == 0 else pools.valid_seckey(rng, 0.25); sk = b32(d); valid = 0 < d < n
        msg = pools.msg32(rng, 0.4); rho = pools.msg32(rng, 0.3)
        cs, ch = (0, 0) if it % 4 == 0 else ((alt, 0) if it % 4 == 1 else ((0, alt) if it % 4 == 2 else (alt, alt)))  # signer ctx, host ctx
        ok, r_, s_, R0 = s2c.sign(sk, msg, rho)
        sg = ctx.call("s2c_sign", msg, sk, rho, 1, config=config, c=cs)
        if sg is None: continue
        ctx.ev("s2c_sign", ("valid" if valid else "invalid_key") + ":ctx%d" % (1 if cs else 0), True, sk, msg, rho)
        sc = ctx.call("sig_serialize_compact", sg.b(1), config=config)
        if sc is None: continue
        if not ctx.check(sg.ret == ok and sc.b(1) == (b32(r_) + b32(s_) if ok else bytes(64)), "s2c_sign:%s" % ("bytes" if ok else "failure_output"), "sk=%s msg=%s data=%s model ok=%d r=%x s=%x got %r %s" % (sk.hex(), msg.hex(), rho.hex(), ok, r_, s_, sg, sc.b(1).hex()), config): continue
        if not ok: continue
        os_ = ctx.call("s2c_opening_serialize", sg.b(2), config=config)
        if os_ is None or not ctx.check(os_.ret == 1 and os_.b(1) == ser33(R0), "s2c_sign:opening", "want %s got %r" % (ser33(R0).hex(), os_), config): continue
        Q = mulG(d)
        ctx.check(s_ <= HALF_N and ecdsa.verify_rs(r_, s_, msg, Q), "model:s2c_signature_invalid", "", config)
        pk = ctx.call("pubkey_parse", ser33(Q), config=config)
        v = ctx.call("ecdsa_verify", sg.b(1), msg, pk.b(1), config=config)
        if v is not None: ctx.check(v.ret == 1, "s2c_sign:signature_does_not_verify", "", config)
        vc = ctx.call("s2c_verify_commit", sg.b(1), rho, sg.b(2), config=config, c=ch)
        if vc is not None:
            ctx.ev("s2c_verify_commit", "honest", True, sc.b(1), rho, ser33(R0))
            ctx.check(vc.ret == 1, "s2c_verify_commit:honest_rejected", "sig=%s data=%s opening=%s" % (sc.b(1).hex(), rho.hex(), ser33(R0).hex()), config)
        # anti-exfil: the opening committed to from the host's hash commitment equals the opening of the later signature
        hc = ctx.call("ae_host_commit", rho, config=config, c=ch)
        if hc is None or not ctx.check(hc.ret == 1 and hc.b(1) == s2c.data_hash(rho), "ae_host_commit:bytes", repr(hc), config): continue
        so = ctx.call("ae_signer_commit", msg, sk, hc.b(1), config=config, c=cs)
        if so is None: continue
        ctx.ev("ae_signer_commit", "run", True, msg, sk, rho)
        sos = ctx.call("s2c_opening_serialize", so.b(1), config=config)
        if sos is not None: ctx.check(so.ret == 1 and sos.b(1) == ser33(R0) == ser33(s2c.signer_commit(sk, msg, hc.b(1))), "ae_signer_commit:opening_differs_from_signature_opening", "want %s got %r" % (ser33(R0).hex(), sos), config)
        asg = ctx.call("ae_sign", msg, sk, rho, config=config, c=cs)
        if asg is not None: ctx.check(asg.ret == 1 and asg.b(1) == sg.b(1), "ae_sign:differs_from_s2c_sign", "", config)
        hv = ctx.call("ae_host_verify", sg.b(1), msg, pk.b(1), rho, so.b(1), config=config, c=ch)
        if hv is not None:
            ctx.ev("ae_host_verify", "honest", True, sc.b(1), msg, rho)
            ctx.check(hv.ret == 1, "ae_host_verify:honest_rejected", "", config)
        # same randomness again -> same opening and signature; different randomness -> different nonce
        if it % 3 == 0:
            sg2 = ctx.call("s2c_sign", msg, sk, rho, 1, config=config, c=(alt if cs == 0 else 0))
            if sg2 is not None: ctx.check(sg2.b(1) == sg.b(1) and sg2.b(2) == sg.b(2), "s2c_sign:not_deterministic_across_contexts", "", config)
            rho2 = bytearray(rho); rho2[rng.randrange(32)] ^= 1 << rng.randrange(8); rho2 = bytes(rho2)
            sg3 = ctx.call("s2c_sign", msg, sk, rho2, 1, config=config, c=cs)
            if sg3 is not None and sg3.ret == 1:
                ctx.ev("s2c_sign", "different_randomness", True, sk, msg, rho2)
                ctx.check(sg3.b(2) != sg.b(2) and sg3.b(1)[:32] != sg.b(1)[:32], "s2c_sign:different_randomness_same_nonce", "", config)
        # mutations: datum, opening, signature
        muts = []
        dm = bytearray(rho); dm[rng.randrange(32)] ^= 1 << rng.randrange(8); muts.append(("datum_flip", r_, s_, bytes(dm), R0))
        R1 = mulG(rng.randrange(1, n)); muts.append(("other_opening", r_, s_, rho, R1)); muts.append(("negated_opening", r_, s_, rho, neg(R0)))
        i = rng.randrange(256); muts.append(("r_flip", (r_ ^ (1 << i)) % n, s_, rho, R0))
        i = rng.randrange(256); muts.append(("s_flip", r_, ((s_ ^ (1 << i)) % n) or 1, rho, R0))
        muts.append(("s_negated", r_, n - s_, rho, R0))
        # r standing in a wrong NUMERIC relation to the committed nonce's x coordinate (x + (p-n), x - (p-n), n - x, x +- 1): a comparison
        # made in the field instead of among scalars, or one that forgets a range guard, accepts some of these
        for nm, rv in (("r_plus_p_minus_n", r_ + (p - n)), ("r_minus_p_minus_n", r_ - (p - n)), ("r_negated", n - r_), ("r_plus_1", r_ + 1), ("r_minus_1", r_ - 1)):
            if 0 < rv < n and rng.random() < 0.6: muts.append((nm, rv, s_, rho, R0))
        for cls, rr, ss, dat, Rop in muts:
            so2 = ctx.call("sig_parse_compact", b32(rr) + b32(ss), config=config); op2 = ctx.call("s2c_opening_parse", ser33(Rop), config=config)
            if so2 is None or op2 is None or so2.ret != 1 or op2.ret != 1: continue
            exp = s2c.verify_commit(rr, dat, Rop)
            vc = ctx.call("s2c_verify_commit", so2.b(1), dat, op2.b(1), config=config, c=ch)
            if vc is None: continue
            ctx.ev("s2c_verify_commit", "mut:" + cls, True, b32(rr), b32(ss), dat, ser33(Rop))
            ctx.check(vc.ret == (1 if exp else 0), "s2c_verify_commit:%s:%s" % (cls, "accepted" if vc.ret else "rejected"), "r=%x data=%s opening=%s model=%s" % (rr, dat.hex(), ser33(Rop).hex(), exp), config)
            exph = exp and ecdsa.verify_rs(rr, ss, msg, Q)
            hv = ctx.call("ae_host_verify", so2.b(1), msg, pk.b(1), dat, op2.b(1), config=config, c=ch)
            if hv is not None:
                ctx.ev("ae_host_verify", "mut:" + cls, True, b32(rr), b32(ss), dat, ser33(Rop))
                ctx.check(hv.ret == (1 if exph else 0), "ae_host_verify:%s:%s" % (cls, "accepted" if hv.ret else "rejected"), "model commit=%s ecdsa=%s" % (exp, exph), config)
        # host_verify with a wrong message / key: commitment holds, ECDSA does not
        m2 = bytearray(msg); m2[rng.randrange(32)] ^= 1 << rng.randrange(8)
        hv = ctx.call("ae_host_verify", sg.b(1), bytes(m2), pk.b(1), rho, so.b(1), config=config, c=ch)
        if hv is not None:
            ctx.ev("ae_host_verify", "wrong_message", True, sc.b(1), bytes(m2), rho)
            ctx.check(hv.ret == (1 if ecdsa.verify_rs(r_, s_, bytes(m2), Q) else 0), "ae_host_verify:wrong_message:accepted", "", config)

def alt_calls(ctx, config):
    r = ctx.call("ctx_alt_calls", config=config)
    if r is not None:
        ctx.count("replaced_sha256_compression_blocks", r.i(0))
        ctx.check(r.i(0) > 0, "monitor:replaced_compression_function_never_called", "", config)
        ctx.check(r.i(1) == 0, "replaced_compression:called_with_zero_blocks", "%d invocations with n_blocks == 0" % r.i(1), config)

def wl_openings(ctx, config):
    rng = ctx.rng
    for it in ctx.iters(300, 8000):
        pre = rng.choice((2, 3, 2, 3, 0, 4, 6, 7, 255)); x = pools.field(rng)
        if it % 3 == 0: x = mulG(rng.randrange(1, n))[0]
        s = bytes([pre]) + b32(x)
        exp = parse_pubkey(s) if pre in (2, 3) else None
        r = ctx.call("s2c_opening_parse", s, config=config)
        if r is None: continue
        ctx.ev("s2c_opening_parse", "valid" if exp else "invalid", True, s)
        if not ctx.check(r.ret == (1 if exp else 0), "s2c_opening_parse:%s" % ("accepted" if r.ret else "rejected"), s.hex(), config): continue
        if exp:
            o = ctx.call("s2c_opening_serialize", r.b(1), config=config)
            if o is not None: ctx.check(o.ret == 1 and o.b(1) == s, "s2c_opening_serialize:roundtrip", s.hex(), config)
            # parsed opening against an arbitrary signature and datum
            rr = pools.scalar(rng) % n; dat = pools.msg32(rng)
            so = ctx.call("sig_parse_compact", b32(rr) + b32(1), config=config)
            if so is None or so.ret != 1: continue
            vc = ctx.call("s2c_verify_commit", so.b(1), dat, r.b(1), config=config)
            if vc is not None:
                ctx.ev("s2c_verify_commit", "parsed_opening", True, s, dat, b32(rr))
                ctx.check(vc.ret == (1 if s2c.verify_commit(rr, dat, exp) else 0), "s2c_verify_commit:parsed_opening", s.hex(), config)
            # commitment verification that must succeed for a constructed r: r = x(R0 + H(R0,data) G)
            tk = s2c.point_tweak(exp, dat)
            if tk < n:
                C = add(exp, mulG(tk))
                if C is not None and C[0] % n:
                    so = ctx.call("sig_parse_compact", b32(C[0] % n) + b32(1), config=config)
                    vc = ctx.call("s2c_verify_commit", so.b(1), dat, r.b(1), config=config)
                    if vc is not None:
                        ctx.ev("s2c_verify_commit", "constructed_commitment", True, s, dat)
                        ctx.check(vc.ret == 1, "s2c_verify_commit:constructed_commitment_rejected", s.hex(), config)

def run(ctx):
    for config in ctx.cfgs():
        wl_protocol(ctx, config)
        alt_calls(ctx, config)
        wl_openings(ctx, config)
