"""C14 ECDSA adaptor signatures are consistent end-to-end and verified exactly."""
from ref.ec import *
from ref import pools, adaptor, ecdsa

ID = "C14"
LEVEL = "exploration"
CONFIGS = {"quick": ["san", "san_nv", "mx_i64"], "thorough": ["san", "san_nv", "mx_i64", "mx_i128s"]}
EXTRA_BUILDS = ["sg13", "sg199"]
RULE = ("encrypt -> verify -> decrypt -> ECDSA verify -> recover pipelines over pool keys (1, n-1, ...) and messages (0, >= n), default/custom nonce "
        "functions with and without aux; adaptor_verify on honest 162-byte strings and their mutations: single-bit flips (all 1296 for some, sampled "
        "for the rest), each scalar := 0 / n / value+n when it fits, points negated / off-curve / x >= p / bad prefix, other key, other message; "
        "recovery from the decrypted signature, its high-S twin, unrelated signatures, s = 0, wrong encryption key. every result compared with a "
        "model of the DLEQ proof + adaptor equation. non-trivial = model accepts or one mutation from an accepted string; distinct = (op, inputs)")
ASSUMPTIONS = ["ref/adaptor.py transcribes the DLC adaptor specification as documented in DESIGN Appendix A (byte-exact for encryption)",
               "the DLEQ challenge e is compared modulo n as the specification's integer; e+n re-encodings need a 2^-128 event and are not constructible"]

def pkobj(ctx, P, config):
    r = ctx.call("pubkey_parse", ser33(P), config=config)
    return r.b(1) if r is not None and r.ret == 1 else None

def vcase(ctx, config, a, X, Xo, msg, Y, Yo, cls, nontrivial=True):
    exp = adaptor.verify(a, X, msg, Y)
    v = ctx.call("adaptor_verify", a, Xo, msg, Yo, config=config)
    if v is None: return
    ctx.ev("adaptor_verify", cls, nontrivial, a, msg, ser33(X), ser33(Y))
    ctx.check(v.ret == (1 if exp else 0), "adaptor_verify:%s:%s" % (cls, "accepted_invalid" if v.ret else "rejected_valid"),
              "a=%s X=%s msg=%s Y=%s model=%s lib=%d" % (a.hex(), ser33(X).hex(), msg.hex(), ser33(Y).hex(), exp, v.ret), config)

def off_curve_x(rng):
    while True:
        x = rng.randrange(p)
        if lift_x(x) is None: return x

def wl_pipeline(ctx, config):
    rng = ctx.rng
    nfull = 0
    for it in ctx.iters(320, 6000):
        d = pools.valid_seckey(rng, 0.3) if it % 7 else rng.choice((1, n - 1, 2, (n - 1) // 2)); sk = b32(d)
        y = pools.valid_seckey(rng, 0.3) if it % 5 else rng.choice((1, n - 1, 2)); dk = b32(y)
        msg = pools.msg32(rng, 0.4) if it % 9 else rng.choice((b32(0), b32(n), b32(2**256 - 1)))
        X = mulG(d); Y = mulG(y); Xo = pkobj(ctx, X, config); Yo = pkobj(ctx, Y, config)
        if Xo is None or Yo is None: continue
        mode = it % 3; aux = None if rng.random() < 0.5 else pools.rbytes(rng, 32)
        want = adaptor.encrypt(sk, Y, msg, aux)
        r = ctx.call("adaptor_encrypt", sk, Yo, msg, mode if mode < 2 else 0, aux, config=config)
        if r is None: continue
        ctx.ev("adaptor_encrypt", "mode%d:aux%d" % (mode, aux is not None), True, sk, dk, msg, aux or b'')
        if not ctx.check(r.ret == (1 if want else 0) and r.b(1) == (want or bytes(162)), "adaptor_encrypt:bytes", "sk=%s Y=%s msg=%s aux=%s want %s got %r" % (sk.hex(), ser33(Y).hex(), msg.hex(), aux, want.hex() if want else None, r), config): continue
        if not want: continue
        a = r.b(1)
        vcase(ctx, config, a, X, Xo, msg, Y, Yo, "honest")
        # decrypt -> low-S ECDSA signature that verifies
        dec = ctx.call("adaptor_decrypt", dk, a, config=config)
        if dec is None: continue
        rs = adaptor.decrypt(dk, a)
        sc = ctx.call("sig_serialize_compact", dec.b(1), config=config)
        if sc is None: continue
        ctx.ev("adaptor_decrypt", "honest", True, dk, a)
        if not ctx.check(dec.ret == 1 and rs is not None and sc.b(1) == b32(rs[0]) + b32(rs[1]), "adaptor_decrypt:bytes", "dk=%s a=%s model=%s got %r" % (dk.hex(), a.hex(), rs, sc), config): continue
        ctx.check(rs[1] <= HALF_N and ecdsa.verify_rs(rs[0], rs[1], msg, X), "model:decrypted_signature_invalid", "", config)
        v = ctx.call("ecdsa_verify", dec.b(1), msg, Xo, config=config)
        if v is not None: ctx.check(v.ret == 1, "adaptor_decrypt:signature_does_not_verify", "sk=%s dk=%s msg=%s" % (sk.hex(), dk.hex(), msg.hex()), config)
        # recover from the signature and from its negated-s twin
        for cls, sv in (("decrypted", rs[1]), ("negated_s_twin", n - rs[1])):
            so = ctx.call("sig_parse_compact", b32(rs[0]) + b32(sv), config=config)
            if so is None: continue
            rec = ctx.call("adaptor_recover", so.b(1), a, Yo, config=config)
            if rec is None: continue
            ctx.ev("adaptor_recover", cls, True, a, b32(sv))
            ctx.check(rec.ret == 1 and rec.b(1) == dk, "adaptor_recover:%s:wrong_deckey" % cls, "dk=%s got %r" % (dk.hex(), rec), config)
        # recovery must refuse: other r, s = 0, unrelated signature, wrong encryption key
        bads = [("other_r", (rs[0] + 1) % n or 1, rs[1], Y, Yo), ("s_zero", rs[0], 0, Y, Yo), ("unrelated", rng.randrange(1, n), rng.randrange(1, n), Y, Yo)]
        Y2 = mulG(rng.randrange(1, n)); bads.append(("wrong_enckey", rs[0], rs[1], Y2, pkobj(ctx, Y2, config)))
        bads.append(("neg_enckey", rs[0], rs[1], neg(Y), pkobj(ctx, neg(Y), config)))
        bads.append(("s_altered", rs[0], (rs[1] + 1) % n or 1, Y, Yo))
        # r differing from the adaptor's R.x in exactly one bit, at every position over the run (equality tested limb by limb)
        for bit in ((it * 5) % 256, (it * 5 + 1) % 256, (it * 5 + 2) % 256, (it * 5 + 3) % 256, (it * 5 + 4) % 256, 255 - it % 32):
            rf = rs[0] ^ (1 << bit)
            if 0 < rf < n: bads.append(("r_bitflip", rf, rs[1], Y, Yo))
        for nm, rv in (("r_plus_p_minus_n", rs[0] + (p - n)), ("r_minus_p_minus_n", rs[0] - (p - n)), ("r_negated", n - rs[0])):
            if 0 < rv < n: bads.append((nm, rv, rs[1], Y, Yo))
        for cls, rr, ss, Yb, Ybo in bads:
            so = ctx.call("sig_parse_compact", b32(rr) + b32(ss), config=config)
            if so is None or Ybo is None: continue
            rec = ctx.call("adaptor_recover", so.b(1), a, Ybo, config=config)
            if rec is None: continue
            exp = adaptor.recover(rr, ss, a, Yb)
            ctx.ev("adaptor_recover", "refuse:" + cls, True, a, b32(rr), b32(ss), ser33(Yb))
            ctx.check(rec.ret == (1 if exp is not None else 0) and (exp is None or rec.b(1) == b32(exp)), "adaptor_recover:%s:%s" % (cls, "accepted" if rec.ret else "rejected"), "r=%x s=%x a=%s Y=%s model=%s got %r" % (rr, ss, a.hex(), ser33(Yb).hex(), exp, rec), config)
        # decrypt with invalid keys
        for cls, bk in (("zero", b32(0)), ("n", b32(n)), ("max", b32(2**256 - 1))):
            dd = ctx.call("adaptor_decrypt", bk, a, config=config)
            if dd is not None:
                ctx.ev("adaptor_decrypt", "deckey_" + cls, True, bk, a)
                ctx.check(dd.ret == 0 and dd.b(1) == bytes(64), "adaptor_decrypt:invalid_deckey:%s" % ("accepted" if dd.ret else "output_not_zero"), "dk=%s %r" % (bk.hex(), dd), config)
        # mutations of the adaptor signature
        muts = []
        if nfull < (1 if ctx.quick else 6) and it % 16 == 3:
            nfull += 1
            for i in range(162 * 8):
                t = bytearray(a); t[i // 8] ^= 1 << (i % 8); muts.append(("flip_all1296", bytes(t)))
        else:
            for _ in range(6):
                i = rng.randrange(162 * 8); t = bytearray(a); t[i // 8] ^= 1 << (i % 8); muts.append(("flip_sampled", bytes(t)))
        for off in (66, 98, 130):
            v0 = I(a[off:off + 32])
            for nv, cl in ((0, "zero"), (n, "n"), (v0 + n if v0 + n < 2**256 else n + 1, "plus_n"), (n - v0, "negated")):
                muts.append(("scalar@%d:%s" % (off, cl), a[:off] + b32(nv) + a[off + 32:]))
        for off in (0, 33):
            P = adaptor.pt33(a[off:off + 33])
            muts.append(("point@%d:negated" % off, a[:off] + ser33(neg(P)) + a[off + 33:]))
            muts.append(("point@%d:off_curve" % off, a[:off] + a[off:off + 1] + b32(off_curve_x(rng)) + a[off + 33:]))
            muts.append(("point@%d:x_ge_p" % off, a[:off] + a[off:off + 1] + b32(rng.choice((p, p + 1, 2**256 - 1))) + a[off + 33:]))
            muts.append(("point@%d:bad_prefix" % off, a[:off] + bytes([rng.choice((0, 1, 4, 6, 7, 255))]) + a[off + 1:]))
        for cls, t in muts:
            vcase(ctx, config, t, X, Xo, msg, Y, Yo, "mut:" + cls)
        X2 = mulG(rng.randrange(1, n)); vcase(ctx, config, a, X2, pkobj(ctx, X2, config), msg, Y, Yo, "other_signer_key")
        vcase(ctx, config, a, X, Xo, msg, Y2, pkobj(ctx, Y2, config), "other_enckey")
        m2 = bytearray(msg); m2[rng.randrange(32)] ^= 1 << rng.randrange(8); vcase(ctx, config, a, X, Xo, bytes(m2), Y, Yo, "other_message")
        if I(msg) + n < 2**256: vcase(ctx, config, a, X, Xo, b32(I(msg) + n), Y, Yo, "message_plus_n")

def wl_fail_paths(ctx, config):
    rng = ctx.rng
    for it in ctx.iters(80, 1500):
        d = rng.choice((0, n, n + 1, 2**256 - 1)) if it % 2 == 0 else pools.valid_seckey(rng); sk = b32(d)
        Y = mulG(rng.randrange(1, n)); Yo = pkobj(ctx, Y, config); msg = pools.msg32(rng)
        if Yo is None: continue
        mode = rng.choice((0, 1)) if it % 2 == 0 else rng.choice((2, 3))
        aux = None if rng.random() < 0.5 else pools.rbytes(rng, 32)
        r = ctx.call("adaptor_encrypt", sk, Yo, msg, mode, aux, config=config)
        if r is None: continue
        ctx.ev("adaptor_encrypt", "fail:%s" % ("invalid_key" if it % 2 == 0 else "noncefp_mode%d" % mode), True, sk, msg, mode)
        ctx.check(r.ret == 0 and r.b(1) == bytes(162), "adaptor_encrypt:failure:%s" % ("returned_1" if r.ret else "output_not_zero"), "sk=%s mode=%d %r" % (sk.hex(), mode, r), config)
    # random 162-byte strings and structured garbage
    for it in ctx.iters(200, 5000):
        X = mulG(rng.randrange(1, n)); Y = mulG(rng.randrange(1, n)); Xo = pkobj(ctx, X, config); Yo = pkobj(ctx, Y, config)
        if it % 2: a = pools.rbytes(rng, 162)
        else: a = ser33(mulG(rng.randrange(1, n))) + ser33(mulG(rng.randrange(1, n))) + b32(pools.scalar(rng)) + b32(pools.scalar(rng)) + b32(pools.scalar(rng))
        vcase(ctx, config, a, X, Xo, pools.msg32(rng), Y, Yo, "random_structured" if it % 2 == 0 else "random_bytes", nontrivial=False)

def wl_chosen_sp(ctx, config):
    """adversarial prover choosing s' (small, boundary) by solving for the message: s'+n re-encodings become constructible"""
    rng = ctx.rng
    for it in ctx.iters(160, 4000):
        d = rng.randrange(1, n); y = rng.randrange(1, n); X = mulG(d); Y = mulG(y)
        sp = rng.choice((1, 2, n - 1, (n - 1) // 2, (n + 1) // 2)) if it % 3 == 0 else rng.randrange(1, 2**120)
        a, msg = adaptor.make(d, Y, rng.randrange(1, n), rng.randrange(1, n), sp)
        Xo = pkobj(ctx, X, config); Yo = pkobj(ctx, Y, config)
        if Xo is None or Yo is None: continue
        vcase(ctx, config, a, X, Xo, msg, Y, Yo, "chosen_sp")
        if sp + n < 2**256: vcase(ctx, config, a[:66] + b32(sp + n) + a[98:], X, Xo, msg, Y, Yo, "chosen_sp:sp+n")
        vcase(ctx, config, a[:66] + b32(n - sp) + a[98:], X, Xo, msg, Y, Yo, "chosen_sp:negated")
        # decrypt / recover on the re-encoded string must fail closed as well
        if sp + n < 2**256:
            t = a[:66] + b32(sp + n) + a[98:]
            dd = ctx.call("adaptor_decrypt", b32(y), t, config=config)
            if dd is not None:
                ctx.ev("adaptor_decrypt", "sp+n", True, t)
                ctx.check(dd.ret == 0 and dd.b(1) == bytes(64), "adaptor_decrypt:sp+n:%s" % ("accepted" if dd.ret else "output_not_zero"), t.hex(), config)
            rs = adaptor.decrypt(b32(y), a)
            so = ctx.call("sig_parse_compact", b32(rs[0]) + b32(rs[1]), config=config)
            if so is not None:
                rec = ctx.call("adaptor_recover", so.b(1), t, Yo, config=config)
                if rec is not None:
                    ctx.ev("adaptor_recover", "sp+n", True, t)
                    ctx.check(rec.ret == 0, "adaptor_recover:sp+n:accepted", t.hex(), config)

def infinity_cases(rng):
    """162-byte strings crafted so that an intermediate point of adaptor_verify is the point at infinity:
    R1 = s*G - e*R' (R' = t*G, s = t*e), R2 = s*Y - e*R (R = t*Y, s = t*e), both, and the derived point
    s'^-1 (m*G + R.x*X) (X = -(m / R.x) * G).  Yields (class, a162, X, msg32, Y)."""
    d = rng.randrange(1, n); y = rng.randrange(1, n); X = mulG(d); Y = mulG(y)
    t = rng.choice((1, 1, 2, 3, n - 1, rng.randrange(1, n))); e = rng.randrange(1, n); sp = rng.randrange(1, n); msg = b32(rng.randrange(0, 2**256))
    other = mulG(rng.randrange(1, n))
    yield "R2_infinity", ser33(mul(t, Y)) + ser33(other) + b32(sp) + b32(e) + b32(t * e % n), X, msg, Y
    yield "R1_infinity", ser33(other) + ser33(mulG(t)) + b32(sp) + b32(e) + b32(t * e % n), X, msg, Y
    yield "R1_R2_infinity", ser33(mul(t, Y)) + ser33(mulG(t)) + b32(sp) + b32(e) + b32(t * e % n), X, msg, Y
    yield "R2_infinity:e_zero", ser33(mul(t, Y)) + ser33(other) + b32(sp) + b32(0) + b32(0), X, msg, Y
    # a consistent DLEQ part with a public key that cancels the derived point
    k = rng.randrange(1, n); a, m2 = adaptor.make(d, Y, k, rng.randrange(1, n), sp)
    sigr = I(a[1:33]) % n
    if sigr:
        mm = rng.randrange(1, n); Xc = mulG((-mm * pow(sigr, -1, n)) % n)
        yield "derived_point_infinity", a, Xc, b32(mm), Y

def wl_infinity(ctx, config):
    rng = ctx.rng
    for it in ctx.iters(40, 1500):
        for cls, a, X, msg, Y in infinity_cases(rng):
            Xo = pkobj(ctx, X, config); Yo = pkobj(ctx, Y, config)
            if Xo is None or Yo is None: continue
            vcase(ctx, config, a, X, Xo, msg, Y, Yo, "crafted:" + cls)

def wl_scripted_nonces(ctx, config):
    """custom nonce function answering the main and the DLEQ request separately with boundary byte strings (0, n, n+1, 2n mod 2^256
    does not fit, 2^256-1, 1, n-1): a string that reduces to the zero scalar must make encryption fail with a zeroed output, any
    other must give exactly the model's bytes, which must verify"""
    rng = ctx.rng
    vals = [0, n, 1, n - 1, n + 1, 2**256 - 1, 2**256 - n, 2, rng.randrange(1, n)]
    cases = [(a, b) for a in [None] + vals for b in [None] + vals if (a is not None or b is not None)]
    rng.shuffle(cases)
    for a_, b_ in ctx.mine(cases[:(60 if ctx.quick else len(cases))] if ctx.quick else cases):
        d = rng.randrange(1, n); y = rng.randrange(1, n); X = mulG(d); Y = mulG(y); msg = pools.msg32(rng, 0.3); sk = b32(d)
        Xo = pkobj(ctx, X, config); Yo = pkobj(ctx, Y, config)
        if Xo is None or Yo is None: continue
        mn = None if a_ is None else b32(a_); dn = None if b_ is None else b32(b_)
        want = adaptor.encrypt(sk, Y, msg, None, main_nonce=mn, dleq_nonce=dn)
        r = ctx.call("adaptor_encrypt", sk, Yo, msg, 4, None, mn, dn, config=config)
        if r is None: continue
        cls = "scripted_nonce:main=%s:dleq=%s" % ("default" if a_ is None else ("zero_scalar" if a_ % n == 0 else "value"), "default" if b_ is None else ("zero_scalar" if b_ % n == 0 else "value"))
        ctx.ev("adaptor_encrypt", cls, True, sk, msg, mn or b'', dn or b'')
        if not ctx.check(r.ret == (1 if want else 0) and r.b(1) == (want or bytes(162)), "adaptor_encrypt:%s:%s" % (cls, "bytes" if want else ("returned_1" if r.ret else "output_not_zero")),
                         "main=%s dleq=%s want %s got %r" % (mn.hex() if mn else None, dn.hex() if dn else None, want.hex() if want else None, r), config): continue
        if want: vcase(ctx, config, r.b(1), X, Xo, msg, Y, Yo, "scripted_nonce_output")

def run(ctx):
    from vlib import smallgroup
    smallgroup.run(ctx, 'adaptor', {'adaptor_sp_reenc': 'accepted', 'adaptor_dleq_s_reenc': 'accepted', 'adaptor_decrypt_sp_reenc': 'accepted'})
    for i, config in enumerate(ctx.cfgs()):
        wl_pipeline(ctx, config)
        if ctx.quick and config == "mx_i64": continue          # quick: the 32-bit-limb build runs the pipeline (with its recover / verify mutations) only
        wl_chosen_sp(ctx, config)
        wl_infinity(ctx, config)
        wl_scripted_nonces(ctx, config)
        wl_fail_paths(ctx, config)
