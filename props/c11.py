"""C11 Surjection proofs: complete, exact and canonically encoded."""
from ref.ec import *
from ref import pools, zkp, surjection as sj

ID = "C11"
LEVEL = "exploration"
CONFIGS = {"quick": ["san", "san_nv", "mx_i64"], "thorough": ["san", "san_nv", "mx_i64"]}
RULE = ("initialize for input counts 1..256 x subset sizes (all pairs for n <= 8, boundary and sampled above, always 255 / 256), the matching input at every "
        "position and with multiplicity 1..3, several seeds and iteration limits (incl. 0 and 1); generate + verify with matching keys, blinding keys "
        "0 / n-1 / >= n, an input equal to the output; verify on library proofs and reference-prover proofs with small forged scalars and their s+n "
        "re-encodings, altered tags / proof bytes / counts; the parser on every n_inputs field 0..65535 with plausible lengths, every padding-bit "
        "pattern, length +-1, popcount / length mismatches; allocate_initialized / destroy under the allocation monitor. non-trivial = model accepts / "
        "post-condition applies / one mutation from accepted; distinct = (op, inputs)")
ASSUMPTIONS = ["ref/surjection.py + ref/borromean.py transcribe surjection.md and the canonical encoding"]

def mk_tags(rng, nin, match_pos, out_tag):
    tags = [pools.rbytes(rng, 32) for _ in range(nin)]
    # decoys: non-matching tags that equal the output tag except in ONE byte (any of the 32 positions), or share a prefix / suffix with it
    if rng.random() < 0.5:
        for j in range(nin):
            z = rng.random()
            if z < 0.25:
                k = rng.randrange(32); t = bytearray(out_tag); t[k] ^= rng.choice((1, 0x80, 0xff, rng.randrange(1, 256))); tags[j] = bytes(t)
            elif z < 0.35:
                k = rng.randrange(1, 32); tags[j] = (out_tag[:k] + tags[j][k:]) if rng.random() < 0.5 else (tags[j][:k] + out_tag[k:])
                if tags[j] == out_tag: tags[j] = pools.rbytes(rng, 32)
    for pos in match_pos: tags[pos] = out_tag
    return tags

def post_initialize(ctx, config, r, tags, out_tag, nin, use, max_iter, det):
    """post-conditions of a successful initialize"""
    idx = r.i(1); pobj = r.b(2)
    cnt = ctx.call("surj_counts", pobj, config=config)
    if cnt is None: return False
    ok = ctx.check(0 < r.ret <= max(max_iter, 1), "surj_initialize:iterations_out_of_range", det + " ret=%d" % r.ret, config)
    ok &= ctx.check(0 <= idx < nin and tags[idx] == out_tag, "surj_initialize:returned_index_not_matching_input", det + " idx=%d" % idx, config)
    ok &= ctx.check(cnt.i(0) == nin and cnt.i(1) == use, "surj_initialize:subset_size", det + " counts=%r" % cnt, config)
    ser = ctx.call("surj_serialize", pobj, cnt.i(2), config=config)
    if ser is None or not ctx.check(ser.ret == 1 and ser.i(1) == cnt.i(2) == 2 + (nin + 7) // 8 + 32 * (1 + use), "surj_serialize:size_helpers", "%r %r" % (ser, cnt), config): return False
    bm = ser.b(2)[2:2 + (nin + 7) // 8]
    ok &= ctx.check(0 <= idx < nin and (bm[idx // 8] >> (idx % 8)) & 1, "surj_initialize:matching_input_not_selected", det + " idx=%d bitmap=%s" % (idx, bm.hex()), config)
    return ok

def wl_initialize(ctx, config):
    rng = ctx.rng
    pairs = [(nin, use) for nin in range(1, 9) for use in range(1, nin + 1)]
    pairs += [(nin, use) for nin in (9, 16, 17, 64, 128, 255, 256) for use in sorted(set([1, 2, 3, nin // 2, nin - 1, nin]))]
    pairs += [(rng.randrange(9, 257), 0) for _ in range(6)]
    pairs = [(a, b if b else rng.randrange(1, min(a, 16) + 1)) for a, b in pairs]
    reps = 2 if ctx.quick else 12
    for nin, use in ctx.mine(pairs * reps):
        out_tag = pools.rbytes(rng, 32)
        mult = rng.choice((1, 1, 2, 3)); mult = min(mult, nin)
        pos = rng.sample(range(nin), mult) if rng.random() < 0.8 else [rng.choice((0, nin - 1))]
        if rng.random() < 0.12: pos = []        # no matching input at all: must fail
        tags = mk_tags(rng, nin, pos, out_tag)
        max_iter = rng.choice((0, 1, 1, 2, 10, 100, 1000))
        seed = pools.rbytes(rng, 32); alloc = rng.random() < 0.3
        r = ctx.call("surj_initialize", b''.join(tags), nin, use, out_tag, max_iter, seed, 1 if alloc else 0, config=config)
        if r is None: continue
        cls = "n%s:%s" % ("<=8" if nin <= 8 else ">8", "no_match" if not pos else ("full_subset" if use == nin else "partial"))
        ctx.ev("surj_initialize", cls + (":alloc" if alloc else ""), True, nin, use, out_tag, seed, max_iter, tuple(pos))
        det = "n=%d use=%d pos=%s max_iter=%d seed=%s" % (nin, use, pos, max_iter, seed.hex())
        if alloc:
            ctx.check(r.m == 1 and r.live == 0, "surj_allocate_initialized:allocation_balance", det + " mallocs=%d live=%d" % (r.m, r.live), config)
        if not pos:
            ctx.check(r.ret == 0, "surj_initialize:succeeded_without_matching_input", det, config); continue
        if use == nin:
            # every input is selected in the first iteration: must succeed at once
            ctx.check(r.ret == 1, "surj_initialize:full_subset_not_found_in_first_iteration", det + " ret=%d" % r.ret, config)
        if r.ret > 0:
            post_initialize(ctx, config, r, tags, out_tag, nin, use, max_iter, det)
            # same seed -> same result
            r2 = ctx.call("surj_initialize", b''.join(tags), nin, use, out_tag, max_iter, seed, 0, config=config)
            if r2 is not None: ctx.check(r2.ret == r.ret and r2.i(1) == r.i(1), "surj_initialize:not_deterministic", det, config)
    # documented illegal uses
    for nin, use in ctx.mine([(257, 1), (3, 4), (300, 300)]):
        r = ctx.call("surj_initialize", pools.rbytes(rng, 32 * nin), nin, use, pools.rbytes(rng, 32), 10, pools.rbytes(rng, 32), 0, config=config, ill=2)
        if r is not None: ctx.check(r.ret == 0, "surj_initialize:illegal_counts_accepted", "n=%d use=%d" % (nin, use), config)

class Scene:
    """ephemeral tags with known blinding keys (0 = unblinded tag, allowed for either side)"""
    def __init__(self, ctx, config, rng, nin, pos, eq_out=False):
        self.out_tag = pools.rbytes(rng, 32); self.tags = mk_tags(rng, nin, pos, self.out_tag)
        self.in_keys = [rng.randrange(1, n) for _ in range(nin)]; self.out_key = rng.randrange(1, n)
        z = rng.random()
        if z < 0.12 and pos: self.in_keys[pos[0]] = 0              # the matching input is an unblinded tag
        elif z < 0.24: self.out_key = 0                            # the output is an unblinded tag
        elif z < 0.30: self.in_keys[rng.randrange(nin)] = 0
        self.in_pts = []; self.in_obj = []
        for t, k in zip(self.tags, self.in_keys):
            ok, P = zkp.generate(t, b32(k)); self.in_pts.append(P)
            r = ctx.call("generator_generate_blinded", t, b32(k), config=config); self.in_obj.append(r.b(1))
        ok, self.out_pt = zkp.generate(self.out_tag, b32(self.out_key))
        self.out_obj = ctx.call("generator_generate_blinded", self.out_tag, b32(self.out_key), config=config).b(1)
        self.nin = nin

def lib_verify(ctx, config, sbytes, in_objs, out_obj):
    pr = ctx.call("surj_parse", sbytes, config=config)
    if pr is None: return None, None
    if pr.ret != 1: return 0, None
    v = ctx.call("surj_verify", pr.b(1), b''.join(in_objs) or b'', len(in_objs), out_obj, config=config)
    return 1, (v.ret if v is not None else None)

def vcase(ctx, config, sbytes, in_pts, in_objs, out_pt, out_obj, cls, nontrivial=True):
    exp = sj.verify(sbytes, in_pts, out_pt)
    pexp = sj.parse(sbytes) is not None
    pok, v = lib_verify(ctx, config, sbytes, in_objs, out_obj)
    if pok is None: return
    ctx.ev("surj_verify", cls, nontrivial, sbytes, len(in_pts), zkp.gen_ser(out_pt))
    if not ctx.check(pok == (1 if pexp else 0), "surj_parse:%s:%s" % (cls, "accepted_noncanonical" if pok else "rejected_canonical"), sbytes[:40].hex(), config): return
    if pok and v is not None:
        ctx.check(v == (1 if exp else 0), "surj_verify:%s:%s" % (cls, "accepted_invalid" if v else "rejected_valid"), "n=%d proof=%s.. model=%s" % (len(in_pts), sbytes[:80].hex(), exp), config)

def wl_generate(ctx, config):
    rng = ctx.rng
    for it in ctx.iters(160, 3500):
        nin = rng.choice((1, 2, 3, 4, 5, 8, 9)) if ctx.quick or rng.random() < 0.9 else rng.choice((64, 255, 256))
        use = rng.randrange(1, min(nin, 6) + 1); pos = [rng.randrange(nin)]
        S = Scene(ctx, config, rng, nin, pos)
        r = ctx.call("surj_initialize", b''.join(S.tags), nin, use, S.out_tag, 200, pools.rbytes(rng, 32), 0, config=config)
        if r is None or r.ret == 0: continue
        idx = r.i(1)
        kind = it % 8
        ik = S.in_keys[idx]; ok_ = S.out_key; cls = "matching_keys"
        if kind == 5: ik = rng.choice((n, n + 1, 2**256 - 1)); cls = "input_key_ge_n"
        elif kind == 6: ok_ = rng.choice((n, 2**256 - 1)); cls = "output_key_ge_n"
        g = ctx.call("surj_generate", r.b(2), b''.join(S.in_obj), nin, S.out_obj, idx, b32(ik), b32(ok_), config=config)
        if g is None: continue
        ctx.ev("surj_generate", cls, True, nin, use, idx, b32(ik), b32(ok_), S.out_tag)
        if cls != "matching_keys":
            ctx.check(g.ret == 0, "surj_generate:%s:accepted" % cls, "", config); continue
        if not ctx.check(g.ret == 1, "surj_generate:failed_with_matching_keys", "n=%d use=%d idx=%d" % (nin, use, idx), config): continue
        v = ctx.call("surj_verify", g.b(1), b''.join(S.in_obj), nin, S.out_obj, config=config)
        if v is not None: ctx.check(v.ret == 1, "surj_generate:proof_does_not_verify", "n=%d use=%d idx=%d" % (nin, use, idx), config)
        cnt = ctx.call("surj_counts", g.b(1), config=config); ser = ctx.call("surj_serialize", g.b(1), cnt.i(2), config=config)
        if ser is None or ser.ret != 1: continue
        sb = ser.b(2)
        vcase(ctx, config, sb, S.in_pts, S.in_obj, S.out_pt, S.out_obj, "libproof")
        # short output buffer refused, round trip
        s2 = ctx.call("surj_serialize", g.b(1), cnt.i(2) - 1, config=config)
        if s2 is not None: ctx.check(s2.ret == 0, "surj_serialize:short_buffer_accepted", "", config)
        pr = ctx.call("surj_parse", sb, config=config)
        if pr is not None and pr.ret == 1:
            s3 = ctx.call("surj_serialize", pr.b(1), len(sb), config=config)
            if s3 is not None: ctx.check(s3.ret == 1 and s3.b(2) == sb, "surj_serialize:roundtrip", "", config)
        mutate(ctx, config, rng, sb, S, "libproof")
        # generation with a list of ephemeral tags whose count differs from the initialised proof's input count must refuse
        if nin >= 2 and it % 4 == 0:
            g3 = ctx.call("surj_generate", r.b(2), b''.join(S.in_obj[:-1]), nin - 1, S.out_obj, min(idx, nin - 2), b32(ik), b32(ok_), config=config)
            if g3 is not None:
                ctx.ev("surj_generate", "tag_count_mismatch", True, nin, use, idx)
                ctx.check(g3.ret == 0, "surj_generate:tag_count_mismatch:accepted", "n_inputs=%d given=%d" % (nin, nin - 1), config)
        # wrong key: generate may succeed, the proof must not verify
        if kind == 7:
            g2 = ctx.call("surj_generate", r.b(2), b''.join(S.in_obj), nin, S.out_obj, idx, b32(rng.randrange(1, n)), b32(S.out_key), config=config)
            if g2 is not None and g2.ret == 1:
                c2 = ctx.call("surj_counts", g2.b(1), config=config); s4 = ctx.call("surj_serialize", g2.b(1), c2.i(2), config=config)
                if s4 is not None and s4.ret == 1: vcase(ctx, config, s4.b(2), S.in_pts, S.in_obj, S.out_pt, S.out_obj, "wrong_key_proof")
    # an input equal to the output (same tag, same blinding): generate refuses, verify rejects
    for it in ctx.iters(24, 400):
        nin = rng.randrange(1, 6); S = Scene(ctx, config, rng, nin, [0])
        S.in_keys[0] = S.out_key; ok, S.in_pts[0] = zkp.generate(S.tags[0], b32(S.out_key)); S.in_obj[0] = ctx.call("generator_generate_blinded", S.tags[0], b32(S.out_key), config=config).b(1)
        r = ctx.call("surj_initialize", b''.join(S.tags), nin, nin, S.out_tag, 10, pools.rbytes(rng, 32), 0, config=config)
        if r is None or r.ret == 0: continue
        g = ctx.call("surj_generate", r.b(2), b''.join(S.in_obj), nin, S.out_obj, 0, b32(S.in_keys[0]), b32(S.out_key), config=config)
        if g is not None:
            ctx.ev("surj_generate", "input_equals_output", True, nin, S.out_tag)
            ctx.check(g.ret == 0, "surj_generate:input_equals_output_accepted", "", config)
        # a forged proof for that statement: the ring key is infinity, verification must reject whatever the scalars
        bm = bytearray((nin + 7) // 8); bm[0] |= 1
        sb = sj.serialize(nin, bytes(bm), pools.rbytes(rng, 32), [rng.randrange(1, n)])
        vcase(ctx, config, sb, S.in_pts, S.in_obj, S.out_pt, S.out_obj, "selected_input_equals_output")

def mutate(ctx, config, rng, sb, S, tag):
    nin = S.nin; bl = (nin + 7) // 8
    for _ in range(8):
        kind = rng.randrange(9)
        if kind == 0:
            i = rng.randrange(len(sb) * 8); t = bytearray(sb); t[i // 8] ^= 1 << (i % 8); vcase(ctx, config, bytes(t), S.in_pts, S.in_obj, S.out_pt, S.out_obj, tag + ":bitflip")
        elif kind == 1:
            nu = sj.popcount(sb[2:2 + bl]); j = rng.randrange(nu); o = 2 + bl + 32 + 32 * j
            vcase(ctx, config, sb[:o] + b32(rng.choice((0, n, n + 1, 2**256 - 1))) + sb[o + 32:], S.in_pts, S.in_obj, S.out_pt, S.out_obj, tag + ":scalar_zero_or_ge_n")
            vcase(ctx, config, sb[:o] + b32((n - I(sb[o:o + 32])) % n) + sb[o + 32:], S.in_pts, S.in_obj, S.out_pt, S.out_obj, tag + ":scalar_negated")
        elif kind == 2:
            vcase(ctx, config, sb + b'\x00', S.in_pts, S.in_obj, S.out_pt, S.out_obj, tag + ":len+1"); vcase(ctx, config, sb[:-1], S.in_pts, S.in_obj, S.out_pt, S.out_obj, tag + ":len-1")
        elif kind == 3:
            j = rng.randrange(nin); P = mulG(rng.randrange(1, n)); o = ctx.call("generator_parse", zkp.gen_ser(P), config=config)
            if o is None or o.ret != 1: continue
            ip = list(S.in_pts); io = list(S.in_obj); ip[j] = P; io[j] = o.b(1)
            vcase(ctx, config, sb, ip, io, S.out_pt, S.out_obj, tag + ":input_tag_altered")
        elif kind == 4:
            P = add(S.out_pt, G); o = ctx.call("generator_parse", zkp.gen_ser(P), config=config)
            if o is not None and o.ret == 1: vcase(ctx, config, sb, S.in_pts, S.in_obj, P, o.b(1), tag + ":output_tag_altered")
        elif kind == 5:
            vcase(ctx, config, sb, S.in_pts[:-1], S.in_obj[:-1], S.out_pt, S.out_obj, tag + ":tag_count_mismatch") if nin > 1 else None
            P = mulG(rng.randrange(1, n)); o = ctx.call("generator_parse", zkp.gen_ser(P), config=config)
            if o is not None and o.ret == 1 and nin < 256: vcase(ctx, config, sb, S.in_pts + [P], S.in_obj + [o.b(1)], S.out_pt, S.out_obj, tag + ":tag_count_mismatch")
        elif kind == 6 and nin >= 2:
            i, j = rng.sample(range(nin), 2); ip = list(S.in_pts); io = list(S.in_obj); ip[i], ip[j] = ip[j], ip[i]; io[i], io[j] = io[j], io[i]
            vcase(ctx, config, sb, ip, io, S.out_pt, S.out_obj, tag + ":inputs_swapped")
        elif kind == 7:
            t = bytearray(sb); t[2 + bl + rng.randrange(32)] ^= 1 << rng.randrange(8); vcase(ctx, config, bytes(t), S.in_pts, S.in_obj, S.out_pt, S.out_obj, tag + ":e0_altered")
        else:
            # negated tags (same x, other y): the message hash and the ring keys change
            ip = list(S.in_pts); io = list(S.in_obj); j = rng.randrange(nin); ip[j] = neg(ip[j]); o = ctx.call("generator_parse", zkp.gen_ser(ip[j]), config=config)
            if o is not None and o.ret == 1: io[j] = o.b(1); vcase(ctx, config, sb, ip, io, S.out_pt, S.out_obj, tag + ":input_tag_negated")

def wl_refprover(ctx, config):
    rng = ctx.rng
    for it in ctx.iters(120, 3000):
        nin = rng.choice((1, 2, 3, 4, 6, 8)); S = Scene(ctx, config, rng, nin, [rng.randrange(nin)])
        match = S.tags.index(S.out_tag)
        others = [j for j in range(nin) if j != match]; rng.shuffle(others)
        used = sorted([match] + others[:rng.randrange(0, min(len(others), 4) + 1)])
        idx = used.index(match); sec = (S.out_key - S.in_keys[match]) % n
        forged = [rng.randrange(1, 2**100) for _ in used]
        sb = sj.prove(S.in_pts, S.out_pt, used, idx, sec, forged, rng.randrange(1, n))
        if sb is None: continue
        vcase(ctx, config, sb, S.in_pts, S.in_obj, S.out_pt, S.out_obj, "refprover:small_scalars")
        bl = (nin + 7) // 8
        for j in range(len(used)):
            if j == idx: continue
            o = 2 + bl + 32 + 32 * j
            vcase(ctx, config, sb[:o] + b32(forged[j] + n) + sb[o + 32:], S.in_pts, S.in_obj, S.out_pt, S.out_obj, "refprover:s+n")
        mutate(ctx, config, rng, sb, S, "refprover")
        # the ring closes although a forged scalar is exactly 0 (any position but the prover's): must be rejected
        if len(used) >= 2:
            fz = list(forged)
            for t in range(len(used)):
                if t != idx and rng.random() < 0.6: fz[t] = 0
            if all(fz[t] for t in range(len(used)) if t != idx): fz[(idx + 1) % len(used)] = 0
            sz = sj.prove(S.in_pts, S.out_pt, used, idx, sec, fz, rng.randrange(1, n))
            if sz is not None: vcase(ctx, config, sz, S.in_pts, S.in_obj, S.out_pt, S.out_obj, "refprover:forged_scalar_zero")
        # a SELECTED input equal to the output makes that ring member the point at infinity.  Two forgeries that then close the ring and
        # must still be rejected: (a) an honest signer at another position, (b) "signing" at the infinite member itself with secret 0
        # (its chain value s*G does not depend on the challenge), which needs no secret at all
        if nin >= 1:
            ip = list(S.in_pts); io = list(S.in_obj); j = rng.choice([x for x in range(nin) if x != match] or [match])
            ip[j] = S.out_pt; io[j] = S.out_obj
            used2 = sorted(set(used) | {j}); fz = [rng.randrange(1, n) for _ in used2]
            if j != match:
                sa = sj.prove(ip, S.out_pt, used2, used2.index(match), sec, fz, rng.randrange(1, n), allow_infinite_member=True)
                if sa is not None: vcase(ctx, config, sa, ip, io, S.out_pt, S.out_obj, "selected_input_equals_output:honest_signer_elsewhere")
            sb2 = sj.prove(ip, S.out_pt, used2, used2.index(j), 0, fz, rng.randrange(1, n), allow_infinite_member=True)
            if sb2 is not None: vcase(ctx, config, sb2, ip, io, S.out_pt, S.out_obj, "selected_input_equals_output:forged_without_secret")
        # empty selection: canonical string with a zero bitmap
        empty = sj.serialize(nin, bytes(bl), pools.rbytes(rng, 32), [])
        vcase(ctx, config, empty, S.in_pts, S.in_obj, S.out_pt, S.out_obj, "empty_selection")
        # ... and the forgery from public data only: with no ring member the Borromean equation degenerates to e0 == H(msg)
        forged0 = sj.serialize(nin, bytes(bl), sha(sj.msg(S.in_pts, S.out_pt)), [])
        vcase(ctx, config, forged0, S.in_pts, S.in_obj, S.out_pt, S.out_obj, "empty_selection_forged_from_public_data")

def wl_parser(ctx, config):
    rng = ctx.rng
    def pcase(s, cls):
        exp = sj.parse(s)
        r = ctx.call("surj_parse", s, config=config)
        if r is None: return
        ctx.ev("surj_parse", cls, True, s)
        if not ctx.check(r.ret == (1 if exp else 0), "surj_parse:%s:%s" % (cls, "accepted_noncanonical" if r.ret else "rejected_canonical"), "%s.. len=%d" % (s[:24].hex(), len(s)), config): return
        if exp:
            c = ctx.call("surj_counts", r.b(1), config=config); o = ctx.call("surj_serialize", r.b(1), len(s), config=config)
            if c is not None and o is not None:
                ctx.check(c.i(0) == exp[0] and c.i(1) == len(exp[3]) and c.i(2) == len(s) and o.ret == 1 and o.b(2) == s, "surj_serialize:parse_roundtrip", "%r %r" % (c, o), config)
    # every n_inputs field 0..65535 with plausible lengths
    step = 1
    fields = list(range(0, 600)) + list(range(600, 65536, 97 if ctx.quick else 7)) + [65535, 256 * 255, 0x0100, 0x0001, 0x0101, 257, 258, 263, 264]
    for nin in ctx.mine(fields):
        bl = (min(nin, 4096) + 7) // 8
        for mode in range(3):
            bm = bytearray(bl)
            if mode == 1 and nin: bm[rng.randrange(bl)] |= 1 << rng.randrange(8)
            if mode == 2 and bl: bm = bytearray(pools.rbytes(rng, bl))
            if nin <= 256 and nin % 8 and bl and mode != 2: bm[-1] &= (1 << (nin % 8)) - 1
            used = sj.popcount(bm)
            s = bytes([nin & 0xFF, nin >> 8]) + bytes(bm) + pools.rbytes(rng, 32 * (1 + used))
            pcase(s, "n_inputs_field:%s" % ("<=256" if nin <= 256 else ">256"))
    # every padding-bit pattern of the last bitmap byte, for every n mod 8
    for nin in ctx.mine(list(range(1, 17)) + [249, 250, 255, 256]):
        bl = (nin + 7) // 8
        for last in range(256):
            bm = bytearray(bl); bm[-1] = last; used = sj.popcount(bm)
            s = bytes([nin & 0xFF, nin >> 8]) + bytes(bm) + pools.rbytes(rng, 32 * (1 + used))
            pcase(s, "padding_bits"); 
            if last % 37 == 0:
                pcase(s + b'\x00', "length+1"); pcase(s[:-1], "length-1"); pcase(s + bytes(32), "length+32"); pcase(s[:-32], "length-32")
    for L in ctx.mine(range(0, 70)):
        pcase(pools.rbytes(rng, L), "random_short")
    # every length around the canonical one for small input counts and every selection size
    for nin in ctx.mine(list(range(0, 10))):
        bl = (nin + 7) // 8
        for used in range(0, nin + 1):
            bm = bytearray(bl)
            for j in range(used): bm[j // 8] |= 1 << (j % 8)
            body = bytes([nin, 0]) + bytes(bm) + pools.rbytes(rng, 32 * (2 + used) + 40)
            canon = 2 + bl + 32 * (1 + used)
            for L in range(max(0, canon - 40), canon + 41): pcase(body[:L], "length_sweep")

def run(ctx):
    for config in ctx.cfgs():
        wl_initialize(ctx, config)
        wl_generate(ctx, config)
        wl_refprover(ctx, config)
        wl_parser(ctx, config)
