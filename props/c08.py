"""C08 Pedersen commitments are the stated group elements and tally exactly."""
from ref.ec import *
from ref import pools, zkp

ID = "C08"
LEVEL = "exploration"
CONFIGS = {"quick": ["san", "san_nv", "mx_i64"], "thorough": ["san", "san_nv", "mx_i64", "mx_w2"]}
RULE = ("pedersen_commit on pool blinding factors (0, n-1, n, 2^256-1) x pool values (0, 1, 2^63, 2^64-1) x generators (h, seed-derived, blinded, parsed, "
        "known-discrete-log generators so that the result at infinity is constructible); generator derivation vs a Shallue-van de Woestijne model; "
        "verify_tally on lists of 0..32 commitments over 1..4 assets balanced through the blind-sum helpers, then unbalanced by one value unit / one "
        "blinding unit / an asset swap; both 33-byte parsers on prefix 0..255 x x pool. every output compared with the group-law model. "
        "non-trivial = every record; distinct = (op, inputs)")
ASSUMPTIONS = ["ref/zkp.py transcribes the documented SvdW map and encodings (byte-exact at design time)"]

def gen_obj(ctx, config, P):
    r = ctx.call("generator_parse", zkp.gen_ser(P), config=config)
    return r.b(1) if r is not None and r.ret == 1 else None

def make_gen(ctx, config, rng, kind=None):
    """returns (point, object, label, dlog or None)"""
    kind = rng.randrange(5) if kind is None else kind
    if kind == 0:
        r = ctx.call("generator_h", config=config); return zkp.H_POINT, r.b(0), "h", None
    if kind == 1:
        seed = pools.rbytes(rng, 32); ok, P = zkp.generate(seed)
        r = ctx.call("generator_generate", seed, config=config)
        ctx.ev("generator_generate", "seed", True, seed)
        s = ctx.call("generator_serialize", r.b(1), config=config)
        ctx.check(r.ret == (1 if ok else 0) and s.b(1) == zkp.gen_ser(P) and on_curve(P), "generator_generate:wrong_point", "seed=%s want %s got %r" % (seed.hex(), zkp.gen_ser(P).hex(), s), config)
        return P, r.b(1), "generated", None
    if kind == 2:
        seed = pools.rbytes(rng, 32); bl = pools.scalar(rng, 0.3); ok, P = zkp.generate(seed, b32(bl))
        r = ctx.call("generator_generate_blinded", seed, b32(bl), config=config)
        ctx.ev("generator_generate_blinded", "blind_ok" if ok else "blind_ge_n", True, seed, b32(bl))
        if not ctx.check(r.ret == (1 if ok else 0), "generator_generate_blinded:%s" % ("blind_ge_n_accepted" if r.ret else "failed"), "seed=%s blind=%x" % (seed.hex(), bl), config) or not ok:
            return make_gen(ctx, config, rng, 1)
        s = ctx.call("generator_serialize", r.b(1), config=config)
        ok2, P0 = zkp.generate(seed)
        ctx.check(s.b(1) == zkp.gen_ser(P) and P == add(P0, mulG(bl)), "generator_generate_blinded:not_unblinded_plus_blind_G", "seed=%s blind=%x want %s got %r" % (seed.hex(), bl, zkp.gen_ser(P).hex(), s), config)
        return P, r.b(1), "blinded", None
    # parsed generator with known discrete log k (so that b*G + v*H = infinity is constructible)
    k = rng.randrange(1, n) if kind == 3 else rng.choice((1, 2, n - 1, (n + 1) // 2))
    P = mulG(k)
    return P, gen_obj(ctx, config, P), "parsed_dlog", k

def wl_commit(ctx, config):
    rng = ctx.rng
    for it in ctx.iters(1800, 40000):
        H, Ho, lab, k = make_gen(ctx, config, rng)
        if Ho is None: continue
        b = pools.scalar(rng, 0.45); v = pools.u64(rng, 0.5)
        cls = lab
        if k is not None and it % 3 == 0:
            b = (-v * k) % n; cls = lab + ":infinity"      # b*G + v*k*G = infinity -> must fail
        want = zkp.commit(b, v, H)
        r = ctx.call("pedersen_commit", b32(b), v, Ho, config=config)
        if r is None: continue
        ctx.ev("pedersen_commit", cls + (":b_ge_n" if b >= n else ""), True, b32(b), v, zkp.gen_ser(H))
        if not ctx.check(r.ret == (1 if want else 0), "pedersen_commit:%s:%s" % ("b_ge_n" if b >= n else ("infinity" if want is None else "valid"), "accepted" if r.ret else "failed"), "b=%x v=%d gen=%s" % (b, v, zkp.gen_ser(H).hex()), config): continue
        if want:
            s = ctx.call("commitment_serialize", r.b(1), config=config)
            if s is None: continue
            ctx.check(s.b(1) == zkp.commit_ser(want), "pedersen_commit:wrong_point", "b=%x v=%d gen=%s want %s got %s" % (b, v, zkp.gen_ser(H).hex(), zkp.commit_ser(want).hex(), s.b(1).hex()), config)
            pr = ctx.call("commitment_parse", s.b(1), config=config)
            if pr is not None: ctx.check(pr.ret == 1 and pr.b(1)[:33] == r.b(1)[:33], "commitment_parse:roundtrip", s.b(1).hex(), config)

def wl_parsers(ctx, config):
    rng = ctx.rng
    xs = list(pools.FIELDS) + [mulG(rng.randrange(1, n))[0] for _ in range(6)] + [rng.randrange(p) for _ in range(6)]
    cases = [(pre, x) for pre in range(256) for x in (xs if pre in (8, 9, 10, 11) else xs[-4:] + [0, p])]
    for pre, x in ctx.mine(cases):
        s = bytes([pre]) + b32(x % 2**256)
        for op, model, ser_op, ser_model in (("generator_parse", zkp.gen_parse, "generator_serialize", zkp.gen_ser), ("commitment_parse", zkp.commit_parse, "commitment_serialize", zkp.commit_ser)):
            P = model(s)
            r = ctx.call(op, s, config=config)
            if r is None: continue
            ctx.ev(op, "prefix_ok" if pre in (8, 9, 10, 11) else "bad_prefix", P is not None or pre in (8, 9, 10, 11), s)
            if not ctx.check(r.ret == (1 if P else 0), "%s:%s" % (op, "accepted_noncanonical_or_off_curve" if r.ret else "rejected_valid"), s.hex(), config): continue
            if P:
                o = ctx.call(ser_op, r.b(1), config=config)
                if o is not None: ctx.check(o.ret == 1 and o.b(1) == s == ser_model(P), "%s:roundtrip" % ser_op, "%s -> %r" % (s.hex(), o), config)

def wl_one_sided(ctx, config):
    """tallies with one EMPTY side: they balance iff the other side alone sums to the point at infinity - possible with zero values and
    blinding factors summing to 0 mod n, or with non-zero values under a generator of known discrete log"""
    rng = ctx.rng
    for it in ctx.iters(40, 1000):
        k = rng.choice((1, 2, 2, 3, 5)); kind = it % 4
        h = rng.randrange(1, n); H = mulG(h) if kind >= 2 else zkp.generate(pools.rbytes(rng, 32))[1]
        go = ctx.call("generator_parse", zkp.gen_ser(H), config=config)
        if go is None or go.ret != 1: continue
        if kind >= 2: vals = [rng.randrange(1, 2**40) for _ in range(k)]
        else: vals = [0] * k
        bls = [rng.randrange(1, n) for _ in range(k)]
        tot = sum(bls) + (sum(v * h for v in vals) if kind >= 2 else 0)
        balanced = rng.random() < 0.6
        if balanced: bls[-1] = (bls[-1] - tot) % n
        if bls[-1] == 0 and vals[-1] == 0: continue
        objs = []; acc = None
        for v, b in zip(vals, bls):
            c = ctx.call("pedersen_commit", b32(b), v, go.b(1), config=config)
            if c is None or c.ret != 1: objs = None; break
            objs.append(c.b(1)); acc = add(acc, add(mulG(b), mul(v, H) if v else None))
        if not objs: continue
        for side in (0, 1):
            r = ctx.call("pedersen_verify_tally", b''.join(objs) if side == 0 else b'', k if side == 0 else 0, b''.join(objs) if side == 1 else b'', k if side == 1 else 0, config=config)
            if r is None: continue
            ctx.ev("pedersen_verify_tally", "one_sided:%s:%s" % ("pos" if side == 0 else "neg", "sum_infinity" if acc is None else "nonzero"), True, k, side, *[o[:33] for o in objs[:3]])
            ctx.check(r.ret == (1 if acc is None else 0), "pedersen_verify_tally:one_sided:%s" % ("accepted_unbalanced" if r.ret else "rejected_balanced"), "k=%d side=%d kind=%d" % (k, side, kind), config)

def wl_tally(ctx, config):
    rng = ctx.rng
    for it in ctx.iters(260, 6000):
        nassets = rng.randrange(1, 5)
        assets = []
        for a in range(nassets):
            seed = pools.rbytes(rng, 32); ok, P = zkp.generate(seed); assets.append((seed, P))
        npos = rng.choice((0, 1, 1, 2, 3, 8, 16, 32)); nneg = rng.choice((0, 1, 1, 2, 3, 8, 16, 32))
        if npos + nneg == 0: nneg = 0
        # items: (asset index, value, generator blind r, blinding factor r')
        def item(): return [rng.randrange(nassets), rng.choice((0, 1, 2**32, 2**62)) if rng.random() < 0.3 else rng.randrange(2**40), rng.randrange(n), rng.randrange(n)]
        ins = [item() for _ in range(nneg)]; outs = [item() for _ in range(npos)]
        # make the values balance per asset by adjusting/adding outputs
        bal = {}
        for a, v, _, _ in ins: bal[a] = bal.get(a, 0) + v
        for a, v, _, _ in outs: bal[a] = bal.get(a, 0) - v
        for a, dv in bal.items():
            side = outs if dv > 0 else ins; dv = abs(dv)
            while dv > 0:
                c = min(dv, 2**64 - 1); side.append([a, c, rng.randrange(n), rng.randrange(n)]); dv -= c
        balanced_values = True
        if not outs:
            if not ins:
                r = ctx.call("pedersen_verify_tally", b'', 0, b'', 0, config=config)
                if r is not None: ctx.ev("pedersen_verify_tally", "empty", True, 0); ctx.check(r.ret == 1, "pedersen_verify_tally:empty_lists", repr(r), config)
                continue
            outs.append([ins[0][0], 0, rng.randrange(n), rng.randrange(n)])
        allit = ins + outs; nt = len(allit); ni = len(ins)
        vals = b''.join(x[1].to_bytes(8, 'big') for x in allit); gbs = b''.join(b32(x[2]) for x in allit); bfs = b''.join(b32(x[3]) for x in allit)
        r = ctx.call("pedersen_bgbs", vals, gbs, bfs, nt, ni, config=config)
        if r is None: continue
        tot = 0
        for i, x in enumerate(allit):
            s = (x[1] * x[2] + x[3]) % n
            tot = (tot - s) % n if i < ni else (tot + s) % n
        want_last = (allit[-1][3] - tot) % n
        ctx.ev("pedersen_bgbs", "balance", True, vals, gbs, bfs, ni)
        if not ctx.check(r.ret == 1 and r.b(1) == b32(want_last), "pedersen_bgbs:wrong_factor", "want %x got %r" % (want_last, r), config): continue
        allit[-1][3] = want_last
        # commitments with blinded generators: C = r'*G + v*(A + r*G)
        objs = []; pts = []
        for a, v, gr, bf in allit:
            seed, A = assets[a]
            g = ctx.call("generator_generate_blinded", seed, b32(gr), config=config)
            c = ctx.call("pedersen_commit", b32(bf), v, g.b(1), config=config)
            Hb = add(A, mulG(gr)); P = add(mulG(bf), mul(v, Hb))
            if c is None or c.ret != 1: objs = None; break
            objs.append(c.b(1)); pts.append(P)
        if objs is None: continue
        def tally(pos_objs, neg_objs, pos_pts, neg_pts, cls):
            r = ctx.call("pedersen_verify_tally", b''.join(pos_objs) or b'', len(pos_objs), b''.join(neg_objs) or b'', len(neg_objs), config=config)
            if r is None: return
            acc = None
            for P in pos_pts: acc = add(acc, P)
            for P in neg_pts: acc = add(acc, neg(P))
            exp = acc is None
            ctx.ev("pedersen_verify_tally", cls, True, len(pos_objs), len(neg_objs), *[o[:33] for o in (pos_objs + neg_objs)[:4]])
            ctx.check(r.ret == (1 if exp else 0), "pedersen_verify_tally:%s:%s" % (cls, "accepted_unbalanced" if r.ret else "rejected_balanced"), "pos=%d neg=%d model=%s" % (len(pos_objs), len(neg_objs), exp), config)
            return exp
        e = tally(objs[ni:], objs[:ni], pts[ni:], pts[:ni], "balanced")
        ctx.check(e is True or e is None, "model:balanced_scenario_does_not_balance", "", config)
        # unbalance by one value unit / one blinding unit / swapped asset
        j = rng.randrange(nt); a, v, gr, bf = allit[j]; seed, A = assets[a]
        g = ctx.call("generator_generate_blinded", seed, b32(gr), config=config)
        for cls, v2, bf2, seed2 in (("value+1", (v + 1) % 2**64, bf, seed), ("blind+1", v, (bf + 1) % n, seed), ("other_asset", v, bf, pools.rbytes(rng, 32))):
            g2 = ctx.call("generator_generate_blinded", seed2, b32(gr), config=config)
            c = ctx.call("pedersen_commit", b32(bf2), v2, g2.b(1), config=config)
            if c is None or c.ret != 1: continue
            ok2, A2 = zkp.generate(seed2); P2 = add(mulG(bf2), mul(v2, add(A2, mulG(gr))))
            o2 = list(objs); p2 = list(pts); o2[j] = c.b(1); p2[j] = P2
            tally(o2[ni:], o2[:ni], p2[ni:], p2[:ni], "unbalanced:" + cls)
        # moving a commitment to the other side
        if nt >= 2: tally(objs[ni:] + objs[:1], objs[1:ni], pts[ni:] + pts[:1], pts[1:ni], "unbalanced:side_swapped")

def wl_blind_sum(ctx, config):
    rng = ctx.rng
    for it in ctx.iters(400, 10000):
        k = rng.randrange(0, 12); npos = rng.randrange(0, k + 1)
        bl = [pools.scalar(rng, 0.3) % n for _ in range(k)]
        bad = it % 4 == 0 and k > 0
        if bad: bl[rng.randrange(k)] = rng.choice((n, n + 1, 2**256 - 1))
        r = ctx.call("pedersen_blind_sum", b''.join(b32(x) for x in bl) or b'', k, npos, config=config)
        if r is None: continue
        ctx.ev("pedersen_blind_sum", "ge_n" if bad else "ok", True, k, npos, *[b32(x) for x in bl[:4]])
        if bad: ctx.check(r.ret == 0, "pedersen_blind_sum:b_ge_n_accepted", "", config)
        else:
            want = (sum(bl[:npos]) - sum(bl[npos:])) % n
            ctx.check(r.ret == 1 and r.b(1) == b32(want), "pedersen_blind_sum:wrong", "want %x got %r" % (want, r), config)
        # generator blind sum with an out-of-range factor must fail
        if it % 5 == 0:
            nt = rng.randrange(1, 6); ni = rng.randrange(0, nt)
            gbs = [rng.randrange(n) for _ in range(nt)]; bfs = [rng.randrange(n) for _ in range(nt)]
            which = rng.randrange(2); idx = rng.randrange(nt)
            (gbs if which else bfs)[idx] = rng.choice((n, n + 1, 2**256 - 1))
            r = ctx.call("pedersen_bgbs", b''.join(rng.randrange(2**64).to_bytes(8, 'big') for _ in range(nt)), b''.join(b32(x) for x in gbs), b''.join(b32(x) for x in bfs), nt, ni, config=config)
            if r is not None:
                ctx.ev("pedersen_bgbs", "ge_n", True, nt, ni, which, idx)
                ctx.check(r.ret == 0, "pedersen_bgbs:b_ge_n_accepted", "which=%d idx=%d" % (which, idx), config)

def run(ctx):
    for config in ctx.cfgs():
        wl_commit(ctx, config)
        wl_parsers(ctx, config)
        wl_tally(ctx, config)
        wl_one_sided(ctx, config)
        wl_blind_sum(ctx, config)
