"""C13 A MuSig secret nonce can sign at most once, whatever happens."""
import itertools
from ref.ec import *
from ref import pools, musig

ID = "C13"
LEVEL = "exploration"
CONFIGS = {"quick": ["san", "mx_noasm"], "thorough": ["san", "san_nv", "mx_noasm", "mx_i64"]}   # the wipe primitive is configuration-dependent (inline asm barrier / volatile memset)
RULE = ("every sequence (bounded depth, exhaustive) over an alphabet of nonce-generation and partial-signing calls - both entry points, valid and invalid "
        "arguments, correct / other / negated keypair, missing output, invalid key-aggregation cache, invalid session, missing keypair, caller-side copy - "
        "applied to a pool of two secret-nonce objects from several start states, plus long random histories; after every call the return value, the "
        "illegal-callback count, the bytes of the nonce object, the output and (on success) the signature value are compared with an abstract "
        "single-use automaton and a BIP-327 model; a ledger counts successful signatures per generated nonce. non-trivial = every step; "
        "distinct = distinct (history prefix, op)")
ASSUMPTIONS = ["caller-side byte copies of a live nonce start a new lineage in the ledger (the header makes copying the caller's responsibility)",
               "physical remnants of nonce material outside the object are not observed"]
ZERO = bytes(132)

class World:
    """fixed keys / cache / session shared by all histories of one shard"""
    def __init__(self, ctx, config):
        self.ctx = ctx; self.config = config; rng = ctx.rng
        self.d = [rng.randrange(1, n), rng.randrange(1, n)]
        self.d.append(n - self.d[0])                       # keypair with the negated first key (same x, other y)
        self.P = [mulG(x) for x in self.d]; self.pk33 = [ser33(P) for P in self.P]
        self.kp = [ctx.call("keypair_create", b32(x), config=config).b(1) for x in self.d]
        self.pko = [ctx.call("pubkey_parse", s, config=config).b(1) for s in self.pk33]
        r = ctx.call("musig_pubkey_agg", self.pko[0] + self.pko[1], 2, 1, 1, config=config); self.kac = r.b(2)
        self.K = musig.KeyAggCtx(self.pk33[:2])
        self.msg = pools.rbytes(rng, 32)
        # a fixed session from two fixed public nonces
        ka = [rng.randrange(1, n), rng.randrange(1, n)]; kb = [rng.randrange(1, n), rng.randrange(1, n)]
        pn = [ctx.call("musig_pubnonce_parse", musig.pubnonce(k), config=config).b(1) for k in (ka, kb)]
        an = ctx.call("musig_nonce_agg", pn[0] + pn[1], 2, config=config)
        R1, R2 = musig.nonce_agg([musig.parse_pubnonce(musig.pubnonce(k)) for k in (ka, kb)])
        self.S = musig.Session(R1, R2, self.K, self.msg)
        self.sess = ctx.call("musig_nonce_process", an.b(1), self.msg, self.kac, None, config=config).b(1)
        self.bad_kac = bytes([self.kac[0] ^ 0xFF]) + self.kac[1:]
        self.bad_sess = bytes([self.sess[0] ^ 0xFF]) + self.sess[1:]
        self.counter = 0
        self.ledger = {}

# alphabet: (name, slot, key index or None)
def alphabet():
    A = []
    for s in (0, 1):
        for k in (0, 1): A.append(("gen", s, k)); A.append(("gen_counter", s, k))
        A += [("gen_zero_rand", s, 0), ("gen_bad_seckey", s, 0), ("gen_null_pubnonce", s, 0), ("gen_bad_cache", s, 0), ("gen_counter_bad_keypair", s, 0)]
        for k in (0, 1, 2): A.append(("sign", s, k))
        A += [("sign_null_out", s, 0), ("sign_bad_cache", s, 0), ("sign_bad_session", s, 0), ("sign_null_keypair", s, 0)]
    A += [("copy", 0, 1), ("copy", 1, 0)]
    return A
ALPHA = alphabet()

class Obj:
    __slots__ = ("bytes", "live", "nid", "key", "ks")
    def __init__(self): self.bytes = ZERO; self.live = False; self.nid = None; self.key = None; self.ks = None

def step(W, objs, op, hist):
    """executes one op, checks it against the automaton; returns False if a mismatch was recorded"""
    ctx = W.ctx; config = W.config; name, s, k = op; o = objs[s]
    det = "history=%s step=%s" % (hist, op)
    def fail(key, extra=""):
        ctx.check(False, "history:%s:%s" % (name, key), det + " " + extra, config); return False
    ctx.ev("history_step", name + (":live" if o.live else ":zero"), True, tuple(hist), op)
    if name in ("gen", "gen_counter", "gen_zero_rand", "gen_bad_seckey", "gen_null_pubnonce", "gen_bad_cache", "gen_counter_bad_keypair"):
        W.counter += 1
        rand = sha(b"c13" + W.counter.to_bytes(8, 'big') + bytes([ctx.shard]))
        sk = b32(W.d[k]); cache = W.kac; want_pn = 1; ill = 0
        if name == "gen_zero_rand": rand = bytes(32)
        if name == "gen_bad_seckey": sk = b32(rand[0] % 2 * n)        # 0 or n
        if name == "gen_null_pubnonce": want_pn = 0; ill = 2
        if name == "gen_bad_cache": cache = W.bad_kac; ill = 2
        if name == "gen_counter_bad_keypair":
            # a keypair object whose public half is intact but whose secret half is not a valid scalar (0, n, n+1, 2^256-1): the
            # counter entry point must fail and leave the secret nonce zeroed like every other failure
            cnt = W.counter * 2**31 + ctx.shard
            bad = W.kp[k][:0] + b32((0, n, n + 1, 2**256 - 1)[W.counter % 4]) + W.kp[k][32:]
            r = ctx.call("musig_nonce_gen_counter", o.bytes, 1, cnt, bad, W.msg, cache, None, config=config, ill=1)
            ks = None
        elif name == "gen_counter":
            cnt = W.counter * 2**31 + ctx.shard
            r = ctx.call("musig_nonce_gen_counter", o.bytes, 1, cnt, W.kp[k], W.msg, cache, None, config=config, ill=ill)
            ks = musig.nonce_gen_counter(cnt, b32(W.d[k]), W.pk33[k], xbytes(W.K.Q), W.msg, None)
        else:
            # the optional arguments (secret key, message, key-aggregation cache, extra input) are present or absent in every
            # combination over a run, for successful generation and for the all-zero-randomness refusal alike
            sk_a, msg_a, cache_a, extra_a = sk, W.msg, cache, None
            if name in ("gen", "gen_zero_rand"):
                opt = W.counter % 16
                if opt & 1: sk_a = None
                if opt & 2: msg_a = None
                if opt & 4: cache_a = None
                if opt & 8: extra_a = sha(b"extra" + rand)
            r = ctx.call("musig_nonce_gen", o.bytes, want_pn, rand, sk_a, W.pko[k], msg_a, cache_a, extra_a, config=config, ill=ill)
            ks = musig.nonce_gen(rand, sk_a, W.pk33[k], xbytes(W.K.Q) if cache_a is not None else None, msg_a, extra_a)
        if r is None: return False
        ok_expected = name in ("gen", "gen_counter")
        if r.ret != (1 if ok_expected else 0): return fail("ret", repr(r))
        if ok_expected:
            if r.b(1) == ZERO: return fail("secnonce_zero_after_success")
            ps = ctx.call("musig_pubnonce_serialize", r.b(2), config=config)
            if ps is None or ps.b(1) != musig.pubnonce(ks): return fail("pubnonce_differs_from_model", repr(ps))
            if name == "gen" and r.b(3) != bytes(32): return fail("randomness_not_wiped", r.b(3).hex())
            o.bytes = r.b(1); o.live = True; o.key = k; o.ks = ks; o.nid = (ks[0], ks[1], W.counter); W.ledger.setdefault(o.nid, 0)
        else:
            if r.b(1) != ZERO: return fail("secnonce_not_zero_after_failure", r.b(1)[:40].hex())
            if name == "gen_zero_rand" and r.ill: return fail("callback_on_zero_randomness")
            o.bytes = ZERO; o.live = False
        return True
    if name == "copy":
        src = objs[s]; dst = objs[k]
        dst.bytes = src.bytes; dst.live = src.live; dst.key = src.key; dst.ks = src.ks
        dst.nid = (src.nid[0], src.nid[1], "copy%d" % W.counter) if src.live else None
        if dst.live: W.counter += 1; W.ledger.setdefault(dst.nid, 0)
        return True
    # ---- signing ops
    want_out = 1; kp = W.kp[k]; cache = W.kac; sess = W.sess
    if name == "sign_null_out": want_out = 0; kp = W.kp[o.key if o.live else 0]
    elif name == "sign_bad_cache": cache = W.bad_kac; kp = W.kp[o.key if o.live else 0]
    elif name == "sign_bad_session": sess = W.bad_sess; kp = W.kp[o.key if o.live else 0]
    elif name == "sign_null_keypair": kp = None
    succeed = name == "sign" and o.live and k == o.key
    r = ctx.call("musig_partial_sign", want_out, o.bytes, kp, cache, sess, config=config, ill=(0 if succeed else 2))
    if r is None: return False
    if r.b(2) != ZERO:
        return fail("secnonce_not_zero_after_partial_sign", "state=%s secnonce_after=%s" % ("live" if o.live else "zero", r.b(2)[:40].hex()))
    if r.ret != (1 if succeed else 0):
        return fail("ret", "expected %d (%s) got %r" % (succeed, "live key=%s" % o.key if o.live else "zero", r))
    if succeed:
        W.ledger[o.nid] += 1
        if W.ledger[o.nid] > 1: return fail("second_signature_from_one_nonce")
        pss = ctx.call("musig_partial_sig_serialize", r.b(1), config=config)
        want = W.S.partial_sign(o.ks, W.d[k], W.pk33[k])
        if pss is None or I(pss.b(1)) != want: return fail("signature_value", repr(pss))
    else:
        if want_out and r.b(1) != bytes([0xC5]) * 36: return fail("output_written_without_success", r.b(1).hex())
    o.bytes = ZERO; o.live = False; o.nid = None
    return True

def fresh(W, start):
    objs = [Obj(), Obj()]
    for op in start:
        if not step(W, objs, op, ["start"] + list(start)): return None
    return objs

STARTS = [(), (("gen", 0, 0),), (("gen", 0, 0), ("gen_counter", 1, 1)), (("gen", 0, 1), ("sign", 0, 1))]

def run_config(ctx, config):
    W = World(ctx, config); rng = ctx.rng
    starts = STARTS[:2] if ctx.quick else STARTS
    nh = 0
    # exhaustive enumeration, partitioned over the shards by the first two symbols (depth 4 = 34^4 histories per start: thorough tier,
    # first build, first two start states; depth 3 everywhere else)
    for si, start in enumerate(starts):
        depth = 4 if (not ctx.quick and config == ctx.configs[0] and si < 2) else 3
        firsts = list(itertools.product(range(len(ALPHA)), repeat=2))
        for (a, b) in ctx.mine(firsts):
            for rest in itertools.product(range(len(ALPHA)), repeat=depth - 2):
                seq = (a, b) + rest
                objs = fresh(W, start)
                if objs is None: return
                hist = []
                for x in seq:
                    hist.append(ALPHA[x])
                    if not step(W, objs, ALPHA[x], hist): break
                nh += 1
    ctx.count("exhaustive_histories_depth3_or_4", nh)
    # long random histories
    for it in ctx.iters(200, 20000):
        objs = [Obj(), Obj()]; hist = []
        for _ in range(50):
            op = rng.choice(ALPHA); hist.append(op)
            if not step(W, objs, op, hist[-8:]): break
    ctx.count("random_histories", ctx.n(200, 20000))
    ctx.count("nonces_generated", len(W.ledger)); ctx.count("nonces_signed_once", sum(1 for v in W.ledger.values() if v == 1))
    ctx.check(all(v <= 1 for v in W.ledger.values()), "ledger:nonce_signed_more_than_once", "", config)

def run(ctx):
    for config in ctx.cfgs():
        run_config(ctx, config)
