"""C05 Arithmetic and hashing kernel is mathematically exact on every configuration."""
import hashlib, hmac
from ref.ec import *
from ref import pools
from ref.hashes import Drbg

ID = "C05"
LEVEL = "exploration"
CONFIGS = {"quick": ["san", "mx_i64", "mx_i128s_nv", "mx_noasm", "mx_i64_nv"],
           "thorough": ["san", "san_nv", "mx_i64", "mx_i64_nv", "mx_i128s", "mx_i128s_nv", "mx_noasm", "mx_noasm_nv", "mx_clang", "mx_w2"] + ["mx_win%d" % w for w in range(3, 15)]}
RULE = ("internal field / scalar / int128 / group / scalar-multiplication / hash routines exposed by the shim, driven with edge-biased 256-bit operands "
        "(0, 1, p-1, p, n-1, n, 2^k, 2^k-1, limb-boundary patterns, lambda-split boundaries), every magnitude 1..32 each routine permits (two "
        "materialisations with near-maximal limbs), point pairs incl. P+P, P+(-P), P+infinity, the beta*x family, Jacobian rescalings, batch sizes "
        "0..300 with scratch NULL / small / Strauss / Pippenger, every message length 0..300 (sampled to 2^20) under random write chunkings; each "
        "result compared with Python big-integer / textbook group-law / hashlib models on every listed build; VERIFY magnitude assertions and "
        "sanitizers watch every call. non-trivial = every record; distinct = (config-independent op, operands)")
ASSUMPTIONS = ["32-bit limb code is exercised through USE_FORCE_WIDEMUL_INT64 on the 64-bit host (no 32-bit target can be built here)",
               "operand patterns outside the pools are sampled uniformly only"]

def fe_arg(v, m, mode): return (b32(v % 2**256), m, mode)
def rmag(rng, lo, hi): return rng.choice((lo, hi, hi, rng.randint(lo, hi)))
def rmode(rng, m): return 1 if (m >= 4 and rng.random() < 0.5) else 0

def steer(rng, M):
    """a target RESULT in the regions where the last folding / conditional-subtraction steps of a modular reduction do
    something (value before the final step in [M, 2^256 + 8c), c = 2^256 - M): operands are then derived from the target,
    which random or edge-valued operands reach with probability ~2^-127 only (seeded change C05-1)."""
    c = 2**256 - M; k = rng.randrange(6) % 5
    if k == 0: t = rng.randrange(0, 2 * c)      # value before the final step in [M, 2^256 + c): both final corrections active
    elif k == 1: t = rng.randrange(0, 9) * c + rng.choice((0, 1, -1, rng.randrange(2**20), -rng.randrange(2**20), rng.randrange(2**64), rng.randrange(min(c, 2**120))))
    elif k == 2: t = M - 1 - rng.choice((0, 1, rng.randrange(2**20), rng.randrange(8 * c)))
    elif k == 3: t = (1 << rng.randrange(257)) + rng.choice((0, -1, 1, rng.randrange(2**30)))
    else: t = rng.randrange(0, c) + rng.randrange(1, 5) * c
    return t % M

def wl_field(ctx, config, scale):
    rng = ctx.rng; V = ctx.sh(config)
    for it in range(int(ctx.n(6000, 120000) * scale)):
        a = pools.field(rng, 0.5); b = pools.field(rng, 0.5)
        if it % 7 == 0: a = steer(rng, p); a = a + p if (a + p < 2**256 and rng.random() < 0.4) else a     # operands themselves in the final-correction windows
        if it % 11 == 0: b = steer(rng, p); b = b + p if (b + p < 2**256 and rng.random() < 0.4) else b
        op = rng.choice(("normalize", "normalize_var", "normalize_weak", "normalizes_to_zero", "normalizes_to_zero_var", "is_zero", "is_odd", "negate", "mul_int", "add_int",
                         "sqr", "sqr_inplace", "inv", "inv_var", "sqrt", "is_square_var", "half", "storage", "add", "mul", "mul_inplace", "equal", "cmp_var", "cmov", "set_b32"))
        am = a % p; bm = b % p
        if op == "set_b32":
            r = ctx.call("fe_set_b32", b32(a), config=config)
            if r is None: continue
            ctx.ev("fe_set_b32", "ge_p" if a >= p else "lt_p", True, a)
            ctx.check(r.ret == (1 if a < p else 0) and (a >= p or I(r.b(1)) == a) and I(r.b(2)) == am, "fe_set_b32", "a=%x %r" % (a, r), config); continue
        if op in ("add", "mul", "mul_inplace", "equal", "cmp_var", "cmov"):
            if op == "add": ma = rmag(rng, 1, 31); mb = rmag(rng, 1, 32 - ma)
            elif op in ("mul", "mul_inplace"): ma = rmag(rng, 1, 8); mb = rmag(rng, 1, 8)
            elif op == "equal":
                # field.h documents magnitudes up to 1 and 31.  Before the repair fa6a6be (finding F4) the implementation formed (-a) + b at
                # magnitude 33: wrong answers with 32-bit limbs, an abort in VERIFY builds.  31 is now exercised on every configuration.
                ma = 1; mb = rmag(rng, 1, 31)
                x = rng.random()
                if x < 0.3: b = a if rng.random() < 0.5 else (am + p if am + p < 2**256 else am); bm = b % p
                elif x < 0.6: b = (am ^ (1 << rng.randrange(256))) if rng.random() < 0.6 else (am ^ (rng.getrandbits(26) << (26 * rng.randrange(10)))) & (2**256 - 1); bm = b % p
            elif op == "cmp_var": ma = rmag(rng, 1, 32); mb = rmag(rng, 1, 32)
            else: ma = rmag(rng, 1, 32); mb = rmag(rng, 1, 32)
            flag = rng.randrange(2)
            if op in ("add", "mul", "mul_inplace") and am and rng.random() < 0.3:
                t = steer(rng, p); bm = (t - am) % p if op == "add" else t * pow(am, -1, p) % p
                b = bm + p if (bm + p < 2**256 and rng.random() < 0.3) else bm
            r = ctx.call("fe2", op, *fe_arg(a, ma, rmode(rng, ma)), *fe_arg(b, mb, rmode(rng, mb)), flag, config=config)
            if r is None: continue
            ctx.ev("fe_" + op, "mag%d_%d" % (ma, mb), True, op, a, ma, b, mb, flag)
            ret, val = r.ret, I(r.b(1))
            if op == "add": ok = val == (am + bm) % p
            elif op in ("mul", "mul_inplace"): ok = val == am * bm % p
            elif op == "equal": ok = ret == (1 if am == bm else 0)
            elif op == "cmp_var": ok = ret == ((am > bm) - (am < bm))
            else: ok = val == (bm if flag else am)
            ctx.check(ok, "fe_%s:wrong_result" % op, "a=%x(m%d) b=%x(m%d) flag=%d -> %r" % (a, ma, b, mb, flag, r), config)
            continue
        k = 0
        if op in ("sqr", "sqr_inplace", "sqrt"): m = rmag(rng, 1, 8)
        elif op in ("negate", "half", "add_int"): m = rmag(rng, 1, 31)
        elif op == "mul_int": m = rmag(rng, 1, 32); k = rng.choice([x for x in (0, 1, 2, 3, 4, 8, 16, 32) if x * m <= 32])
        elif op in ("is_zero", "is_odd", "storage"): m = rmag(rng, 1, 32)
        else: m = rmag(rng, 1, 32)
        if op == "add_int": k = rng.choice((0, 1, 7, 0x7FFF, rng.randrange(0x8000)))
        if op in ("normalizes_to_zero", "normalizes_to_zero_var", "is_zero") and rng.random() < 0.5: a = rng.choice((0, p, 2 * p if 2 * p < 2**256 else p)); am = 0
        if op in ("sqrt", "is_square_var") and rng.random() < 0.5: t = pools.field(rng) % p; a = t * t % p; am = a
        if op in ("sqr", "sqr_inplace", "inv", "inv_var", "half", "negate") and rng.random() < 0.3:
            t = steer(rng, p)
            if op in ("sqr", "sqr_inplace"):
                while fsqrt(t) is None: t = steer(rng, p)
                am = fsqrt(t) if rng.random() < 0.5 else p - fsqrt(t)
            elif op in ("inv", "inv_var"): am = pow(t, -1, p) if t else 0
            elif op == "half": am = 2 * t % p
            else: am = (-t) % p
            a = am + p if (am + p < 2**256 and rng.random() < 0.3) else am
        r = ctx.call("fe1", op, *fe_arg(a, m, rmode(rng, m)), k, config=config)
        if r is None: continue
        ctx.ev("fe_" + op, "mag%d" % m, True, op, a, m, k)
        ret, val = r.ret, I(r.b(1))
        if op in ("normalize", "normalize_var", "normalize_weak", "storage"): ok = val == am
        elif op in ("normalizes_to_zero", "normalizes_to_zero_var", "is_zero"): ok = ret == (1 if am == 0 else 0)
        elif op == "is_odd": ok = ret == (am & 1)
        elif op == "negate": ok = val == (-am) % p
        elif op == "mul_int": ok = val == am * k % p
        elif op == "add_int": ok = val == (am + k) % p
        elif op in ("sqr", "sqr_inplace"): ok = val == am * am % p
        elif op in ("inv", "inv_var"): ok = val == (pow(am, -1, p) if am else 0)
        elif op == "sqrt":
            s = fsqrt(am); ok = ret == (1 if s is not None else 0) and (s is None or val * val % p == am)
            if s is not None: ok = ok and val == pow(am, (p + 1) // 4, p)
        elif op == "is_square_var": ok = ret == (1 if is_square(am) else 0)
        elif op == "half": ok = val == am * pow(2, -1, p) % p
        else: ok = False
        ctx.check(ok, "fe_%s:wrong_result" % op, "a=%x(m%d) k=%d -> %r" % (a, m, k, r), config)

def wl_scalar(ctx, config, scale):
    rng = ctx.rng
    ops = ("set_b32", "set_b32_seckey", "add", "cadd_bit", "mul", "sqr", "inverse", "inverse_var", "negate", "half", "is_high", "is_zero", "is_one", "is_even", "eq",
           "cond_negate", "cmov", "split_128", "split_lambda", "mul_shift_var", "get_bits_limb32", "get_bits_var", "set_u64")
    for it in range(int(ctx.n(5000, 100000) * scale)):
        op = rng.choice(ops); a = pools.scalar(rng, 0.55); b = pools.scalar(rng, 0.55); k1 = k2 = 0
        if it % 7 == 0: a = steer(rng, n); a = a + n if (a + n < 2**256 and rng.random() < 0.4) else a
        if it % 11 == 0: b = steer(rng, n); b = b + n if (b + n < 2**256 and rng.random() < 0.4) else b
        am = a % n; bm = b % n
        if op == "cadd_bit":
            k1 = rng.randrange(256); k2 = rng.randrange(2)
            if am + (k2 << k1) >= n: a = am = rng.randrange(0, max(1, n - (1 << k1))) if (1 << k1) < n else 0
            if am + (k2 << k1) >= n: continue
        elif op in ("cond_negate", "cmov"): k1 = rng.randrange(2)
        elif op == "mul_shift_var": k1 = rng.choice((256, 257, 272, 300, 384, 400, 500, 511, 512)) if rng.random() < 0.9 else rng.randrange(256, 513)
        elif op == "get_bits_limb32": k2 = rng.randrange(1, 33); lim = rng.randrange(8); k1 = 32 * lim + rng.randrange(0, 33 - k2)
        elif op == "get_bits_var": k2 = rng.randrange(1, 33); k1 = rng.randrange(0, 257 - k2)
        elif op == "set_u64": k1 = pools.u64(rng)
        elif op == "eq" and rng.random() < 0.7:
            # equal, or differing in exactly one bit / one 32-bit limb (an equality loop that skips a limb)
            k = rng.randrange(3); b = am if k == 0 else (am ^ (1 << rng.randrange(256)) if k == 1 else am ^ (rng.getrandbits(32) << (32 * rng.randrange(8))))
            a = am; bm = b % n
        elif op in ("mul", "add", "inverse", "inverse_var", "half", "negate") and am and rng.random() < (0.5 if op == "mul" else 0.3):
            t = steer(rng, n)
            if op == "mul": bm = t * pow(am, -1, n) % n; b = bm + n if (bm + n < 2**256 and rng.random() < 0.2) else bm
            elif op == "add": bm = (t - am) % n; b = bm
            elif op in ("inverse", "inverse_var"): am = pow(t, -1, n) if t else 0; a = am
            elif op == "half": am = 2 * t % n; a = am
            else: am = (-t) % n; a = am
        r = ctx.call("sc", op, b32(a), b32(b), k1, k2, config=config)
        if r is None: continue
        ctx.ev("scalar_" + op, "ge_n" if a >= n else "lt_n", True, op, a, b, k1, k2)
        ret = r.ret; v1 = I(r.b(1)); v2 = I(r.b(2))
        if op == "set_b32": ok = ret == (1 if a >= n else 0) and v1 == am
        elif op == "set_b32_seckey": ok = ret == (1 if 0 < a < n else 0) and (ret == 0 or v1 == a)
        elif op == "add": ok = v1 == (am + bm) % n and ret == (1 if am + bm >= n else 0)
        elif op == "cadd_bit": ok = v1 == am + (k2 << k1)
        elif op == "mul": ok = v1 == am * bm % n
        elif op == "sqr": ok = v1 == am * am % n
        elif op in ("inverse", "inverse_var"): ok = v1 == (pow(am, -1, n) if am else 0)
        elif op == "negate": ok = v1 == (-am) % n
        elif op == "half": ok = v1 == am * pow(2, -1, n) % n
        elif op == "is_high": ok = ret == (1 if am > HALF_N else 0)
        elif op == "is_zero": ok = ret == (am == 0)
        elif op == "is_one": ok = ret == (am == 1)
        elif op == "is_even": ok = ret == (1 - (am & 1))
        elif op == "eq": ok = ret == (1 if am == bm else 0)
        elif op == "cond_negate": ok = v1 == ((-am) % n if k1 else am) and ret == (-1 if k1 else 1)
        elif op == "cmov": ok = v1 == (bm if k1 else am)
        elif op == "split_128": ok = v1 == am & (2**128 - 1) and v2 == am >> 128
        elif op == "split_lambda":
            ok = (v1 + LAMBDA * v2) % n == am and min(v1, n - v1) < 2**128 and min(v2, n - v2) < 2**128
        elif op == "mul_shift_var": ok = v1 == ((am * bm) >> k1) + (((am * bm) >> (k1 - 1)) & 1)
        elif op in ("get_bits_limb32", "get_bits_var"): ok = (ret & 0xFFFFFFFF) == (am >> k1) & ((1 << k2) - 1)
        elif op == "set_u64": ok = v1 == k1
        else: ok = False
        ctx.check(ok, "scalar_%s:wrong_result" % op, "a=%x b=%x k1=%d k2=%d -> %r" % (a, b, k1, k2, r), config)

def wl_reduce(ctx, config, scale):
    """products and squares whose RESULT is steered into the final-correction regions, in bulk (cheap calls)"""
    rng = ctx.rng
    for it in range(int(ctx.n(4000, 60000) * scale)):
        if it % 2 == 0:
            t = steer(rng, n); a = pools.scalar(rng, 0.2) % n or 1; b = t * pow(a, -1, n) % n
            if it % 8 == 0: a, b = b, a
            r = ctx.call("sc", "mul", b32(a), b32(b), 0, 0, config=config)
            if r is None: continue
            ctx.ev("scalar_mul", "steered", True, "mul", a, b)
            ctx.check(I(r.b(1)) == t, "scalar_mul:wrong_result", "steered a=%x b=%x want=%x got=%x" % (a, b, t, I(r.b(1))), config)
        else:
            t = steer(rng, p); a = pools.field(rng, 0.2) % p or 1; b = t * pow(a, -1, p) % p
            ma = rmag(rng, 1, 8); mb = rmag(rng, 1, 8); op = "mul" if it % 4 == 1 else "mul_inplace"
            r = ctx.call("fe2", op, *fe_arg(a, ma, rmode(rng, ma)), *fe_arg(b, mb, rmode(rng, mb)), 0, config=config)
            if r is None: continue
            ctx.ev("fe_" + op, "steered", True, op, a, ma, b, mb)
            ctx.check(I(r.b(1)) == t, "fe_%s:wrong_result" % op, "steered a=%x(m%d) b=%x(m%d) want=%x got=%x" % (a, ma, b, mb, t, I(r.b(1))), config)

def s64(x): return x - 2**64 if x >= 2**63 else x
def wl_int128(ctx, config, scale):
    rng = ctx.rng
    probe = ctx.call("i128", "u_mul", 1, 1, 0, 0, 0, config=config)
    if probe is None or probe.t[0] == "unsupported":
        ctx.count("int128_not_compiled_in_" + config); return
    M = 2**64
    for it in range(int(ctx.n(3000, 60000) * scale)):
        a, b, c, d = (pools.u64(rng, 0.6) for _ in range(4)); nn = rng.randrange(0, 128)
        op = rng.choice(("u_mul", "u_accum_mul", "u_accum_u64", "u_rshift", "u_check_bits", "i_mul", "i_accum_mul", "i_det", "i_rshift", "i_check_pow2", "i_eq_var"))
        sa, sb, sc_, sd = s64(a), s64(b), s64(c), s64(d)
        if op == "u_accum_mul":
            if (c << 64 | d) + a * b >= 2**128: c = 0
        if op == "u_accum_u64":
            if (c << 64 | d) + a >= 2**128: c = 0
        if op == "i_accum_mul":
            cur = (sc_ << 64) | d
            if not -2**127 <= cur + sa * sb < 2**127: c = 0; sc_ = 0
        if op == "i_det":
            if not -2**127 <= sa * sd - sb * sc_ < 2**127: a = sa = 1;
            if not -2**127 <= sa * sd - sb * sc_ < 2**127: continue
        if op == "i_mul" and sa * sb >= 2**127: continue     # only (-2^63)^2
        if op == "i_check_pow2": nn = rng.randrange(0, 127); a = rng.choice((1, M - 1))
        r = ctx.call("i128", op, a, b, c, d, nn, config=config)
        if r is None: continue
        ctx.ev("int128_" + op, "edge", True, op, a, b, c, d, nn)
        hi, lo = r.i(0), r.i(1)
        def u(x): return ((x >> 64) & (M - 1), x & (M - 1))
        if op == "u_mul": ok = (hi, lo) == u(a * b)
        elif op == "u_accum_mul": ok = (hi, lo) == u((c << 64 | d) + a * b)
        elif op == "u_accum_u64": ok = (hi, lo) == u((c << 64 | d) + a)
        elif op == "u_rshift": ok = (hi, lo) == u((c << 64 | d) >> nn)
        elif op == "u_check_bits": ok = hi == (1 if (c << 64 | d) < (1 << nn) else 0)
        elif op == "i_mul": ok = (hi, lo) == u((sa * sb) % 2**128)
        elif op == "i_accum_mul": ok = (hi, lo) == u((((sc_ << 64) | d) + sa * sb) % 2**128)
        elif op == "i_det": ok = (hi, lo) == u((sa * sd - sb * sc_) % 2**128)
        elif op == "i_rshift": ok = (hi, lo) == u((((sc_ << 64) | d) >> nn) % 2**128)
        elif op == "i_check_pow2": ok = hi == (1 if ((sc_ << 64) | d) == s64(a) * (1 << nn) else 0)
        elif op == "i_eq_var": ok = hi == (1 if ((sa << 64) | b) == ((sc_ << 64) | d) else 0)
        else: ok = False
        ctx.check(ok, "int128_%s:wrong_result" % op, "a=%d b=%d c=%d d=%d n=%d -> %r" % (a, b, c, d, nn, r), config)

def pext(P): return bytes(33) if P is None else ser33(P)
def pdec(b): return None if b == bytes(33) else parse_pubkey(b)
def rpoint(rng, allow_inf=True):
    k = rng.randrange(12)
    if k == 0 and allow_inf: return None
    if k == 1: return G
    if k == 2: return mulG(rng.choice((2, 3, n - 1, n - 2, (n - 1) // 2)))
    return mulG(rng.randrange(1, n))
def related(rng, P):
    """a point in a special relation to P: P, -P, beta family, infinity, random"""
    if P is None: return rpoint(rng)
    k = rng.randrange(8)
    if k == 0: return P
    if k == 1: return neg(P)
    if k == 2: return (P[0] * BETA % p, P[1])
    if k == 3: return (P[0] * BETA % p, (-P[1]) % p)
    if k == 4: return (P[0] * BETA * BETA % p, P[1])
    if k == 5: return None
    return rpoint(rng)
def rz(rng):
    return b32(rng.choice((1, 1, 2, p - 1, rng.randrange(1, p), pools.field(rng) % p or 1)))

def wl_group(ctx, config, scale):
    rng = ctx.rng
    ops = ("double", "double_var", "add_var", "add_ge", "add_ge_var", "add_zinv_var", "set_gej", "set_gej_var", "eq_var", "eq_ge_var", "ge_eq_var", "eq_x_var", "neg", "ge_neg",
           "mul_lambda", "cmov", "is_valid_var", "is_infinity", "subgroup", "storage", "bytes", "bytes_ext")
    for it in range(int(ctx.n(5000, 100000) * scale)):
        op = rng.choice(ops); A = rpoint(rng); B = related(rng, A)
        if op == "add_ge" and B is None: B = rpoint(rng, False)
        if op in ("eq_x_var", "mul_lambda", "storage", "bytes") and A is None: A = rpoint(rng, False)
        flag = rng.randrange(2); extra = b32(1)
        if op == "eq_x_var":
            extra = b32(A[0]) if rng.random() < 0.5 else b32(pools.field(rng) % p)
        if op == "add_zinv_var": extra = rz(rng)
        r = ctx.call("grp", op, pext(A), rz(rng), pext(B), rz(rng), extra, flag, config=config)
        if r is None: continue
        rel = "inf" if A is None or B is None else ("same" if A == B else ("neg" if A == neg(B) else ("samex_beta" if A[1] in (B[1], (-B[1]) % p) else "generic")))
        ctx.ev("group_" + op, rel, True, op, pext(A), pext(B), extra, flag)
        ret = r.ret; out = r.b(1) if len(r.t) > 1 and r.t[1] not in ("-",) else None
        P = pdec(out) if out is not None else None
        if op in ("double", "double_var"): ok = P == add(A, A)
        elif op in ("add_var", "add_ge", "add_ge_var", "add_zinv_var"): ok = P == add(A, B)
        elif op in ("set_gej", "set_gej_var", "storage", "bytes", "bytes_ext"): ok = P == A
        elif op in ("eq_var", "eq_ge_var", "ge_eq_var"): ok = ret == (1 if A == B else 0)
        elif op == "eq_x_var": ok = ret == (1 if I(extra) == A[0] else 0)
        elif op in ("neg", "ge_neg"): ok = P == neg(A)
        elif op == "mul_lambda": ok = P == (A[0] * BETA % p, A[1]) and P == mul(LAMBDA, A)
        elif op == "cmov": ok = P == (B if flag else A)
        elif op == "is_valid_var": ok = ret == (1 if A is not None else 0)
        elif op == "is_infinity": ok = ret == (1 if A is None else 0)
        elif op == "subgroup": ok = ret == 1
        else: ok = False
        ctx.check(ok, "group_%s:wrong_result" % op, "A=%s B=%s flag=%d extra=%s -> %r" % (pext(A).hex(), pext(B).hex(), flag, extra.hex(), r), config)
    for it in range(int(ctx.n(1500, 30000) * scale)):
        x = pools.field(rng, 0.4) if it % 2 else mulG(rng.randrange(1, n))[0]
        mode = rng.randrange(4); odd = rng.randrange(2); d = pools.field(rng, 0.3) % p or 1
        r = ctx.call("ge_set_x", b32(x), mode, odd, b32(d), config=config)
        if r is None: continue
        ctx.ev("group_set_x", "mode%d" % mode, True, x, mode, odd, d)
        xm = x % p
        if mode == 0:
            P = decompress(xm, odd); ok = r.ret == (1 if P else 0) and (P is None or pdec(r.b(1)) == P)
        elif mode == 1:
            y = fsqrt((xm ** 3 + 7) % p)
            if y is not None and not is_square(y): y = p - y
            ok = r.ret == (1 if y is not None else 0) and (y is None or pdec(r.b(1)) == (xm, y))
        elif mode == 2: ok = r.ret == (1 if fsqrt((xm ** 3 + 7) % p) is not None else 0)
        else:
            xx = xm * pow(d, -1, p) % p; ok = r.ret == (1 if fsqrt((xx ** 3 + 7) % p) is not None else 0)
        ctx.check(ok, "group_set_x:mode%d:wrong_result" % mode, "x=%x odd=%d d=%x -> %r" % (x, odd, d, r), config)
    for it in range(int(ctx.n(150, 3000) * scale)):
        k = rng.choice((0, 1, 2, 3, 8, 33)); pts = [rpoint(rng) for _ in range(k)]; var = rng.randrange(2)
        if not var: pts = [P if P is not None else rpoint(rng, False) for P in pts]       # the constant-time batch conversion requires finite points
        r = ctx.call("set_all_gej", var, b''.join(pext(P) for P in pts) or b'', b''.join(rz(rng) for _ in pts) or b'', k, config=config)
        if r is None: continue
        ctx.ev("group_set_all_gej", "var%d" % var, True, var, k, *[pext(P) for P in pts[:4]])
        ctx.check([pdec(r.b(1 + i)) for i in range(k)] == pts, "group_set_all_gej:wrong_result", "k=%d var=%d" % (k, var), config)

def wl_ecmult(ctx, config, scale):
    rng = ctx.rng
    def rs(): return pools.scalar(rng, 0.5)
    for it in range(int(ctx.n(2500, 50000) * scale)):
        kind = it % 4
        if kind == 0:
            A = rpoint(rng); na = rs(); ng = rs() if rng.random() < 0.7 else None
            r = ctx.call("ecmult", pext(A), rz(rng), b32(na), b32(ng) if ng is not None else None, config=config)
            if r is None: continue
            ctx.ev("ecmult", "ng%d" % (ng is not None), True, pext(A), na, ng)
            want = add(mul(na % n, A), mulG((ng or 0) % n))
            ctx.check(pdec(r.b(0)) == want, "ecmult:wrong_result", "A=%s na=%x ng=%s" % (pext(A).hex(), na, ng), config)
        elif kind == 1:
            k = rs(); c = rng.choice((None, None, 1))
            r = ctx.call("ecmult_gen", b32(k), config=config, c=None)
            if r is None: continue
            ctx.ev("ecmult_gen", "pool", True, k)
            ctx.check(pdec(r.b(0)) == mulG(k % n), "ecmult_gen:wrong_result", "k=%x" % k, config)
        elif kind == 2:
            A = rpoint(rng); q = rs()
            r = ctx.call("ecmult_const", pext(A), b32(q), config=config)
            if r is None: continue
            ctx.ev("ecmult_const", "inf" if A is None else "pt", True, pext(A), q)
            ctx.check(pdec(r.b(0)) == mul(q % n, A), "ecmult_const:wrong_result", "A=%s q=%x" % (pext(A).hex(), q), config)
        else:
            q = rs() % n or 1; d = pools.field(rng, 0.3) % p or 1; usefrac = rng.random() < 0.6; known = rng.randrange(2)
            if known or rng.random() < 0.6: x = mulG(rng.randrange(1, n))[0]
            else: x = pools.field(rng, 0.3) % p
            num = x * d % p if usefrac else x
            on = lift_x(x) is not None
            if known and not on: continue
            r = ctx.call("ecmult_const_xonly", b32(num), b32(d) if usefrac else None, b32(q), known, config=config)
            if r is None: continue
            ctx.ev("ecmult_const_xonly", "frac%d:known%d:%s" % (usefrac, known, "on" if on else "off"), True, num, d, q, known)
            if on:
                want = mul(q, lift_x(x))[0]
                ctx.check(r.ret == 1 and I(r.b(1)) == want, "ecmult_const_xonly:wrong_result", "x=%x d=%x q=%x known=%d -> %r" % (x, d, q, known, r), config)
            else:
                ctx.check(r.ret == 0, "ecmult_const_xonly:off_curve_accepted", "x=%x" % x, config)
    # randomized context: fixed-base multiplication must not change
    rr = ctx.call("ctx_create", 1, config=config)
    if rr is not None:
        slot = rr.i(0)
        for it in range(int(ctx.n(300, 6000) * scale)):
            if it % 10 == 0: ctx.call("ctx_randomize", rng.choice((None, bytes(32), pools.rbytes(rng, 32), b32(pools.scalar(rng)))), config=config, c=slot)
            k = rs()
            r = ctx.call("ecmult_gen", b32(k), config=config, c=slot)
            if r is None: continue
            ctx.ev("ecmult_gen", "blinded_ctx", True, k, it // 10)
            ctx.check(pdec(r.b(0)) == mulG(k % n), "ecmult_gen:blinded:wrong_result", "k=%x" % k, config)
        ctx.call("ctx_destroy", slot, config=config)
    # multi-scalar multiplication: batch sizes, scratch sizes, algorithms
    sizes = [0, 1, 2, 3, 5, 8, 16, 32, 87, 88, 89, 100, 150, 300]
    for it in range(int(ctx.n(90, 1500) * scale)):
        k = rng.choice(sizes) if rng.random() < 0.8 else rng.randrange(0, 301)
        if ctx.quick and k > 100 and rng.random() < 0.6: k = rng.choice((87, 88, 89))
        base = [rpoint(rng) for _ in range(min(k, 6) or 1)]
        pts = []; scs = []
        for i in range(k):
            P = rng.choice(base) if rng.random() < 0.7 else rpoint(rng)
            if rng.random() < 0.1 and pts: P = neg(pts[-1]) if pts[-1] else None
            pts.append(P); scs.append(rng.choice((0, 1, n - 1, rs())) if rng.random() < 0.4 else rs())
        if rng.random() < 0.1 and len(pts) >= 2: scs[1] = scs[0]; pts[1] = neg(pts[0]) if pts[0] else None
        g = rs() if rng.random() < 0.6 else None
        algo = rng.choice((0, 0, 0, 1, 2, 3))
        ss = rng.choice((0, 100, 1000, 5000, 50000, 1 << 20, 1 << 22)) if algo == 0 else ((1 << 22) if algo in (1, 2) else 0)
        r = ctx.call("ecmult_multi", algo, ss, b''.join(b32(x) for x in scs) or b'', b''.join(pext(P) for P in pts) or b'', k, b32(g) if g is not None else None, config=config)
        if r is None: continue
        ctx.ev("ecmult_multi", "algo%d:n%s:scratch%s" % (algo, "0" if k == 0 else ("<88" if k < 88 else ">=88"), "0" if ss == 0 else ("small" if ss < 50000 else "big")), True, algo, ss, k, g, *scs[:4], *[pext(P) for P in pts[:4]])
        want = mulG((g or 0) % n)
        acc = {}
        for x, P in zip(scs, pts):
            if P is None: continue
            acc[P] = (acc.get(P, 0) + x) % n
        for P, x in acc.items(): want = add(want, mul(x, P))
        if r.ret == 0:
            ctx.count("ecmult_multi_refused"); ctx.check(algo in (1, 2), "ecmult_multi:refused", "algo=%d scratch=%d n=%d" % (algo, ss, k), config); continue
        ctx.check(pdec(r.b(1)) == want, "ecmult_multi:wrong_result", "algo=%d scratch=%d n=%d" % (algo, ss, k), config)

def wl_scratch_sweep(ctx, config, scale):
    """ecmult_multi_var with EVERY scratch size on a 4-byte grid from 0 past the size that holds all points (batch-size arithmetic:
    points per batch, array alignment, fallback to the scratch-less algorithm): always the exact result, never a refusal"""
    rng = ctx.rng
    for k in (3, 6) if ctx.quick else (2, 3, 5, 6, 7, 9, 13):
        pts = [rpoint(rng, allow_inf=False) for _ in range(k)]; scs = [pools.scalar(rng, 0.3) % n for _ in range(k)]; g = pools.scalar(rng, 0.3) % n
        want = mulG(g)
        for x, P in zip(scs, pts): want = add(want, mul(x, P))
        sb = b''.join(b32(x) for x in scs); pb = b''.join(pext(P) for P in pts)
        sizes = list(range(0, (k + 2) * 1800, 4))
        per = (len(sizes) + ctx.nshards - 1) // ctx.nshards
        mine = sizes[ctx.shard * per:(ctx.shard + 1) * per]
        if scale < 1: mine = mine[::3]
        for ss in mine:
            r = ctx.call("ecmult_multi", 0, ss, sb, pb, k, b32(g), config=config)
            if r is None: break
            ctx.ev("ecmult_multi", "scratch_sweep:n%d" % k, True, k, ss, sb[:32])
            if not ctx.check(r.ret == 1 and pdec(r.b(1)) == want, "ecmult_multi:scratch_sweep:%s" % ("wrong_result" if r.ret else "refused"), "n=%d scratch=%d %r" % (k, ss, r), config): break

TAGS = ["BIP0340/nonce", "BIP0340/aux", "BIP0340/challenge", "s2c/ecdsa/point", "s2c/ecdsa/data", "Bulletproofs_pp/v0/commitment", "ECDSAadaptor/non", "ECDSAadaptor/aux", "DLEQ",
        "HalfAgg/randomizer", "MuSig/aux", "MuSig/nonce", "MuSig/noncecoef", "KeyAgg_list", "KeyAgg_coefficient", "secp256k1_ellswift_encode", "secp256k1_ellswift_create",
        "bip324_ellswift_xonly_ecdh", "some/other/tag"]
def chunking(rng, L):
    if L == 0: return rng.choice(("", "0", "0,0"))
    mode = rng.randrange(5)
    if mode == 0: return ""
    parts = []; left = L
    while left > 0:
        c = rng.choice((0, 1, 55, 56, 63, 64, 65, 119, 128, rng.randrange(0, left + 1))) if mode != 1 else rng.randrange(1, 4)
        c = min(c, left); parts.append(c); left -= c
        if len(parts) > 200: parts.append(left); break
    return ",".join(str(x) for x in parts)

def wl_hash(ctx, config, scale):
    rng = ctx.rng
    lens = list(ctx.mine(range(0, 301))) + list(ctx.mine([301, 511, 512, 513, 1000, 4095, 4096, 4097, 65535, 65536, 100000, 1 << 20]))
    if scale < 1: lens = lens[::4]
    for L in lens:
        if ctx.quick and L > 100000 and config != ctx.configs[0]: continue
        data = pools.rbytes(rng, L)
        for rep in range(2 if L <= 300 else 1):
            ch = chunking(rng, L)
            r = ctx.call("sha256", data or b'', ch, config=config)
            if r is None: continue
            ctx.ev("sha256", "len<=300" if L <= 300 else "len>300", True, data[:64], L, ch[:60])
            ctx.check(r.b(0) == hashlib.sha256(data).digest(), "sha256:wrong_digest", "len=%d chunks=%s" % (L, ch[:80]), config)
        if L <= 200 or L in (512, 4096):
            key = pools.rbytes(rng, rng.choice((0, 1, 32, 63, 64, 65, 100, 200)))
            ch = chunking(rng, L)
            r = ctx.call("hmac", key or b'', data or b'', ch, config=config)
            if r is not None:
                ctx.ev("hmac_sha256", "keylen%d" % len(key), True, key, data[:64], L, ch[:60])
                ctx.check(r.b(0) == hmac.new(key, data, 'sha256').digest(), "hmac:wrong_digest", "keylen=%d len=%d" % (len(key), L), config)
    for it in range(int(ctx.n(200, 4000) * scale)):
        key = pools.rbytes(rng, rng.choice((0, 32, 64, 96, 112, rng.randrange(0, 200))))
        outs = [rng.choice((32, 32, 1, 31, 33, 64, 100, 0)) for _ in range(rng.randrange(1, 5))]
        r = ctx.call("rfc6979", key or b'', ",".join(str(x) for x in outs), config=config)
        if r is None: continue
        d = Drbg(key); want = [d.gen(x) for x in outs]
        ctx.ev("rfc6979_hmac_sha256", "generate", True, key, tuple(outs))
        ctx.check([(r.b(i) or b'') for i in range(len(outs))] == want, "rfc6979:wrong_output", "keylen=%d outs=%s" % (len(key), outs), config)
    for tag in ctx.mine(TAGS):
        for L in (0, 1, 32, 64, 65, 200):
            m = pools.rbytes(rng, L)
            r = ctx.call("midstate", tag, m or b'', config=config)
            if r is None: continue
            t = tag.replace("_", " ") if tag.startswith("KeyAgg") else tag
            ctx.ev("tagged_midstate", tag, True, tag, m)
            ctx.check(r.b(0) == tagged(t, m), "tagged_hash_midstate:%s:wrong" % tag, "len=%d" % L, config)

def run(ctx):
    for i, config in enumerate(ctx.configs):
        if config.startswith("mx_win"):
            # window-size sweep: only the routines that use the precomputed odd-multiples tables
            wl_ecmult(ctx, config, 0.12); continue
        scale = 1.0 if i == 0 else (0.35 if ctx.quick else 0.5)
        wl_field(ctx, config, scale); wl_scalar(ctx, config, scale); wl_reduce(ctx, config, scale); wl_int128(ctx, config, scale)
        wl_group(ctx, config, scale); wl_ecmult(ctx, config, scale); wl_scratch_sweep(ctx, config, scale); wl_hash(ctx, config, scale)
