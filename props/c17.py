"""C17 Schnorr half-aggregation is complete, incremental-consistent and exact."""
import itertools
from ref.ec import *
from ref import pools, schnorr, halfagg

ID = "C17"
LEVEL = "exploration"
CONFIGS = {"quick": ["san", "san_nv", "mx_i64"], "thorough": ["san", "san_nv", "mx_i64"]}
EXTRA_BUILDS = ["sg13", "sg199"]
RULE = ("n = 0..64 honest BIP-340 signatures: one-shot aggregate compared byte for byte with the draft's formula and accepted by aggverify; every "
        "composition n = n1+...+nk of incremental aggregation for n <= 8 (sampled above) must give identical bytes; buffer lengths 0..32(n+2); "
        "aggverify on honest aggregates and mutations (bit flips, r_i >= p / off-curve, s >= n, length not a multiple of 32, length for n+-1, keys / "
        "messages reordered or altered, one inner signature altered) compared with a model of the verification equation. non-trivial = model accepts "
        "or one mutation from accepted; distinct = (op, inputs)")
ASSUMPTIONS = ["ref/halfagg.py transcribes the half-aggregation draft; ref/schnorr.py BIP-340", "s+n re-encodings of a valid aggregate are decided only in the small-group build (see the sg workload)"]

def compositions(k):
    """all ordered compositions of k"""
    if k == 0: yield (); return
    for bits in range(1 << (k - 1)):
        parts = []; cur = 1
        for i in range(k - 1):
            if bits >> i & 1: parts.append(cur); cur = 1
            else: cur += 1
        parts.append(cur); yield tuple(parts)

class Batch:
    def __init__(self, ctx, config, k, rng):
        self.sk = [pools.valid_seckey(rng, 0.1) for _ in range(k)]
        self.P = [mulG(d) for d in self.sk]; self.pk = [xbytes(P) for P in self.P]
        self.msg = [pools.msg32(rng, 0.2) for _ in range(k)]
        self.sig = [schnorr.sign(b32(d), m, pools.rbytes(rng, 32)) for d, m in zip(self.sk, self.msg)]
        self.obj = []
        for x in self.pk:
            r = ctx.call("xonly_parse", x, config=config); self.obj.append(r.b(1))
        self.k = k

def lib_agg(ctx, config, B, parts, buflen=None):
    """incremental aggregation following the composition `parts`; returns final bytes or None"""
    k = B.k; buflen = 32 * (k + 1) if buflen is None else buflen
    objs = b''.join(B.obj); msgs = b''.join(B.msg)
    agg = b''; done = 0
    for pn in (parts or (0,)):
        r = ctx.call("halfagg_inc", agg, buflen, buflen, objs[:64 * (done + pn)] or b'', msgs[:32 * (done + pn)] or b'', b''.join(B.sig[done:done + pn]) or b'', done, pn, config=config)
        if r is None or r.ret != 1: return None
        agg = r.b(2)[:r.i(1)]; done += pn
    return agg

def vcase(ctx, config, pks, objs, msgs, agg, cls, nontrivial=True):
    exp = halfagg.verify(pks, msgs, agg)
    v = ctx.call("halfagg_verify", b''.join(objs) or b'', b''.join(msgs) or b'', len(pks), agg, config=config)
    if v is None: return
    ctx.ev("halfagg_verify", cls, nontrivial, len(pks), agg, *pks[:3], *msgs[:3])
    ctx.check(v.ret == (1 if exp else 0), "halfagg_verify:%s:%s" % (cls, "accepted_invalid" if v.ret else "rejected_valid"), "n=%d agg=%s.. model=%s lib=%d" % (len(pks), agg[:96].hex(), exp, v.ret), config)

def wl(ctx, config):
    rng = ctx.rng
    ks = list(range(0, 9)) + [9, 15, 16, 17, 31, 32, 33, 63, 64] + [rng.randrange(10, 64) for _ in range(2 if ctx.quick else 10)]
    reps = 6 if ctx.quick else 40
    for k in ctx.mine(ks * reps):
        B = Batch(ctx, config, k, rng)
        want = halfagg.aggregate(B.pk, B.msg, B.sig)
        r = ctx.call("halfagg_aggregate", b''.join(B.obj) or b'', b''.join(B.msg) or b'', b''.join(B.sig) or b'', k, 32 * (k + 1), config=config)
        if r is None: continue
        ctx.ev("halfagg_aggregate", "oneshot:n%s" % ("<=8" if k <= 8 else ">8"), True, k, *B.sig[:3])
        if not ctx.check(r.ret == 1 and r.i(1) == 32 * (k + 1) and r.b(2) == want, "halfagg_aggregate:bytes", "n=%d want %s got %r" % (k, want[:64].hex(), r), config): continue
        agg = r.b(2)
        vcase(ctx, config, B.pk, B.obj, B.msg, agg, "honest")
        # incremental schedules
        comps = list(compositions(k)) if k <= 8 else [tuple([1] * k), (k - 1, 1), (1, k - 1), (k // 2, k - k // 2)] + [tuple(_rand_comp(rng, k)) for _ in range(4)]
        for parts in comps:
            got = lib_agg(ctx, config, B, parts)
            ctx.ev("halfagg_inc", "composition:n%s" % ("<=8" if k <= 8 else ">8"), True, k, parts, agg)
            ctx.check(got == agg, "halfagg_inc:composition_differs_from_oneshot", "n=%d parts=%s want %s got %s" % (k, parts, agg[-32:].hex(), got[-32:].hex() if got else None), config)
        # schedules with EMPTY parts: n_new = 0 with the new-signature array passed as NULL (allowed by the header) or as an empty non-NULL
        # array, at the start, in the middle and at the end; the bytes stay those of the one-shot aggregate
        if 1 <= k <= 12:
            buflen = 32 * (k + 1); objs = b''.join(B.obj); msgs = b''.join(B.msg); n1 = rng.randrange(0, k + 1)
            cur = b''; done = 0; okz = True
            for part, nul in ((0, True), (n1, False), (0, True), (0, False), (k - n1, False), (0, True)):
                sg = None if (part == 0 and nul) else (b''.join(B.sig[done:done + part]) or b'')
                rz = ctx.call("halfagg_inc", cur, buflen, buflen, objs[:64 * (done + part)] or b'', msgs[:32 * (done + part)] or b'', sg, done, part, config=config)
                if rz is None: okz = None; break
                if rz.ret != 1: okz = False; break
                cur = rz.b(2)[:rz.i(1)]; done += part
            if okz is not None:
                ctx.ev("halfagg_inc", "schedule_with_empty_parts", True, k, n1, agg)
                ctx.check(okz and cur == agg, "halfagg_inc:schedule_with_empty_parts:%s" % ("differs_from_oneshot" if okz else "refused"), "n=%d n1=%d" % (k, n1), config)
        # a refused incremental step in the middle of a schedule (one of the NEW keys, not the first, is a zeroed x-only key object; also a
        # too-small buffer), then the same step again with valid arguments on the buffer as the refused call left it: the schedule of
        # successful steps must still give the one-shot bytes
        if 3 <= k <= 16:
            n1 = rng.randrange(1, k - 1); buflen = 32 * (k + 1)
            objs = b''.join(B.obj); msgs = b''.join(B.msg)
            r1 = ctx.call("halfagg_inc", b'', buflen, buflen, objs[:64 * n1], msgs[:32 * n1], b''.join(B.sig[:n1]), 0, n1, config=config)
            if r1 is not None and r1.ret == 1:
                a1 = r1.b(2)[:r1.i(1)]
                bad_objs = bytearray(objs); j = rng.randrange(n1 + 1, k); bad_objs[64 * j:64 * j + 64] = bytes(64)
                rf = ctx.call("halfagg_inc", a1, buflen, buflen, bytes(bad_objs), msgs, b''.join(B.sig[n1:]), n1, k - n1, config=config, ill=1)
                rs_ = ctx.call("halfagg_inc", a1, buflen, 32 * k, objs, msgs, b''.join(B.sig[n1:]), n1, k - n1, config=config)       # advertised length one slot too small
                for cls, rr in (("zeroed_key", rf), ("short_length", rs_)):
                    if rr is None: continue
                    ctx.ev("halfagg_inc", "refused_step:" + cls, True, k, n1, agg)
                    if not ctx.check(rr.ret == 0, "halfagg_inc:refused_step:%s:accepted" % cls, "n=%d n1=%d" % (k, n1), config): continue
                    left = rr.b(2)[:len(a1)]
                    r3 = ctx.call("halfagg_inc", left, buflen, buflen, objs, msgs, b''.join(B.sig[n1:]), n1, k - n1, config=config)
                    if r3 is not None: ctx.check(r3.ret == 1 and r3.b(2)[:r3.i(1)] == agg, "halfagg_inc:retry_after_refused_step_differs_from_oneshot", "n=%d n1=%d refused by %s" % (k, n1, cls), config)
        # buffer-length contract
        for L in sorted(set(list(range(0, 32 * (k + 2) + 1, 32)) + [32 * (k + 1) - 1, 32 * (k + 1) + 1, 31, 33, 1])):
            if L < 0: continue
            r2 = ctx.call("halfagg_aggregate", b''.join(B.obj) or b'', b''.join(B.msg) or b'', b''.join(B.sig) or b'', k, L, config=config)
            if r2 is None: continue
            ctx.ev("halfagg_aggregate", "buflen", True, k, L)
            if L // 32 >= k + 1:
                ctx.check(r2.ret == 1 and r2.i(1) == 32 * (k + 1) and r2.b(2)[:32 * (k + 1)] == agg, "halfagg_aggregate:sufficient_buffer_refused_or_wrong", "n=%d L=%d %r" % (k, L, r2)[:300], config)
            else:
                ctx.check(r2.ret == 0, "halfagg_aggregate:short_buffer_accepted", "n=%d L=%d" % (k, L), config)
        if k == 0: 
            vcase(ctx, config, [], [], [], b32(1), "n0:s_nonzero"); vcase(ctx, config, [], [], [], b'', "n0:empty")
            # the empty aggregate is valid only as 32 zero bytes: every re-encoding of s = 0 (n, 2n mod 2^256 does not fit) and every
            # other boundary scalar must be rejected
            for sv in (n, n + 1, n - 1, 2**256 - 1, 2**255, 2**256 - n, 2):
                vcase(ctx, config, [], [], [], b32(sv), "n0:s_boundary")
            vcase(ctx, config, [], [], [], bytes(31), "n0:len31"); vcase(ctx, config, [], [], [], bytes(33), "n0:len33"); vcase(ctx, config, [], [], [], bytes(64), "n0:len64")
            continue
        # every aggregate length 0 .. 32(k+3): valid bytes followed by padding / truncated; only 32(k+1) may be accepted (length rule
        # of aggverify for every length, not only +-1 and +-32)
        if k <= 8 or rng.random() < 0.3:
            tail = pools.rbytes(rng, 64) if rng.random() < 0.5 else bytes(64)
            for L in range(0, 32 * (k + 3) + 1):
                if L == len(agg): continue
                if k > 4 and L % 16 and rng.random() < 0.8: continue          # larger n: all multiples of 16, sampled others
                vcase(ctx, config, B.pk, B.obj, B.msg, (agg + tail)[:L], "len_sweep", nontrivial=abs(L - len(agg)) <= 32)
        # mutations
        nm = 14 if k <= 8 else 5
        for _ in range(nm):
            kind = rng.randrange(12)
            if kind == 0:
                i = rng.randrange(len(agg) * 8); t = bytearray(agg); t[i // 8] ^= 1 << (i % 8); vcase(ctx, config, B.pk, B.obj, B.msg, bytes(t), "mut:bitflip")
            elif kind == 1:
                j = rng.randrange(k); t = agg[:32 * j] + b32(rng.choice((p, p + 1, 2**256 - 1))) + agg[32 * j + 32:]; vcase(ctx, config, B.pk, B.obj, B.msg, t, "mut:r_ge_p")
            elif kind == 2:
                j = rng.randrange(k)
                while True:
                    x = rng.randrange(p)
                    if lift_x(x) is None: break
                vcase(ctx, config, B.pk, B.obj, B.msg, agg[:32 * j] + b32(x) + agg[32 * j + 32:], "mut:r_off_curve")
            elif kind == 3:
                s = I(agg[-32:]); vcase(ctx, config, B.pk, B.obj, B.msg, agg[:-32] + b32(rng.choice((n, n + 1, 2**256 - 1, s + n if s + n < 2**256 else n))), "mut:s_ge_n")
                # sign-flipped and neighbouring aggregate scalars (an x-only or otherwise sign-blind final comparison)
                vcase(ctx, config, B.pk, B.obj, B.msg, agg[:-32] + b32((n - s) % n), "mut:s_negated")
                vcase(ctx, config, B.pk, B.obj, B.msg, agg[:-32] + b32((s + rng.choice((1, n - 1))) % n), "mut:s_plus_minus_1")
            elif kind == 4:
                vcase(ctx, config, B.pk, B.obj, B.msg, agg + b'\x00', "mut:len+1"); vcase(ctx, config, B.pk, B.obj, B.msg, agg[:-1], "mut:len-1"); vcase(ctx, config, B.pk, B.obj, B.msg, agg + bytes(31), "mut:len+31")
            elif kind == 5:
                vcase(ctx, config, B.pk, B.obj, B.msg, agg + bytes(32), "mut:len_for_n+1"); vcase(ctx, config, B.pk, B.obj, B.msg, agg[:-32], "mut:len_for_n-1")
                vcase(ctx, config, B.pk[:-1], B.obj[:-1], B.msg[:-1], agg, "mut:n-1_keys")
            elif kind == 6 and k >= 2:
                i, j = rng.sample(range(k), 2); pk = list(B.pk); ob = list(B.obj); pk[i], pk[j] = pk[j], pk[i]; ob[i], ob[j] = ob[j], ob[i]
                vcase(ctx, config, pk, ob, B.msg, agg, "mut:keys_reordered")
            elif kind == 7 and k >= 2:
                i, j = rng.sample(range(k), 2); ms = list(B.msg); ms[i], ms[j] = ms[j], ms[i]; vcase(ctx, config, B.pk, B.obj, ms, agg, "mut:msgs_reordered")
            elif kind == 8:
                j = rng.randrange(k); ms = list(B.msg); t = bytearray(ms[j]); t[rng.randrange(32)] ^= 1 << rng.randrange(8); ms[j] = bytes(t); vcase(ctx, config, B.pk, B.obj, ms, agg, "mut:msg_altered")
            elif kind == 9:
                j = rng.randrange(k); Q = mulG(rng.randrange(1, n)); pk = list(B.pk); ob = list(B.obj); pk[j] = xbytes(Q); ob[j] = ctx.call("xonly_parse", xbytes(Q), config=config).b(1)
                vcase(ctx, config, pk, ob, B.msg, agg, "mut:key_altered")
            elif kind == 10:
                # one inner signature altered before aggregation
                j = rng.randrange(k); sg = list(B.sig); t = bytearray(sg[j]); t[32 + rng.randrange(32)] ^= 1 << rng.randrange(8); sg[j] = bytes(t)
                a2 = halfagg.aggregate(B.pk, B.msg, sg); vcase(ctx, config, B.pk, B.obj, B.msg, a2, "mut:inner_signature_altered")
            else:
                # two signatures swapped consistently (keys, msgs, sigs): a different but valid sequence
                if k >= 2:
                    i, j = rng.sample(range(k), 2); idx = list(range(k)); idx[i], idx[j] = idx[j], idx[i]
                    a3 = halfagg.aggregate([B.pk[x] for x in idx], [B.msg[x] for x in idx], [B.sig[x] for x in idx])
                    vcase(ctx, config, [B.pk[x] for x in idx], [B.obj[x] for x in idx], [B.msg[x] for x in idx], a3, "permuted_sequence_valid")

def _rand_comp(rng, k):
    parts = []
    while k:
        x = rng.randrange(1, k + 1); parts.append(x); k -= x
    return parts

def run(ctx):
    from vlib import smallgroup
    smallgroup.run(ctx, 'halfagg', {'halfagg_s_reenc': 'accepted', 'halfagg_incremental_eq': 'differs'})
    for config in ctx.cfgs():
        wl(ctx, config)
