"""C09 Every range proof the library creates verifies, bounds the value and rewinds."""
from ref.ec import *
from ref import pools, zkp, rangeproof as rp

ID = "C09"
LEVEL = "exploration"
CONFIGS = {"quick": ["san", "san_nv"], "thorough": ["san", "san_nv", "mx_i64"]}
RULE = ("rangeproof_sign on value / min_value from the u64 edge pool (0, 1, 10^k, 2^k, 2^63-1, 2^63, 2^64-1, min == value), exp in [-2,19], min_bits in "
        "[-1,65], message lengths 0..4000 (128k+-1), extra commitments 0..100 bytes, blinding factors 0 / 1 / n-1 / n / random, buffers "
        "{0,64,65,needed-1,needed,max_size,5134}, generators h / derived / blinded; each successful proof is verified, its range compared with info and "
        "with an independent verifier, rewound with the creator's nonce (value, blind, zero-padded message) and with another nonce, and re-created in a "
        "second (randomized, replaced-SHA) context for determinism; the success set is compared with the documented-valid / documented-invalid "
        "parameter predicate. non-trivial = every sign call whose parameters are documented-valid or one step outside; distinct = (op, inputs)")
ASSUMPTIONS = ["documented-valid = header of include/secp256k1_rangeproof.h (see DESIGN C09); cases the header leaves open are counted as unmodelled and only the post-conditions apply",
               "buffers between the exact proof length and rangeproof_max_size are unmodelled on purpose"]
U64 = 2**64 - 1

def max_size_model(max_value, min_bits):
    vm = max_value.bit_length() if max_value > 0 else 1
    mant = max(min_bits, vm); rings = (mant + 1) // 2; npubs = rings * 4 - 2 * (mant % 2)
    return 10 + 32 * (npubs + rings - 1) + 32 + ((rings - 1 + 7) // 8)

def classify(value, minv, exp, min_bits, blind, buflen, maxsz):
    """'fail' = documented-invalid, 'ok' = documented-valid (must succeed apart from the message capacity, handled by the caller), None = left open"""
    if exp < -1 or exp > 18 or min_bits < 0 or min_bits > 64 or minv > value or blind >= n or buflen < 65: return "fail"
    # "If min_value or exp is non-zero then the value must be on the range [0, 2^63)": a necessary condition, not a promise; the
    # implementation draws the line at 2^63-1 for either quantity, so the boundary values are left open (no alarm either way)
    if (minv != 0 or exp != 0) and (value >= 2**63 - 1 or minv >= 2**63 - 1): return None
    if blind == 0 and not (exp >= 0 and min_bits >= 3): return None      # "may be all-zeros as long as min_bits is set to 3 or greater"
    if buflen < maxsz: return None
    return "ok"

def model_rings(value, minv, exp, min_bits):
    """ring count chosen by secp256k1_range_proveparams (transcribed; used only to pin known finding F5 to its exact input class)"""
    U = 2**64 - 1
    if minv == U: exp = -1
    if exp < 0: return 1
    def clz(x): return 64 - x.bit_length()
    mb = min(min_bits, clz(minv) if minv else 64)
    if mb > 61 or value > 2**63 - 1: exp = 0
    v = value - minv; v2 = (U >> (64 - mb)) if mb else 0; i = 0
    while i < exp and v2 <= U // 10: v //= 10; v2 *= 10; i += 1
    mant = max(v.bit_length() if v else 1, mb)
    return (mant + 1) >> 1

def gen_pair(ctx, config, rng):
    k = rng.randrange(3)
    if k == 0:
        r = ctx.call("generator_h", config=config); return zkp.H_POINT, r.b(0)
    seed = pools.rbytes(rng, 32)
    if k == 1:
        ok, H = zkp.generate(seed); r = ctx.call("generator_generate", seed, config=config); return H, r.b(1)
    bl = rng.randrange(1, n); ok, H = zkp.generate(seed, b32(bl)); r = ctx.call("generator_generate_blinded", seed, b32(bl), config=config); return H, r.b(1)

def one(ctx, config, rng, alt, value, minv, exp, min_bits, blind, msglen, extralen, bufmode, cls):
    H, Ho = gen_pair(ctx, config, rng)
    nonce = pools.rbytes(rng, 32); extra = pools.rbytes(rng, extralen) if extralen else b''
    msg = pools.rbytes(rng, msglen) if msglen else b''
    bc = blind if blind < n else rng.randrange(1, n)       # the commitment needs some valid blinding factor
    C = add(mulG(bc), mul(value, H) if value else None)
    if C is None: return
    co = ctx.call("commitment_parse", zkp.commit_ser(C), config=config)
    if co is None or co.ret != 1: return
    Co = co.b(1)
    ms = ctx.call("rangeproof_max_size", value, max(0, min(min_bits, 64)), config=config)
    if ms is None: return
    maxsz = ms.i(0)
    ctx.check(maxsz == max_size_model(value, max(0, min(min_bits, 64))) and maxsz <= 5134, "rangeproof_max_size:formula", "value=%d min_bits=%d lib=%d" % (value, min_bits, maxsz), config)
    # message-less probe (gives the exact length and the ring count that bounds the message capacity)
    probe = ctx.call("rangeproof_sign", 5134, minv, Co, b32(blind), nonce, exp, min_bits, value, None, extra or None, Ho, config=config)
    if probe is None: return
    needed = probe.i(1) if probe.ret == 1 else None
    buflen = {0: 5134, 1: maxsz, 2: needed if needed else 65, 3: (needed - 1) if needed else 64, 4: 65, 5: 64, 6: 0, 7: 5135}[bufmode]
    kind = classify(value, minv, exp, min_bits, blind, buflen, maxsz)
    rings = None
    if probe.ret == 1:
        h = rp.header(probe.b(2)[:probe.i(1)])
        if h: rings = len(rp.layout(h[2]))
    if kind == "ok" and msglen > 0:
        if rings is None: kind = None
        elif msglen > 128 * (rings - 1): kind = "msg_too_long"
    r = ctx.call("rangeproof_sign", buflen, minv, Co, b32(blind), nonce, exp, min_bits, value, msg or None, extra or None, Ho, config=config)
    if r is None: return
    ctx.ev("rangeproof_sign", "%s:%s" % (cls, kind or "open"), True, value, minv, exp, min_bits, b32(blind), msglen, extralen, buflen, nonce)
    det = "value=%d min=%d exp=%d min_bits=%d blind=%x msglen=%d extralen=%d buflen=%d (needed=%s max_size=%d) -> %r" % (value, minv, exp, min_bits, blind, msglen, extralen, buflen, needed, maxsz, r)
    if kind == "fail":
        why = "exp" if (exp < -1 or exp > 18) else ("min_bits" if (min_bits < 0 or min_bits > 64) else ("min_gt_value" if minv > value else ("blind_ge_n" if blind >= n else "buffer_lt_65")))
        ctx.check(r.ret == 0, "rangeproof_sign:documented_invalid_accepted:" + why, det, config)
    elif kind == "msg_too_long":
        ctx.check(r.ret == 0, "rangeproof_sign:message_beyond_capacity_accepted", det, config)
    elif kind == "ok":
        # known finding F5: the header says a zero blinding factor is fine with min_bits >= 3, but min_bits is silently clamped to
        # clz(min_value), so for min_value >= 2^61 and value - min_value < 4 (scaled) the proof has a single ring whose secret is the
        # zero blinding factor, and creation is refused.  Only that input class gets the finding's key.
        f5 = blind == 0 and min_bits >= 3 and minv >= 2**61 and model_rings(value, minv, exp, min_bits) == 1
        ctx.check(r.ret == 1, "rangeproof_sign:documented_valid_refused" + (":zero_blind_min_bits>=3_clamped_to_one_ring_by_min_value>=2^61" if f5 else ""), det, config)
    else:
        ctx.count("unmodelled_success_set")
    if r.ret != 1: return
    plen = r.i(1); proof = r.b(2)[:plen]
    ctx.check(plen <= buflen and plen <= 5134 and plen <= maxsz, "rangeproof_sign:proof_longer_than_advertised", det, config)
    if blind >= n: return
    # verification, reported range, info
    v = ctx.call("rangeproof_verify", Co, proof, extra or None, Ho, config=config)
    if v is None: return
    ctx.ev("rangeproof_verify", "own_proof", True, proof, extra)
    if not ctx.check(v.ret == 1, "rangeproof_sign:own_proof_rejected_by_verify", det + " proof=%s" % proof.hex(), config): return
    lo, hi = v.i(1), v.i(2)
    ctx.check(0 <= lo <= value <= hi <= U64, "rangeproof_verify:range_does_not_contain_value", det + " range=[%d,%d]" % (lo, hi), config)
    inf = ctx.call("rangeproof_info", proof, config=config)
    if inf is not None: ctx.check(inf.ret == 1 and (inf.i(3), inf.i(4)) == (lo, hi), "rangeproof_info:range_differs_from_verify", "%r vs [%d,%d]" % (inf, lo, hi), config)
    em = rp.verify(C, H, proof, extra)
    ctx.check(em == (lo, hi), "rangeproof_verify:own_proof_vs_model", "model=%s lib=[%d,%d]" % (em, lo, hi), config)
    # a message crafted from this very proof: for a message-less proof the s value of a forged ring member IS the key-stream block that
    # is XORed with the corresponding 32-byte message chunk, so embedding that block makes the member's s exactly 0.  Creation must
    # either refuse or still produce a proof that verifies (never a proof its own verifier rejects).
    if msglen == 0 and not getattr(ctx, "_c09_in_crafted", False) and rng.random() < 0.5:
        h = rp.header(proof)
        if h and h[2]:
            off, exp_h, mant_h, scale_h, min_h, max_h = h
            rsz = rp.layout(mant_h); rings = len(rsz); vdig = (value - min_h) // scale_h
            soff = off + ((rings + 6) >> 3) + 32 * (rings - 1) + 32
            cands = [(i, j) for i in range(rings - 1) for j in range(rsz[i]) if j != ((vdig >> (2 * i)) & 3)]
            if cands and soff + 32 * sum(rsz) == len(proof):
                i, j = rng.choice(cands); flat = sum(rsz[:i]) + j; blk = proof[soff + 32 * flat:soff + 32 * flat + 32]
                k = 4 * i + j; cm = bytes(32 * k) + blk
                rc = ctx.call("rangeproof_sign", 5134, minv, Co, b32(blind), nonce, exp, min_bits, value, cm, extra or None, Ho, config=config)
                if rc is not None:
                    ctx.ev("rangeproof_sign", "message_crafted_to_zero_a_ring_scalar:%s" % ("refused" if rc.ret == 0 else "signed"), True, proof[:40], k)
                    if rc.ret == 1:
                        pc = rc.b(2)[:rc.i(1)]; vc = ctx.call("rangeproof_verify", Co, pc, extra or None, Ho, config=config)
                        if vc is not None: ctx.check(vc.ret == 1, "rangeproof_sign:own_proof_rejected_by_verify", det + " message crafted from the key stream of slot (%d,%d)" % (i, j), config)
    # rewind with the creator's nonce
    rw = ctx.call("rangeproof_rewind", 7, 4096, nonce, Co, proof, extra or None, Ho, config=config)
    if rw is None: return
    ctx.ev("rangeproof_rewind", "creator_nonce", True, proof, nonce)
    if ctx.check(rw.ret == 1, "rangeproof_rewind:creator_nonce_failed", det, config):
        ol = rw.i(3); mo = rw.b(4)[:ol]
        ctx.check(rw.b(1) == b32(blind) and rw.i(2) == value, "rangeproof_rewind:wrong_value_or_blind", det + " got blind=%s value=%d" % (rw.b(1).hex(), rw.i(2)), config)
        if msglen:
            ctx.check(ol >= msglen and mo[:msglen] == msg and not any(mo[msglen:]), "rangeproof_rewind:message_not_recovered_zero_padded", det + " outlen=%d" % ol, config)
        else:
            ctx.check(not any(mo), "rangeproof_rewind:message_not_zero", det, config)
        ctx.check((rw.i(5), rw.i(6)) == (lo, hi), "rangeproof_rewind:range_differs", "", config)
        # other output-option subsets give the same result
        # short and empty message buffers: value / blind still recovered, the message prefix that fits is returned
        for mbl in (0, rng.choice((1, 31, 32, 33, 100))):
            rw3 = ctx.call("rangeproof_rewind", 7, mbl, nonce, Co, proof, extra or None, Ho, config=config)
            if rw3 is not None:
                ctx.ev("rangeproof_rewind", "message_buffer_%s" % ("empty" if mbl == 0 else "short"), True, proof, nonce, mbl)
                ok3 = rw3.ret == 1 and rw3.b(1) == b32(blind) and rw3.i(2) == value and rw3.i(3) <= mbl
                if ok3 and mbl: ok3 = rw3.b(4)[:rw3.i(3)] == (msg + bytes(4096))[:rw3.i(3)]
                ctx.check(ok3, "rangeproof_rewind:short_message_buffer", det + " mbl=%d %r" % (mbl, rw3), config)
        fl = rng.choice((0, 1, 2, 3, 4, 5, 6)); rw2 = ctx.call("rangeproof_rewind", fl, 4096 if rng.random() < 0.7 else max(msglen, 1), nonce, Co, proof, extra or None, Ho, config=config)
        if rw2 is not None:
            ctx.ev("rangeproof_rewind", "option_subset", True, proof, nonce, fl)
            ctx.check(rw2.ret == 1 and (not (fl & 2) or rw2.i(2) == value) and (not (fl & 1) or rw2.b(1) == b32(blind)), "rangeproof_rewind:option_subset_differs", "flags=%d %r" % (fl, rw2), config)
    n2 = bytearray(nonce); n2[rng.randrange(32)] ^= 1 << rng.randrange(8)
    # "any other nonce fails" whatever subset of the optional outputs the caller asks for (all of them, some, none)
    for fl3 in (7, rng.choice((0, 0, 1, 2, 3, 4, 5, 6))):
        rw3 = ctx.call("rangeproof_rewind", fl3, 4096, bytes(n2), Co, proof, extra or None, Ho, config=config)
        if rw3 is not None:
            ctx.ev("rangeproof_rewind", "other_nonce:outputs%d" % fl3, True, proof, bytes(n2), fl3)
            ctx.check(rw3.ret == 0, "rangeproof_rewind:other_nonce_succeeded", det + " output flags=%d" % fl3, config)
    # determinism: same inputs in another context (randomized, replaced SHA-256 compression) give the same bytes
    r2 = ctx.call("rangeproof_sign", buflen, minv, Co, b32(blind), nonce, exp, min_bits, value, msg or None, extra or None, Ho, config=config, c=alt)
    if r2 is not None:
        ctx.ev("rangeproof_sign", "determinism", True, proof)
        ctx.check(r2.ret == 1 and r2.b(2)[:r2.i(1)] == proof, "rangeproof_sign:not_deterministic_across_contexts", det, config)

def run_config(ctx, config):
    rng = ctx.rng
    r = ctx.call("ctx_create", 1, config=config); alt = r.i(0)
    ctx.call("ctx_set_compress", 1, config=config, c=alt); ctx.call("ctx_randomize", pools.rbytes(rng, 32), config=config, c=alt)
    # edge product (small sets), partitioned over the shards
    vals = [0, 1, 2, 10, 100, 255, 256, 10**9, 2**32, 2**53, 2**62, 2**63 - 1, 2**63, 2**63 + 1, 2**64 - 2, 2**64 - 1, 10**18, 10**19]
    edge = []
    for value in vals:
        for minv in sorted(set([0, value, max(value - 1, 0), value // 2, 1, min(value + 1, U64), U64])):
            for exp in (-2, -1, 0, 1, 18, 19):
                for min_bits in (-1, 0, 1, 3, 61, 62, 64, 65):
                    edge.append((value, minv, exp, min_bits))
    rng2 = __import__("random").Random(ctx.seed * 7919 + 13)
    rng2.shuffle(edge)
    take = edge[:(480 if ctx.quick else 6000)]
    for value, minv, exp, min_bits in ctx.mine(take):
        if min_bits > 16 and ctx.quick and rng.random() < 0.5: min_bits = rng.choice((0, 1, 3))     # keep quick cheap: big mantissas are 5 kB proofs
        one(ctx, config, rng, alt, value, minv, exp, min_bits, rng.choice((1, n - 1, rng.randrange(1, n))), 0, rng.choice((0, 0, 32)), rng.choice((0, 0, 1, 2, 3, 4)), "edge")
    # zero blinding factor around the min_bits clamp (min_value just below / at / above 2^61, value - min_value around 4): the witness
    # of known finding F5 and its neighbours that must succeed
    zb = [(2960541175011637879, 2960541175011637878, 0, 4)]
    for base in (2**61 - 1, 2**61, 2**61 + 5, 2**62, 2**62 + 12345):
        for dv in (0, 1, 3, 4, 5, 100):
            for mb in (3, 4, 8):
                zb.append((base + dv, base, rng2.choice((0, 0, 1, 3)), mb))
    for value, minv, exp, min_bits in ctx.mine(zb if not ctx.quick else zb[:1] + rng2.sample(zb[1:], 30)):
        one(ctx, config, rng, alt, value, minv, exp, min_bits, 0, 0, rng.choice((0, 32)), rng.choice((0, 1)), "zero_blind_clamp")
    # random fill with messages, blinds, buffers
    for it in ctx.iters(640, 20000):
        value = pools.u64(rng, 0.5) if it % 3 else rng.randrange(2**20)
        minv = rng.choice((0, 0, value, value // 2, max(value - 1, 0), pools.u64(rng)))
        exp = rng.choice((-1, 0, 0, 0, 1, 2, 3, 7, 18, rng.randrange(-2, 20)))
        min_bits = rng.choice((0, 0, 0, 1, 2, 3, 4, 8, 16)) if rng.random() < 0.85 else rng.randrange(-1, 66)
        blind = rng.choice((0, 1, n - 1, n, n + 1, 2**256 - 1)) if it % 5 == 0 else rng.randrange(1, n)
        msglen = 0 if it % 2 else rng.choice((1, 31, 32, 33, 127, 128, 129, 255, 256, 257, 383, 384, 385, 1000, 3967, 3968, 3969, 4000))
        one(ctx, config, rng, alt, value, minv, exp, min_bits, blind, msglen, rng.choice((0, 0, 1, 33, 100)), rng.choice((0, 0, 0, 1, 2, 3, 4, 5, 6, 7)), "random")

def run(ctx):
    for config in ctx.cfgs():
        run_config(ctx, config)
