"""C20 Results depend only on arguments, not on context history or threads."""
import os, re, subprocess, tempfile, hashlib
from ref.ec import *
from ref import pools
from vlib import build
from vlib.shim import SAN_ENV, enc
from vlib.runner import Inconclusive

from vlib.shim import ShimCrash
ID = "C20"
LEVEL = "exploration"
CONFIGS = {"quick": ["san", "san_nv"], "thorough": ["san", "san_nv", "mx_i64"]}
EXTRA_BUILDS = ["tsan", "tsan_noasm", "so", "so_tsan", "vg", "vgv"]
RULE = ("a probe suite (one fixed-input call of every API family, ~150 calls) is replayed on every live context after each step of random context histories over "
        "{create, preallocated create, clone, preallocated clone, randomize(seed / zero / NULL), install a correct / an incorrect / reset the SHA-256 compression "
        "function, destroy} and must reproduce the golden outputs of a fresh context byte for byte; every probe is run on secp256k1_context_static (child process, "
        "default callbacks) and on a byte copy with counting callbacks, where it must equal the golden output unless its header documentation carries the "
        "'(not secp256k1_context_static)' marker, in which case an illegal-argument report is also accepted; the const-context probes are replayed by 2..16 "
        "threads on one shared context under ThreadSanitizer (asm and no-asm builds) with per-call overlap accounting; the writable segment of libsecp256k1.so "
        "is hashed around batches of API calls from 1 and 8 threads; context creation / cloning allocation counts are bounded. non-trivial = every probe "
        "comparison; distinct = (context state or thread configuration, probe)")
ASSUMPTIONS = ["TSan only sees the interleavings that occurred; inline assembly is invisible to it (hence the no-asm build)",
               "which functions accept the static context is derived from include/*.h of the working tree (rule stated at secp256k1.h:238-242)"]

H = lambda i: b32(i)

# shim op -> public API function (for the static-context documentation rule); ops absent here are shim-internal and not run on the static context
OP_API = {
 "pubkey_parse": "secp256k1_ec_pubkey_parse", "pubkey_serialize": "secp256k1_ec_pubkey_serialize", "pubkey_create": "secp256k1_ec_pubkey_create", "seckey_verify": "secp256k1_ec_seckey_verify",
 "seckey_negate": "secp256k1_ec_seckey_negate", "seckey_tweak_add": "secp256k1_ec_seckey_tweak_add", "seckey_tweak_mul": "secp256k1_ec_seckey_tweak_mul", "pubkey_negate": "secp256k1_ec_pubkey_negate",
 "pubkey_tweak_add": "secp256k1_ec_pubkey_tweak_add", "pubkey_tweak_mul": "secp256k1_ec_pubkey_tweak_mul", "pubkey_cmp": "secp256k1_ec_pubkey_cmp", "pubkey_combine": "secp256k1_ec_pubkey_combine",
 "pubkey_sort": "secp256k1_ec_pubkey_sort", "tagged_sha256": "secp256k1_tagged_sha256", "sig_parse_compact": "secp256k1_ecdsa_signature_parse_compact", "sig_parse_der": "secp256k1_ecdsa_signature_parse_der",
 "sig_serialize_compact": "secp256k1_ecdsa_signature_serialize_compact", "sig_serialize_der": "secp256k1_ecdsa_signature_serialize_der", "sig_normalize": "secp256k1_ecdsa_signature_normalize",
 "ecdsa_verify": "secp256k1_ecdsa_verify", "ecdsa_sign": "secp256k1_ecdsa_sign", "rsig_parse_compact": "secp256k1_ecdsa_recoverable_signature_parse_compact",
 "rsig_serialize_compact": "secp256k1_ecdsa_recoverable_signature_serialize_compact", "rsig_convert": "secp256k1_ecdsa_recoverable_signature_convert", "ecdsa_sign_recoverable": "secp256k1_ecdsa_sign_recoverable",
 "ecdsa_recover": "secp256k1_ecdsa_recover", "xonly_parse": "secp256k1_xonly_pubkey_parse", "xonly_serialize": "secp256k1_xonly_pubkey_serialize", "xonly_cmp": "secp256k1_xonly_pubkey_cmp",
 "xonly_from_pubkey": "secp256k1_xonly_pubkey_from_pubkey", "xonly_tweak_add": "secp256k1_xonly_pubkey_tweak_add", "xonly_tweak_add_check": "secp256k1_xonly_pubkey_tweak_add_check",
 "keypair_create": "secp256k1_keypair_create", "keypair_sec": "secp256k1_keypair_sec", "keypair_pub": "secp256k1_keypair_pub", "keypair_xonly_pub": "secp256k1_keypair_xonly_pub",
 "keypair_xonly_tweak_add": "secp256k1_keypair_xonly_tweak_add", "schnorr_sign32": "secp256k1_schnorrsig_sign32", "schnorr_sign_custom": "secp256k1_schnorrsig_sign_custom", "schnorr_verify": "secp256k1_schnorrsig_verify",
 "ecdh": "secp256k1_ecdh", "ellswift_encode": "secp256k1_ellswift_encode", "ellswift_decode": "secp256k1_ellswift_decode", "ellswift_create": "secp256k1_ellswift_create", "ellswift_xdh": "secp256k1_ellswift_xdh",
 "s2c_opening_parse": "secp256k1_ecdsa_s2c_opening_parse", "s2c_opening_serialize": "secp256k1_ecdsa_s2c_opening_serialize", "s2c_sign": "secp256k1_ecdsa_s2c_sign", "s2c_verify_commit": "secp256k1_ecdsa_s2c_verify_commit",
 "ae_host_commit": "secp256k1_ecdsa_anti_exfil_host_commit", "ae_signer_commit": "secp256k1_ecdsa_anti_exfil_signer_commit", "ae_sign": "secp256k1_anti_exfil_sign", "ae_host_verify": "secp256k1_anti_exfil_host_verify",
 "adaptor_encrypt": "secp256k1_ecdsa_adaptor_encrypt", "adaptor_verify": "secp256k1_ecdsa_adaptor_verify", "adaptor_decrypt": "secp256k1_ecdsa_adaptor_decrypt", "adaptor_recover": "secp256k1_ecdsa_adaptor_recover",
 "musig_pubnonce_parse": "secp256k1_musig_pubnonce_parse", "musig_pubnonce_serialize": "secp256k1_musig_pubnonce_serialize", "musig_aggnonce_parse": "secp256k1_musig_aggnonce_parse",
 "musig_aggnonce_serialize": "secp256k1_musig_aggnonce_serialize", "musig_partial_sig_parse": "secp256k1_musig_partial_sig_parse", "musig_partial_sig_serialize": "secp256k1_musig_partial_sig_serialize",
 "musig_pubkey_agg": "secp256k1_musig_pubkey_agg", "musig_pubkey_get": "secp256k1_musig_pubkey_get", "musig_tweak_add": "secp256k1_musig_pubkey_xonly_tweak_add", "musig_nonce_gen": "secp256k1_musig_nonce_gen",
 "musig_nonce_gen_counter": "secp256k1_musig_nonce_gen_counter", "musig_nonce_agg": "secp256k1_musig_nonce_agg", "musig_nonce_process": "secp256k1_musig_nonce_process", "musig_partial_sign": "secp256k1_musig_partial_sign",
 "musig_partial_sig_verify": "secp256k1_musig_partial_sig_verify", "musig_partial_sig_agg": "secp256k1_musig_partial_sig_agg", "musig_nonce_parity": "secp256k1_musig_nonce_parity", "musig_adapt": "secp256k1_musig_adapt",
 "musig_extract_adaptor": "secp256k1_musig_extract_adaptor", "halfagg_aggregate": "secp256k1_schnorrsig_aggregate", "halfagg_inc": "secp256k1_schnorrsig_inc_aggregate", "halfagg_verify": "secp256k1_schnorrsig_aggverify",
 "generator_parse": "secp256k1_generator_parse", "generator_serialize": "secp256k1_generator_serialize", "generator_generate": "secp256k1_generator_generate", "generator_generate_blinded": "secp256k1_generator_generate_blinded",
 "commitment_parse": "secp256k1_pedersen_commitment_parse", "commitment_serialize": "secp256k1_pedersen_commitment_serialize", "pedersen_commit": "secp256k1_pedersen_commit", "pedersen_blind_sum": "secp256k1_pedersen_blind_sum",
 "pedersen_verify_tally": "secp256k1_pedersen_verify_tally", "pedersen_bgbs": "secp256k1_pedersen_blind_generator_blind_sum", "rangeproof_sign": "secp256k1_rangeproof_sign", "rangeproof_verify": "secp256k1_rangeproof_verify",
 "rangeproof_rewind": "secp256k1_rangeproof_rewind", "rangeproof_info": "secp256k1_rangeproof_info", "rangeproof_max_size": "secp256k1_rangeproof_max_size", "surj_parse": "secp256k1_surjectionproof_parse",
 "surj_serialize": "secp256k1_surjectionproof_serialize", "surj_initialize": "secp256k1_surjectionproof_initialize", "surj_generate": "secp256k1_surjectionproof_generate", "surj_verify": "secp256k1_surjectionproof_verify",
 "wl_parse": "secp256k1_whitelist_signature_parse", "wl_serialize": "secp256k1_whitelist_signature_serialize", "wl_sign": "secp256k1_whitelist_sign", "wl_verify": "secp256k1_whitelist_verify",
 "bppp_gens_create": "secp256k1_bppp_generators_create", "bppp_gens_parse": "secp256k1_bppp_generators_parse",
}

def restricted_functions(repo=None):
    """functions whose own documentation says '(not secp256k1_context_static)'"""
    repo = repo or build.REPO; out = set(); allfn = set()
    for f in sorted(os.listdir(os.path.join(repo, "include"))):
        if not f.endswith(".h"): continue
        txt = open(os.path.join(repo, "include", f)).read()
        for m in re.finditer(r"/\*\*(?:(?!/\*\*).)*?\*/\s*SECP256K1_API[^;]*?\b(secp256k1_[a-z0-9_]+)\s*\(", txt, re.S):
            name = m.group(1); allfn.add(name)
            if "not secp256k1_context_static" in m.group(0): out.add(name)
    return out, allfn

def build_probes(ctx, config):
    """returns list of (label, op, line).  All arguments are fixed; objects are produced once on the default context."""
    C = lambda op, *a: ctx.call(op, *a, config=config)
    P = []
    def add(op, *a, label=None): P.append((label or op, op, op + "".join(" " + enc(x) for x in a)))
    sk1, sk2, sk3 = H(0x1111111111111111111111111111111111111111111111111111111111111111), H(0x2222222222222222222222222222222222222222222222222222222222222223), H(7)
    msg = sha(b"c20 probe message"); tw = sha(b"c20 tweak"); rnd = sha(b"c20 rand"); aux = sha(b"c20 aux")
    pk1 = C("pubkey_create", sk1).b(1); pk2 = C("pubkey_create", sk2).b(1); pk3 = C("pubkey_create", sk3).b(1)
    ser1 = C("pubkey_serialize", pk1, 33, 258).b(2); ser1u = C("pubkey_serialize", pk1, 65, 2).b(2)
    add("pubkey_create", sk1); add("pubkey_parse", ser1); add("pubkey_parse", ser1u, label="pubkey_parse_uncompressed"); add("pubkey_serialize", pk1, 33, 258); add("pubkey_serialize", pk1, 65, 2, label="pubkey_serialize_uncompressed")
    add("seckey_verify", sk1); add("seckey_negate", sk1); add("seckey_tweak_add", sk1, tw); add("seckey_tweak_mul", sk1, tw); add("pubkey_negate", pk1); add("pubkey_tweak_add", pk1, tw); add("pubkey_tweak_mul", pk1, tw)
    add("pubkey_cmp", pk1, pk2); add("pubkey_combine", pk1 + pk2 + pk3, 3); add("pubkey_sort", pk1 + pk2 + pk3, 3); add("tagged_sha256", b"tag", msg);
    # refused calls are part of the read-only API too: a sort / comparison given a zeroed (invalid) key reports illegal use through the callback,
    # identically on every context and from every thread, and writes nothing to the shared context
    add("pubkey_sort", pk1 + bytes(len(pk1)) + pk2 + pk3, 4, label="pubkey_sort_ILLEGAL_zeroed_key"); add("pubkey_cmp", pk1, bytes(len(pk1)), label="pubkey_cmp_ILLEGAL_zeroed_key"); add("tagged_sha256", b"tag", b"", label="tagged_sha256_empty_msg")
    sig = C("ecdsa_sign", msg, sk1, 0, None).b(1); c64 = C("sig_serialize_compact", sig).b(1); der = C("sig_serialize_der", sig, 80); derb = der.b(2)[:der.i(1)]
    add("ecdsa_sign", msg, sk1, 0, None); add("ecdsa_sign", msg, sk1, 1, aux, label="ecdsa_sign_rfc6979_extra"); add("ecdsa_verify", sig, msg, pk1); add("sig_parse_compact", c64); add("sig_parse_der", derb)
    add("sig_serialize_compact", sig); add("sig_serialize_der", sig, 80); add("sig_normalize", sig, 1); add("nonce_rfc6979", msg, sk1, None, aux, 0)
    rsig = C("ecdsa_sign_recoverable", msg, sk1, 0, None).b(1)
    add("ecdsa_sign_recoverable", msg, sk1, 0, None); add("ecdsa_recover", rsig, msg); add("rsig_serialize_compact", rsig); add("rsig_convert", rsig); add("rsig_parse_compact", c64, 1)
    xo1 = C("xonly_from_pubkey", pk1, 1).b(1); x32 = C("xonly_serialize", xo1).b(1); kp1 = C("keypair_create", sk1).b(1); kp2 = C("keypair_create", sk2).b(1)
    xt = C("xonly_tweak_add", xo1, tw); xts = C("pubkey_serialize", xt.b(1), 33, 258).b(2)
    add("xonly_parse", x32); add("xonly_serialize", xo1); add("xonly_cmp", xo1, xo1); add("xonly_from_pubkey", pk1, 1); add("xonly_tweak_add", xo1, tw); add("xonly_tweak_add_check", xts[1:], xts[0] & 1, xo1, tw)
    add("keypair_create", sk1); add("keypair_sec", kp1); add("keypair_pub", kp1); add("keypair_xonly_pub", kp1); add("keypair_xonly_tweak_add", kp1, tw)
    ss = C("schnorr_sign32", msg, kp1, aux).b(1)
    add("schnorr_sign32", msg, kp1, aux); add("schnorr_sign32", msg, kp1, None, label="schnorr_sign32_noaux"); add("schnorr_sign_custom", b"variable length message", kp1, 1, aux); add("schnorr_sign_custom", b"", kp1, 1, aux, label="schnorr_sign_custom_empty_msg"); add("schnorr_verify", ss, msg, xo1)
    add("ecdh", pk2, sk1, 0); add("ecdh", pk2, sk1, 3, label="ecdh_custom_hash")
    e1 = C("ellswift_create", sk1, aux).b(1); e2 = C("ellswift_create", sk2, None).b(1)
    add("ellswift_create", sk1, aux); add("ellswift_encode", pk1, rnd); add("ellswift_decode", e1); add("ellswift_xdh", e1, e2, sk1, 0, 0, None); add("ellswift_xdh", e1, e2, sk2, 1, 1, sha(b"p") + sha(b"q"), label="ellswift_xdh_prefix")
    s2 = C("s2c_sign", msg, sk1, rnd, 1); hc = C("ae_host_commit", rnd).b(1); so = C("ae_signer_commit", msg, sk1, hc).b(1); ops = C("s2c_opening_serialize", s2.b(2)).b(1)
    add("s2c_sign", msg, sk1, rnd, 1); add("s2c_verify_commit", s2.b(1), rnd, s2.b(2)); add("ae_host_commit", rnd); add("ae_signer_commit", msg, sk1, hc); add("ae_sign", msg, sk1, rnd); add("ae_host_verify", s2.b(1), msg, pk1, rnd, so)
    add("s2c_opening_parse", ops); add("s2c_opening_serialize", s2.b(2))
    ad = C("adaptor_encrypt", sk1, pk2, msg, 0, aux).b(1); dsig = C("adaptor_decrypt", sk2, ad).b(1)
    add("adaptor_encrypt", sk1, pk2, msg, 0, aux); add("adaptor_encrypt", sk1, pk2, msg, 0, None, label="adaptor_encrypt_noaux"); add("adaptor_encrypt", sk1, pk2, msg, 1, None, label="adaptor_encrypt_explicit_noncefp_noaux"); add("adaptor_verify", ad, pk1, msg, pk2); add("adaptor_decrypt", sk2, ad); add("adaptor_recover", dsig, ad, pk2)
    ka = C("musig_pubkey_agg", pk1 + pk2, 2, 1, 1); kac = ka.b(2); kt = C("musig_tweak_add", kac, tw, 1, 1); kac2 = kt.b(2)
    n1 = C("musig_nonce_gen", None, 1, rnd, sk1, pk1, msg, kac2, aux); n2 = C("musig_nonce_gen_counter", None, 1, 5, kp2, msg, kac2, None)
    an = C("musig_nonce_agg", n1.b(2) + n2.b(2), 2).b(1); se = C("musig_nonce_process", an, msg, kac2, pk3).b(1)
    p1 = C("musig_partial_sign", 1, n1.b(1), kp1, kac2, se).b(1); p2 = C("musig_partial_sign", 1, n2.b(1), kp2, kac2, se).b(1)
    pre = C("musig_partial_sig_agg", se, p1 + p2, 2).b(1); par = C("musig_nonce_parity", se).i(1); adp = C("musig_adapt", pre, sk3, par).b(1)
    pn66 = C("musig_pubnonce_serialize", n1.b(2)).b(1); an66 = C("musig_aggnonce_serialize", an).b(1); ps32 = C("musig_partial_sig_serialize", p1).b(1)
    add("musig_pubkey_agg", pk1 + pk2, 2, 1, 1); add("musig_pubkey_get", kac); add("musig_tweak_add", kac, tw, 1, 1); add("musig_nonce_gen", None, 1, rnd, sk1, pk1, msg, kac2, aux); add("musig_nonce_gen_counter", None, 1, 5, kp2, msg, kac2, None)
    add("musig_nonce_agg", n1.b(2) + n2.b(2), 2); add("musig_nonce_process", an, msg, kac2, pk3); add("musig_partial_sign", 1, n1.b(1), kp1, kac2, se); add("musig_partial_sig_verify", p1, n1.b(2), pk1, kac2, se)
    add("musig_partial_sig_agg", se, p1 + p2, 2); add("musig_nonce_parity", se); add("musig_adapt", pre, sk3, par); add("musig_extract_adaptor", adp, pre, par)
    add("musig_pubnonce_parse", pn66); add("musig_pubnonce_serialize", n1.b(2)); add("musig_aggnonce_parse", an66); add("musig_aggnonce_serialize", an); add("musig_partial_sig_parse", ps32); add("musig_partial_sig_serialize", p1)
    xo2 = C("xonly_from_pubkey", pk2, 0).b(1); ss2 = C("schnorr_sign32", tw, kp2, None).b(1)
    agg = C("halfagg_aggregate", xo1 + xo2, msg + tw, ss + ss2, 2, 96); aggb = agg.b(2)
    add("halfagg_aggregate", xo1 + xo2, msg + tw, ss + ss2, 2, 96); add("halfagg_inc", aggb[:32] + aggb[64:], 96, 96, xo1 + xo2, msg + tw, ss2, 1, 1) if False else None
    add("halfagg_verify", xo1 + xo2, msg + tw, 2, aggb)
    g1 = C("generator_generate", msg).b(1); g2 = C("generator_generate_blinded", msg, tw).b(1); g1s = C("generator_serialize", g1).b(1)
    cm = C("pedersen_commit", tw, 123456, g2).b(1); cms = C("commitment_serialize", cm).b(1)
    add("generator_generate", msg); add("generator_generate_blinded", msg, tw); add("generator_parse", g1s); add("generator_serialize", g1); add("pedersen_commit", tw, 123456, g2); add("commitment_parse", cms); add("commitment_serialize", cm)
    add("pedersen_blind_sum", tw + rnd + aux, 3, 2); add("pedersen_verify_tally", cm, 1, cm, 1); add("pedersen_bgbs", (5).to_bytes(8, 'big') + (5).to_bytes(8, 'big'), tw + rnd, aux + msg, 2, 1)
    rp = C("rangeproof_sign", 5134, 0, cm, tw, rnd, 0, 0, 123456, b"embedded message", b"extra", g2); rpb = rp.b(2)[:rp.i(1)]
    add("rangeproof_sign", 5134, 0, cm, tw, rnd, 0, 0, 123456, b"embedded message", b"extra", g2); add("rangeproof_verify", cm, rpb, b"extra", g2); add("rangeproof_rewind", 7, 4096, rnd, cm, rpb, b"extra", g2); add("rangeproof_info", rpb); add("rangeproof_max_size", 123456, 0)
    tags = sha(b"t0") + sha(b"t1") + sha(b"t2"); ks = [sha(b"k%d" % i) for i in range(4)]
    ei = b''.join(C("generator_generate_blinded", tags[32 * i:32 * i + 32], ks[i]).b(1) for i in range(3)); eo = C("generator_generate_blinded", tags[32:64], ks[3]).b(1)
    si = C("surj_initialize", tags, 3, 3, tags[32:64], 10, rnd, 0); sg = C("surj_generate", si.b(2), ei, 3, eo, si.i(1), ks[si.i(1)], ks[3]); cnt = C("surj_counts", sg.b(1)); sser = C("surj_serialize", sg.b(1), cnt.i(2)).b(2)
    add("surj_initialize", tags, 3, 3, tags[32:64], 10, rnd, 0); add("surj_generate", si.b(2), ei, 3, eo, si.i(1), ks[si.i(1)], ks[3]); add("surj_verify", sg.b(1), ei, 3, eo); add("surj_parse", sser); add("surj_serialize", sg.b(1), cnt.i(2))
    o1, f1, w = sha(b"online"), sha(b"offline"), sha(b"sub"); on = C("pubkey_create", o1).b(1); off = C("pubkey_create", f1).b(1); sub = C("pubkey_create", w).b(1); summed = C("seckey_tweak_add", f1, w).b(1)
    ws = C("wl_sign", on + pk2, off + pk3, 2, sub, o1, summed, 0); wss = C("wl_serialize", ws.b(1), 97).b(2)
    add("wl_sign", on + pk2, off + pk3, 2, sub, o1, summed, 0); add("wl_verify", ws.b(1), on + pk2, off + pk3, 2, sub); add("wl_parse", wss); add("wl_serialize", ws.b(1), 97)
    gl = C("bppp_gens_create", 4).b(3)
    add("bppp_gens_create", 4); add("bppp_gens_parse", gl, 132)
    nv = H(3) + H(5); lv = H(7) + H(9); cv = H(11) + H(13); pr = C("bppp_norm_prove", 4096, b"pre", H(17), gl, nv, lv, cv)
    add("bppp_norm_prove", 4096, b"pre", H(17), gl, nv, lv, cv); add("bppp_norm_verify", 4096, b"pre", H(17), gl, 2, cv, pr.b(4), pr.b(3))
    add("sha256", b"abc" * 50, "7,64,1", label="internal_sha256"); add("hmac", b"key", b"data" * 40, "", label="internal_hmac"); add("ecmult_gen", tw, label="internal_ecmult_gen")
    return [p for p in P if p is not None]

# probes that take a mutable context or are internal wrappers: excluded from the threads script (const-context API only) / static-context runs
INTERNAL = {"sha256", "hmac", "ecmult_gen", "bppp_norm_prove", "bppp_norm_verify", "nonce_rfc6979"}

def golden(ctx, config, probes):
    out = {}
    for label, op, line in probes:
        r = ctx.sh(config).raw(line); out[label] = " ".join(r.t) + " | ill=%d err=%d" % (r.ill, r.err)
        ctx.check(r.ill == 0 and r.err == 0 and r.t and r.t[0] not in ("0",) or op in ("pubkey_cmp", "xonly_cmp", "sig_normalize", "rangeproof_max_size", "ecmult_gen", "sha256", "hmac", "pubkey_sort", "bppp_gens_create", "bppp_gens_parse"),
                  "probe:%s:fails_on_fresh_context" % label, repr(r), config)
    return out

def run_probes(ctx, config, probes, gold, slot, tag, subset=None, state=b''):
    sh = ctx.sh(config)
    for i, (label, op, line) in enumerate(probes):
        if subset is not None and i not in subset: continue
        try:
            r = sh.raw(("@%d " % slot if slot else "") + line)
        except Exception as e:
            from vlib.shim import ShimCrash
            if isinstance(e, ShimCrash):
                ctx.fail("C20:probe:%s:crash:%s" % (label, e.kind), e.report[-3000:], cmds=e.history, config=config); return False
            raise
        got = " ".join(r.t) + " | ill=%d err=%d" % (r.ill, r.err)
        ctx.ev("probe", tag, True, label, state)
        if not ctx.check(got == gold[label], "history:%s:%s:differs_from_fresh_context" % (tag.split(":")[0], label), "slot=%d want %s got %s" % (slot, gold[label][:300], got[:300]), config): return False
    return True

def wl_histories(ctx, config, probes, gold):
    rng = ctx.rng
    nh = ctx.n(48, 1500)
    states = set()
    for hnum in range(nh):
        live = {}                    # slot -> description
        L = rng.randrange(1, 31 if not ctx.quick else 13)
        for step in range(L):
            choices = ["create", "prealloc_create"]
            if live: choices += ["clone", "prealloc_clone", "randomize", "randomize", "randomize_null", "set_good", "set_bad", "reset", "destroy"]
            if len(live) >= 6: choices = [c for c in choices if c not in ("create", "prealloc_create", "clone", "prealloc_clone")]
            act = rng.choice(choices); slot = rng.choice(list(live)) if live else None
            if act == "create":
                r = ctx.call("ctx_create", rng.choice((1, 1, 0x101, 0x201, 0x301)), config=config)
                if r is None: return
                ctx.ev("ctx_create", "malloc", True, hnum, step)
                ctx.check(r.m <= 1, "context_create:more_than_one_allocation", "mallocs=%d" % r.m, config)
                live[r.i(0)] = "created"
            elif act == "prealloc_create":
                r = ctx.call("ctx_prealloc_create", 1, config=config)
                if r is None: return
                ctx.ev("ctx_prealloc_create", "prealloc", True, hnum, step)
                ctx.check(r.m == 0, "context_preallocated_create:allocates", "mallocs=%d" % r.m, config); live[r.i(0)] = "prealloc"
            elif act == "clone":
                r = ctx.call("ctx_clone", config=config, c=slot)
                if r is None: return
                ctx.ev("ctx_clone", "malloc", True, hnum, step)
                ctx.check(r.m <= 1, "context_clone:more_than_one_allocation", "mallocs=%d" % r.m, config); live[r.i(0)] = "clone of %d" % slot
            elif act == "prealloc_clone":
                r = ctx.call("ctx_prealloc_clone", config=config, c=slot)
                if r is None: return
                ctx.check(r.m == 0, "context_preallocated_clone:allocates", "mallocs=%d" % r.m, config); live[r.i(0)] = "prealloc clone of %d" % slot
            elif act == "randomize":
                seed = rng.choice((bytes(32), b'\xff' * 32, b32(n), pools.rbytes(rng, 32), pools.rbytes(rng, 32)))
                r = ctx.call("ctx_randomize", seed, config=config, c=slot)
                if r is not None: ctx.check(r.ret == 1, "context_randomize:failed", "", config)
            elif act == "randomize_null":
                r = ctx.call("ctx_randomize", None, config=config, c=slot)
                if r is not None: ctx.check(r.ret == 1, "context_randomize:failed", "", config)
            elif act == "set_good":
                r = ctx.call("ctx_set_compress", 1, config=config, c=slot)
                if r is not None: ctx.check(r.i(0) == 1, "set_sha256_compression:correct_function_refused", repr(r), config)
            elif act == "set_bad":
                before = ctx.call("ctx_state", config=config, c=slot)
                r = ctx.call("ctx_set_compress", 2, config=config, c=slot, ill=2)
                if r is not None and before is not None: ctx.check(r.i(0) == before.i(2) and r.i(0) != 2, "set_sha256_compression:incorrect_function_installed", repr(r), config)
            elif act == "reset":
                r = ctx.call("ctx_set_compress", 0, config=config, c=slot)
                if r is not None: ctx.check(r.i(0) == 0, "set_sha256_compression:reset_failed", repr(r), config)
            elif act == "destroy":
                r = ctx.call("ctx_destroy", slot, config=config)
                if r is not None: ctx.check(r.live <= 0, "context_destroy:leak", "live=%d" % r.live, config)
                del live[slot]
            # the probe suite on every live context (a rotating subset in the quick tier)
            for s in list(live):
                st = ctx.call("ctx_state", config=config, c=s)
                if st is None: return
                key = st.b(1) + bytes([st.i(2)]); states.add(key)
                subset = None if not ctx.quick else set(rng.sample(range(len(probes)), 14))
                if not run_probes(ctx, config, probes, gold, s, "history:%s" % act, subset, key[:8]): break
        for s in list(live): ctx.call("ctx_destroy", s, config=config)
    ctx.count("distinct_context_states_probed", len(states)); ctx.count("histories", nh)
    r = ctx.call("ctx_alt_calls", config=config)
    if r is not None:
        ctx.count("replaced_sha256_compression_blocks", r.i(0))
        # secp256k1.h: the replaceable compression function "processes one or more contiguous 64-byte message blocks"
        ctx.check(r.i(1) == 0, "replaced_compression:called_with_zero_blocks", "%d invocations with n_blocks == 0 (a correct replacement may rely on n_blocks >= 1)" % r.i(1), config)

def wl_static(ctx, config, probes, gold):
    restricted, allfn = restricted_functions(ctx.repo)
    ctx.check(len(allfn) > 100 and len(restricted) >= 10, "monitor:header_parse_failed", "functions=%d restricted=%d" % (len(allfn), len(restricted)), config)
    sc = ctx.call("ctx_static_copy", config=config)
    if sc is None: return
    slot = sc.i(0); sh = ctx.sh(config)
    for label, op, line in ctx.mine(probes):
        if op in INTERNAL or op not in OP_API or "_ILLEGAL_" in label: continue
        api = OP_API[op]; is_restricted = api in restricted
        ctx.check(api in allfn, "monitor:unknown_api_function", api, config)
        # (1) byte copy of the static context with counting callbacks
        try:
            r = sh.raw("@%d %s" % (slot, line))
        except ShimCrash as e:
            # neither the full-context result nor a clean refusal: the call went on with the unbuilt context and died
            ctx.fail("C20:static_context:%s:crash:%s" % (label, e.kind), "api=%s on a byte copy of secp256k1_context_static\n%s" % (api, e.report[-3000:]), cmds=e.history, config=config)
            sc = ctx.call("ctx_static_copy", config=config)
            if sc is None: return
            slot = sc.i(0); continue
        got = " ".join(r.t) + " | ill=0 err=%d" % r.err
        same = got == gold[label]
        ctx.ev("static_copy", "restricted" if is_restricted else "unrestricted", True, label)
        if is_restricted:
            ctx.check(same or r.ill > 0, "static_context:%s:neither_result_nor_illegal_report" % label, "got %s" % got[:300], config)
        else:
            ctx.check(same and r.ill == 0, "static_context:%s:documented_to_accept_static_context_but_%s" % (label, "reports_illegal_use" if r.ill else "result_differs"), "api=%s want %s got %s ill=%d" % (api, gold[label][:200], got[:200], r.ill), config)
        # (2) the real secp256k1_context_static in a child process (default callbacks abort)
        try:
            r2 = sh.raw("fork_static " + line)
        except ShimCrash as e:
            ctx.fail("C20:static_context:%s:crash_in_parent:%s" % (label, e.kind), e.report[-3000:], cmds=e.history, config=config)
            sc = ctx.call("ctx_static_copy", config=config)
            if sc is None: return
            slot = sc.i(0); continue
        ctx.ev("static_real", "restricted" if is_restricted else "unrestricted", True, label)
        if r2.t and r2.t[0] == "ABORTED":
            ctx.check(r2.t[1] == "illegal" and is_restricted, "static_context:%s:%s" % (label, "aborted_without_illegal_argument_report" if r2.t[1] != "illegal" else "documented_to_accept_static_context_but_reports_illegal_use"), "api=%s reply=%s" % (api, r2.t), config)
        else:
            got2 = " ".join(r2.t) + " | ill=%d err=%d" % (r2.ill, r2.err)
            ctx.check(got2 == gold[label], "static_context:%s:result_differs" % label, "want %s got %s" % (gold[label][:200], got2[:200]), config)
    ctx.call("ctx_free_copy", slot, config=config)

def run_driver(path, args, env_extra=None, timeout=900):
    env = dict(os.environ); env.update(SAN_ENV)
    if env_extra: env.update(env_extra)
    return subprocess.run([path] + args, capture_output=True, text=True, env=env, timeout=timeout)

def wl_threads(ctx, probes):
    """threads mode under TSan: one job per shard"""
    rng = ctx.rng
    jobs = []
    nthreads = [2, 4, 8, 16]
    setups = [("fresh", []), ("randomized", ["ctx_randomize " + sha(b"thr").hex()]), ("replaced_sha", ["ctx_set_compress 1"]), ("randomized+replaced", ["ctx_randomize " + sha(b"x").hex(), "ctx_set_compress 1"])]
    for cfgname in ("tsan", "tsan_noasm"):
        for nt in nthreads:
            for sname, setup in setups:
                for rep in range(1 if ctx.quick else 4):
                    jobs.append((cfgname, nt, sname, setup, rep))
    # the production build (inline assembly included, which TSan cannot see) under valgrind's helgrind
    for nt in ((4,) if ctx.quick else (2, 4, 8)):
        for sname, setup in (setups[3:] if ctx.quick else setups):
            jobs.append(("vg", nt, sname, setup, 0))
    tmpd = os.path.join(build.CACHE, "tmp"); os.makedirs(tmpd, exist_ok=True)
    lines_by_cfg = {}
    for cfgname, nt, sname, setup, rep in ctx.mine(jobs):
        path = build.build(cfgname, ctx.repo)
        if cfgname not in lines_by_cfg:
            # opaque object sizes differ between VERIFY and production builds: the script is generated with the same binary
            pr = build_probes(ctx, cfgname)
            lines_by_cfg[cfgname] = [line for label, op, line in pr if op not in INTERNAL or op in ("sha256", "hmac")]
        lines = lines_by_cfg[cfgname]
        with tempfile.NamedTemporaryFile("w", dir=tmpd, suffix=".script", delete=False) as f: f.write("\n".join(lines) + "\n"); script = f.name
        with tempfile.NamedTemporaryFile("w", dir=tmpd, suffix=".setup", delete=False) as f: f.write("\n".join(setup) + ("\n" if setup else "")); setupf = f.name
        try:
            if cfgname == "vg":
                r = subprocess.run(["valgrind", "--tool=helgrind", "-q", "--error-exitcode=0", path, "--threads", str(nt), str(ctx.seed * 1000 + rep), "1", script, setupf], capture_output=True, text=True, timeout=1800)
            else:
                r = run_driver(path, ["--threads", str(nt), str(ctx.seed * 1000 + rep), str(rep % 3), script, setupf], {"TSAN_OPTIONS": "halt_on_error=0:exitcode=0:report_signal_unsafe=0"})
        except subprocess.TimeoutExpired:
            raise Inconclusive("threads driver timed out")
        finally:
            os.unlink(script); os.unlink(setupf)
        m = re.search(r"THREADS n=(\d+) lines=(\d+) calls=(\d+) mismatches=(\d+) overlaps=(\d+) first=(.*)", r.stdout)
        races = r.stderr.count("WARNING: ThreadSanitizer")
        tag = "%s:%dthreads:%s" % (cfgname, nt, sname)
        if cfgname == "vg":
            hg = r.stderr.count("Possible data race"); ctx.count("helgrind_runs"); ctx.count("helgrind_reports", hg)
            if hg:
                firsth = r.stderr[r.stderr.find("Possible data race"):][:3000]; fr = re.findall(r"(?:at|by) 0x[0-9A-F]+: (\S+)", firsth)[:2]
                ctx.fail("C20:threads:data_race_helgrind:%s" % "/".join(fr), "%s: %d helgrind reports\n%s" % (tag, hg, firsth), cmds=lines[:5], config=cfgname)
        if not m:
            ctx.fail("C20:threads:%s:driver_failed" % cfgname, "rc=%d\n%s\n%s" % (r.returncode, r.stdout[-1500:], r.stderr[-3000:]), cmds=[path + " --threads ..."], config=cfgname); continue
        calls, mism, ov = int(m.group(3)), int(m.group(4)), int(m.group(5))
        ctx.bulk("threads_probe_call", "threads:" + tag, calls, "thr:%s:%d:%s:%d:%d" % (cfgname, nt, sname, rep, ctx.seed))
        ctx.count("thread_call_overlaps", ov); ctx.count("thread_runs"); ctx.count("tsan_reports", races)
        if ov < nt: ctx.count("thread_runs_with_too_few_overlaps")
        if races:
            first = r.stderr[r.stderr.find("WARNING: ThreadSanitizer"):][:3000]
            fr = re.findall(r"#\d+ (\S+) ", first)[:3]
            ctx.fail("C20:threads:data_race:%s" % "/".join(fr[:2]), "%s: %d ThreadSanitizer reports\n%s" % (tag, races, first), cmds=lines[:5], config=cfgname)
        if mism:
            ctx.fail("C20:threads:output_differs_from_single_threaded", "%s: %d mismatching replies; first: %s" % (tag, mism, m.group(6)), cmds=lines[:5], config=cfgname)

def wl_global(ctx):
    for i, cfgname in enumerate(("so", "so_tsan")):
        if ctx.shard != (8 + i) % ctx.nshards: continue
        path = build.build(cfgname, ctx.repo)
        try:
            r = run_driver(path, ["8", "3" if ctx.quick else "20"], {"TSAN_OPTIONS": "halt_on_error=0:exitcode=0"})
        except subprocess.TimeoutExpired:
            raise Inconclusive("global-state driver timed out")
        m = re.search(r"GLOBAL segments=(\d+) bytes=(\d+) batches=(\d+) changed=(\d+) threads=(\d+) calls=(\d+) api_failures=(\d+) first_change=(-?\d+)", r.stdout)
        if not m:
            ctx.fail("C20:global_state:%s:driver_failed" % cfgname, "rc=%d\n%s\n%s" % (r.returncode, r.stdout[-1500:], r.stderr[-3000:]), cmds=[path], config=cfgname); continue
        segs, nbytes, batches, changed, thr, calls, fails, first = (int(x) for x in m.groups())
        ctx.bulk("global_state_api_call", "global:" + cfgname, calls, "glob:%s:%d" % (cfgname, ctx.seed)); ctx.count("writable_segment_bytes_watched:" + cfgname, nbytes); ctx.count("segment_checkpoints:" + cfgname, batches)
        ctx.check(segs >= 1 and nbytes > 0, "monitor:library_segment_not_found", r.stdout, cfgname)
        ctx.check(changed == 0, "global_state:writable_segment_of_the_library_changed", "%s: %d of %d checkpoints saw a change, first at offset %d" % (cfgname, changed, batches, first), cfgname)
        ctx.check(fails == 0, "global_state:api_call_failed_in_driver", r.stderr[-1500:], cfgname)
        races = r.stderr.count("WARNING: ThreadSanitizer")
        ctx.count("tsan_reports", races)
        if races:
            firstr = r.stderr[r.stderr.find("WARNING: ThreadSanitizer"):][:3000]; fr = re.findall(r"#\d+ (\S+) ", firstr)[:3]
            ctx.fail("C20:threads:data_race:%s" % "/".join(fr[:2]), "%s (public API, shared object): %d reports\n%s" % (cfgname, races, firstr), cmds=[path], config=cfgname)
        # symbol inventory of writable data in the shared object (evidence; new writable symbols are reported)
        if cfgname == "so":
            lib = os.path.join(os.path.dirname(path), "libsecp256k1.so")
            nm = subprocess.run(["nm", "-S", lib], capture_output=True, text=True).stdout
            bss = [l.split()[-1] for l in nm.splitlines() if len(l.split()) >= 3 and l.split()[-2] in ("b", "B")]
            data = [l.split()[-1] for l in nm.splitlines() if len(l.split()) >= 3 and l.split()[-2] in ("d", "D")]
            ctx.count("bss_symbols", len(bss)); ctx.count("data_symbols", len(data))
            unexpected = [s for s in bss if not s.startswith(("completed.", "__"))]
            ctx.check(not unexpected, "global_state:library_has_zero_initialised_writable_objects", "bss symbols: %s" % unexpected, cfgname)

def run(ctx):
    first = True
    for config in ctx.configs:
        probes = build_probes(ctx, config)
        gold = golden(ctx, config, probes)
        ctx.count("probes", len(probes))
        wl_histories(ctx, config, probes, gold)
        wl_static(ctx, config, probes, gold)
        if first:
            wl_threads(ctx, probes); wl_global(ctx); first = False
            if ctx.shard == 5 % ctx.nshards:
                # results depend only on arguments - not on stack or heap residue either: the probe suite (twice, in two orders) replayed under
                # memcheck; a value derived from uninitialised memory that reaches a branch, an address or the output check is reported
                from vlib.runner import memcheck_replay
                pr = build_probes(ctx, "vgv")
                pl = [line for label, op, line in pr if op not in INTERNAL or op in ("sha256", "hmac")]
                memcheck_replay(ctx, pl + pl[::-1], "probe_suite")

def post(cov, viol, tier):
    mon = cov["monitors"]
    if mon.get("thread_runs", 0) == 0: raise Inconclusive("no thread run was executed")
    if mon.get("thread_call_overlaps", 0) < 10 * mon.get("thread_runs", 1): raise Inconclusive("too few overlapping calls observed (%d over %d runs)" % (mon.get("thread_call_overlaps", 0), mon.get("thread_runs", 0)))
