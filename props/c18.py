"""C18 ECDH and ElligatorSwift exchanges agree with the group law and with each other."""
from ref.ec import *
from ref import pools, ellswift

ID = "C18"
LEVEL = "exploration"
CONFIGS = {"quick": ["san", "san_nv", "mx_i64"], "thorough": ["san", "san_nv", "mx_i64", "mx_i128s"]}
RULE = ("ecdh with every hash choice (default, explicit sha256, raw x||y, failing callback) on pool secrets (0, 1, n-1, n, >= n) and peers; "
        "ellswift_decode on random strings, u / t in {0, p, p+1, 2^256-1}, the u^3+t^2+7 = 0 family and strings reaching each branch x1/x2/x3 of "
        "the map; ellswift_encode / create for pool keys and many randomness values, decoded back by library and model; ellswift_xdh for both "
        "parties and all hashers. every result compared with a BIP-324 XSwiftEC + group-law model. non-trivial = every record with a valid secret or "
        "a decode; distinct = (op, inputs)")
ASSUMPTIONS = ["ref/ellswift.py transcribes BIP-324 XSwiftEC (constant sqrt(-3) from the BIP); y parity of a decoded point is the parity of t mod p (doc/ellswift.md)"]
COMP = 258
def pkobj(ctx, P, config):
    r = ctx.call("pubkey_parse", ser33(P), config=config)
    return r.b(1) if r is not None and r.ret == 1 else None
def pkpoint(ctx, obj, config):
    r = ctx.call("pubkey_serialize", obj, 33, COMP, config=config)
    return parse_pubkey(r.b(2)) if r is not None and r.ret == 1 else None

def wl_ecdh(ctx, config):
    rng = ctx.rng
    for it in ctx.iters(1500, 40000):
        d = pools.scalar(rng, 0.4); sk = b32(d); valid = 0 < d < n
        P = mulG(pools.valid_seckey(rng, 0.3)) if it % 4 else lift_x(next(x for x in iter(lambda: pools.field(rng), None) if lift_x(x)))
        po = pkobj(ctx, P, config)
        if po is None: continue
        mode = it % 4
        # the data pointer (ignored by the default hash and by the shim's hashers) is non-NULL in a third of the cases
        r = ctx.call("ecdh", po, sk, mode, config=config) if it % 3 else ctx.call("ecdh", po, sk, mode, pools.rbytes(rng, rng.choice((1, 32, 64))), config=config)
        if r is None: continue
        ctx.ev("ecdh", ("valid" if valid else "invalid_secret") + ":mode%d" % mode, True, sk, ser33(P), mode)
        want_ret = 1 if (valid and mode != 2) else 0
        if not ctx.check(r.ret == want_ret, "ecdh:ret:%s" % ("succeeded_on_invalid" if r.ret else "failed_on_valid"), "sk=%s P=%s mode=%d %r" % (sk.hex(), ser33(P).hex(), mode, r), config): continue
        if want_ret:
            S = mul(d, P)
            want = ellswift.ecdh_default(S) if mode in (0, 1) else b32(S[0]) + b32(S[1])
            ctx.check(r.b(1) == want, "ecdh:output", "sk=%s P=%s mode=%d want %s got %s" % (sk.hex(), ser33(P).hex(), mode, want.hex(), r.b(1).hex()), config)
            # both parties derive the same secret
            if it % 3 == 0 and mode in (0, 1):
                e = pools.valid_seckey(rng); Q = mulG(e); qo = pkobj(ctx, Q, config); do = pkobj(ctx, mulG(d), config)
                a = ctx.call("ecdh", qo, sk, mode, config=config); b = ctx.call("ecdh", do, b32(e), mode, config=config)
                if a is not None and b is not None:
                    ctx.ev("ecdh", "both_parties", True, sk, b32(e))
                    ctx.check(a.ret == 1 and b.ret == 1 and a.b(1) == b.b(1), "ecdh:parties_disagree", "", config)

def special_strings(rng):
    out = []
    specials = [0, p, p + 1, 2**256 - 1, 1, p - 1, 2 * p if 2 * p < 2**256 else 0]
    for a in specials:
        for b in specials[:5]:
            out.append((b32(a) + b32(b), "special_ut"))
        out.append((b32(a) + b32(rng.getrandbits(256)), "special_u")); out.append((b32(rng.getrandbits(256)) + b32(a), "special_t"))
    # u^3 + t^2 + 7 = 0
    k = 0
    while k < 12:
        u = rng.randrange(1, p); t = fsqrt((-(u * u * u + 7)) % p)
        if t is None or t == 0: continue
        out.append((b32(u) + b32(t if k % 2 else p - t), "sum_zero_family")); k += 1
        if u + p < 2**256: out.append((b32(u + p) + b32(t), "sum_zero_family"))
    return out

def check_decode(ctx, config, s, cls):
    info = {}
    P = ellswift.decode(s, info)
    r = ctx.call("ellswift_decode", s, config=config)
    if r is None: return None
    ctx.ev("ellswift_decode", "%s:%s:%s" % (cls, info["branch"], info["remap"]), True, s)
    ctx.count("decode_branch_" + info["branch"]); ctx.count("decode_remap_" + info["remap"])
    got = pkpoint(ctx, r.b(1), config)
    ctx.check(r.ret == 1 and got == P and on_curve(P), "ellswift_decode:%s:wrong_point" % cls.split(":")[0], "ell=%s model=%s lib=%s" % (s.hex(), ser33(P).hex(), ser33(got).hex() if got else None), config)
    return P

def wl_decode(ctx, config):
    rng = ctx.rng
    for s, cls in ctx.mine(special_strings(rng)):
        check_decode(ctx, config, s, cls)
    for it in ctx.iters(2500, 60000):
        s = pools.rbytes(rng, 64) if it % 3 else b32(pools.field(rng)) + b32(pools.field(rng))
        check_decode(ctx, config, s, "random" if it % 3 else "pool")

def wl_encode(ctx, config):
    rng = ctx.rng
    for it in ctx.iters(500, 12000):
        d = pools.scalar(rng, 0.3); sk = b32(d); valid = 0 < d < n
        aux = None if it % 3 == 0 else pools.rbytes(rng, 32)
        r = ctx.call("ellswift_create", sk, aux, config=config)
        if r is None: continue
        ctx.ev("ellswift_create", "valid" if valid else "invalid_key", True, sk, aux or b'')
        if not valid:
            ctx.check(r.ret == 0 and r.b(1) == bytes(64), "ellswift_create:invalid_key:%s" % ("accepted" if r.ret else "output_not_zero"), sk.hex(), config); continue
        P = mulG(d)
        if ctx.check(r.ret == 1, "ellswift_create:failed_on_valid_key", sk.hex(), config):
            Q = check_decode(ctx, config, r.b(1), "created")
            ctx.check(Q == P, "ellswift_create:does_not_decode_to_key", "sk=%s ell=%s" % (sk.hex(), r.b(1).hex()), config)
        # encode the public key with several randomness values
        po = pkobj(ctx, P, config)
        for j in range(3):
            rnd = pools.rbytes(rng, 32) if j else b32(pools.scalar(rng))
            e = ctx.call("ellswift_encode", po, rnd, config=config)
            if e is None: continue
            ctx.ev("ellswift_encode", "pool_key" if j == 0 else "key", True, ser33(P), rnd)
            if ctx.check(e.ret == 1, "ellswift_encode:failed", "", config):
                Q = check_decode(ctx, config, e.b(1), "encoded")
                ctx.check(Q == P, "ellswift_encode:does_not_decode_to_key", "P=%s rnd=%s ell=%s" % (ser33(P).hex(), rnd.hex(), e.b(1).hex()), config)
                e2 = ctx.call("ellswift_encode", po, rnd, config=config)
                if e2 is not None: ctx.check(e2.b(1) == e.b(1), "ellswift_encode:not_deterministic", "", config)

def wl_xdh(ctx, config):
    rng = ctx.rng
    for it in ctx.iters(500, 12000):
        da = pools.scalar(rng, 0.25) if it % 5 == 0 else pools.valid_seckey(rng, 0.2); db = pools.valid_seckey(rng, 0.2)
        va = 0 < da < n
        # party A's encoding: from the library (valid key) or an arbitrary string (decodes to some point)
        if va:
            ea = ctx.call("ellswift_create", b32(da), pools.rbytes(rng, 32), config=config)
            if ea is None or ea.ret != 1: continue
            ell_a = ea.b(1)
        else: ell_a = pools.rbytes(rng, 64)
        if it % 4 == 0: ell_b = rng.choice(special_strings(rng))[0]; kb = None
        else:
            eb = ctx.call("ellswift_create", b32(db), None, config=config)
            if eb is None or eb.ret != 1: continue
            ell_b = eb.b(1); kb = db
        mode = it % 4; pre = pools.rbytes(rng, 64) if mode == 1 else None
        # hashers documented to ignore their data pointer (BIP-324, caller-supplied ones) get a non-NULL pointer in a third of the cases, on either side
        pre_a = pre if mode == 1 else (pools.rbytes(rng, 64) if it % 3 == 0 else None)
        if mode == 1 and it % 8 == 1:
            # prefixes built from the BIP-324 tag hash (the prefix for which the library has a precomputed midstate): whole, halves, neighbours
            th = sha(b"bip324_ellswift_xonly_ecdh")
            pre = rng.choice((th + th, th + bytes(32), th + pools.rbytes(rng, 32), bytes(32) + th, pools.rbytes(rng, 32) + th, th + th[:31] + bytes([th[31] ^ 1]), th[:31] + bytes([th[31] ^ 1]) + th))
        PB = ellswift.decode(ell_b)
        # A's view
        if mode == 1: pre_a = pre
        pre_b = pre if mode == 1 else (pools.rbytes(rng, 64) if it % 3 == 1 else None)
        ra = ctx.call("ellswift_xdh", ell_a, ell_b, b32(da), 0, mode, pre_a, config=config)
        if ra is None: continue
        ctx.ev("ellswift_xdh", ("valid" if va else "invalid_secret") + ":mode%d" % mode + (":data_given_to_ignoring_hasher" if mode != 1 and pre_a else ""), True, ell_a, ell_b, b32(da), mode)
        want_ret = 1 if (va and mode != 2) else 0
        if not ctx.check(ra.ret == want_ret, "ellswift_xdh:ret:%s" % ("succeeded_on_invalid" if ra.ret else "failed_on_valid"), "sk=%x mode=%d" % (da, mode), config): continue
        if not want_ret: continue
        x = mul(da, PB)[0]
        want = ellswift.xdh_bip324(ell_a, ell_b, x) if mode == 0 else (ellswift.xdh_prefix(pre, ell_a, ell_b, x) if mode == 1 else b32(x))
        ctx.check(ra.b(1) == want, "ellswift_xdh:output", "ell_a=%s ell_b=%s sk=%x mode=%d want %s got %s" % (ell_a.hex(), ell_b.hex(), da, mode, want.hex(), ra.b(1).hex()), config)
        if kb is not None:
            # "party: boolean indicating which party we are: zero if we are party A, non-zero if we are party B"
            party = 1 if it % 3 else rng.choice((2, 4, 256, -2, -1, 3, 2**31 - 1, -2**31, 0x10000, 0x7ffffffe, rng.randrange(2, 2**31), -rng.randrange(1, 2**31)))
            rb = ctx.call("ellswift_xdh", ell_a, ell_b, b32(kb), party, mode, pre_b, config=config)
            if rb is not None:
                ctx.ev("ellswift_xdh", "party_b%s:mode%d" % ("" if party == 1 else ":nonzero_not_1", mode), True, ell_a, ell_b, b32(kb), mode, party)
                ctx.check(rb.ret == 1 and rb.b(1) == ra.b(1), "ellswift_xdh:parties_disagree", "ell_a=%s ell_b=%s" % (ell_a.hex(), ell_b.hex()), config)

def run(ctx):
    for config in ctx.cfgs():
        wl_ecdh(ctx, config)
        wl_decode(ctx, config)
        wl_encode(ctx, config)
        wl_xdh(ctx, config)
