"""C19 Bulletproofs++ norm argument is complete and exact; generators are reproducible."""
from ref.ec import *
from ref import pools, bppp, zkp

ID = "C19"
LEVEL = "exploration"
CONFIGS = {"quick": ["san", "san_nv", "mx_i64"], "thorough": ["san", "san_nv", "mx_i64"]}
RULE = ("norm-argument prove -> verify for all (|n|,|l|) in {1,2,4,...,64}^2 with random / all-zero / pool-boundary vectors, transcript prefixes and rho "
        "values, prover with and without scratch space, verifier with scratch sizes from 0 upward (insufficient => 0, never a wrong 1); verification "
        "compared with an independent round-by-round folding verifier on honest proofs and on single-bit flips, sign byte > 3, infinity with a sign "
        "bit, scalars >= n (n+order / l+order re-encodings for chosen small n, l), wrong lengths, non-power-of-two sizes, generator-count mismatch, "
        "rho = 0; generator lists for counts 0..256 (prefix property, serialize/parse round trip), serialized strings of length 33k and 33k+-1 with a "
        "bad point at each position under the allocation monitor. non-trivial = model accepts or one mutation from accepted; distinct = (op, inputs)")
ASSUMPTIONS = ["ref/bppp.py is the folding formulation of the verification equation (validated against library verdicts at design time)",
               "the prover and verifier are internal routines reached through shim wrappers that mirror tests_impl.h (transcript = SHA-256 state after the prefix)"]
BIG = 1 << 20

def vec(rng, k, kind):
    if kind == "zero": return [0] * k
    if kind == "pool": return [pools.scalar(rng, 0.7) % n for _ in range(k)]
    if kind == "small": return [rng.randrange(0, 2**64) for _ in range(k)]
    return [rng.randrange(n) for _ in range(k)]
def sv(v): return b''.join(b32(x) for x in v) or b''

def vcase(ctx, config, scratch, prefix, rho, G, gser, g_len, c, C33, proof, cls, nontrivial=True):
    C = None if C33 == bytes(33) else parse_pubkey(C33)
    exp = bppp.verify(proof, prefix, rho, G, g_len, c, C)
    v = ctx.call("bppp_norm_verify", scratch, prefix or b'', b32(rho), gser, g_len, sv(c), C33, proof, config=config)
    if v is None: return None
    ctx.ev("bppp_norm_verify", cls, nontrivial, proof, prefix, rho, g_len, len(c), C33)
    ctx.check(v.ret == (1 if exp else 0), "bppp_norm_verify:%s:%s" % (cls, "accepted_invalid" if v.ret else "rejected_valid"),
              "g_len=%d h_len=%d rho=%x prefix=%s proof=%s.. model=%s" % (g_len, len(c), rho, (prefix or b'').hex(), proof[:70].hex(), exp), config)
    ctx.check(v.live == 0, "bppp_norm_verify:allocation_leak", "live=%d" % v.live, config)
    return exp

def wl_shapes(ctx, config):
    rng = ctx.rng
    sizes = [1, 2, 4, 8, 16, 32, 64]
    pairs = [(a, b) for a in sizes for b in sizes]
    reps = 1 if ctx.quick else 4
    allgens = bppp.gens(128)
    for a, b in ctx.mine(pairs * reps):
        if ctx.quick and a * b > 64 * 16 and rng.random() < 0.5: continue     # the 64x32 / 64x64 shapes cost ~1 s each in the model
        G = allgens[:a + b]; gser = bppp.gens_ser(G)
        kind = rng.choice(("random", "random", "pool", "small", "zero", "zero"))
        nv = vec(rng, a, kind); lv = vec(rng, b, kind if kind != "zero" or rng.random() < 0.5 else "random"); cv = vec(rng, b, "pool" if kind == "pool" else "random")
        rho = rng.choice((1, 2, n - 1, rng.randrange(1, n))); prefix = pools.rbytes(rng, rng.choice((0, 1, 32, 64, 65)))
        pscr = rng.choice((0, 256, 4096, BIG))
        pr = ctx.call("bppp_norm_prove", pscr, prefix or b'', b32(rho), gser, sv(nv), sv(lv), sv(cv), config=config)
        if pr is None: continue
        ctx.ev("bppp_norm_prove", "shape_%dx%d:%s:scratch%s" % (a, b, kind, "0" if not pscr else ("small" if pscr < BIG else "big")), True, a, b, rho, prefix, *[b32(x) for x in (nv + lv)[:4]])
        if not ctx.check(pr.ret == 1 and pr.i(1) == 1 and pr.live == 0, "bppp_norm_prove:failed", "shape %dx%d scratch=%d %r" % (a, b, pscr, pr), config): continue
        proof = pr.b(3); C33 = pr.b(4)
        Cm = bppp.commit(G, a, nv, lv, cv, rho)
        ctx.check(C33 == musig_cext(Cm), "bppp_commit:wrong_point", "shape %dx%d" % (a, b), config)
        e = vcase(ctx, config, BIG, prefix, rho, G, gser, a, cv, C33, proof, "honest")
        ctx.check(e is True, "model:honest_proof_rejected_by_model", "shape %dx%d kind=%s" % (a, b, kind), config)
        # verifier scratch sizes: an insufficient one must fail closed, a large one must give the model's answer
        for sz in (0, 1, 64, 200, 1000, 5000, 20000, 100000):
            v = ctx.call("bppp_norm_verify", sz, prefix or b'', b32(rho), gser, a, sv(cv), C33, proof, config=config)
            if v is None: continue
            ctx.ev("bppp_norm_verify", "scratch_size", True, sz, a, b, proof[:16])
            ctx.count("verifier_scratch_%s" % ("accepted" if v.ret else "refused"))
            ctx.check(v.ret in (0, 1) and v.live == 0, "bppp_norm_verify:scratch:bad_return_or_leak", "size=%d %r" % (sz, v), config)
            bad = bytearray(proof); bad[-1] ^= 1
            v2 = ctx.call("bppp_norm_verify", sz, prefix or b'', b32(rho), gser, a, sv(cv), C33, bytes(bad), config=config)
            if v2 is not None: ctx.check(v2.ret == 0, "bppp_norm_verify:scratch:wrong_accept", "size=%d" % sz, config)
        mutate(ctx, config, rng, prefix, rho, G, gser, a, cv, C33, proof)

def musig_cext(P): return bytes(33) if P is None else ser33(P)

def mutate(ctx, config, rng, prefix, rho, G, gser, a, cv, C33, proof):
    b = len(cv); rounds = (len(proof) - 64) // 65
    V = lambda pf, cls, **kw: vcase(ctx, config, BIG, kw.get("prefix", prefix), kw.get("rho", rho), kw.get("G", G), kw.get("gser", gser), kw.get("a", a), kw.get("cv", cv), kw.get("C33", C33), pf, cls)
    nb = len(proof) * 8
    for _ in range(6):
        i = rng.randrange(nb); t = bytearray(proof); t[i // 8] ^= 1 << (i % 8); V(bytes(t), "mut:bitflip")
    for i in range(rounds):
        if rng.random() < 0.6:
            t = bytearray(proof); t[65 * i] = rng.choice((4, 5, 8, 128, 255)) | (t[65 * i] & 3); V(bytes(t), "mut:sign_byte_gt_3")
            t = bytearray(proof); t[65 * i] ^= rng.choice((1, 2, 3)); V(bytes(t), "mut:sign_bit_flipped")
            # x coordinates that only LOOK like an existing encoding after reduction mod p: an infinite point (32 zero bytes, e.g. from a
            # zero-structured witness) re-encoded as the field prime p, and any x re-encoded as x + p when that fits
            for idx in (0, 1):
                xb = proof[65 * i + 1 + 32 * idx:65 * i + 33 + 32 * idx]; xv = I(xb)
                if xv == 0:
                    t = bytearray(proof); t[65 * i + 1 + 32 * idx:65 * i + 33 + 32 * idx] = b32(p); V(bytes(t), "mut:infinity_encoded_as_p")
                elif xv + p < 2**256:
                    t = bytearray(proof); t[65 * i + 1 + 32 * idx:65 * i + 33 + 32 * idx] = b32(xv + p); V(bytes(t), "mut:x_plus_p")
            # a point replaced by infinity (valid encoding) and by infinity with its sign bit set (invalid)
            for idx in (0, 1):
                t = bytearray(proof); t[65 * i + 1 + 32 * idx:65 * i + 33 + 32 * idx] = bytes(32); t[65 * i] &= ~(2 - idx) & 0xFF; V(bytes(t), "mut:point_to_infinity")
                t[65 * i] |= (2 - idx); V(bytes(t), "mut:infinity_with_sign_bit")
    o = 65 * rounds
    nn = I(proof[o:o + 32]); ll = I(proof[o + 32:])
    for off, val in ((o, nn), (o + 32, ll)):
        for nv_, cl in ((n, "n"), (2**256 - 1, "max"), (val + n if val + n < 2**256 else n + 1, "plus_order")):
            V(proof[:off] + b32(nv_) + proof[off + 32:], "mut:scalar_ge_n:" + cl)
        V(proof[:off] + b32((n - val) % n) + proof[off + 32:], "mut:scalar_negated"); V(proof[:off] + b32((val + 1) % n) + proof[off + 32:], "mut:scalar_plus_1")
    V(proof + b'\x00', "mut:len+1"); V(proof[:-1], "mut:len-1"); V(proof + bytes(65), "mut:extra_round"); V(proof[65:] if rounds else proof[:-32], "mut:missing_round")
    if len(proof) <= 64 + 65 * 2 and rng.random() < 0.5:
        # every length 0 .. len+70: the valid bytes truncated or followed by padding; only the exact length may be accepted
        tail = bytes(70) if rng.random() < 0.5 else bytes(rng.getrandbits(8) for _ in range(70))
        for L in range(0, len(proof) + 71):
            if L != len(proof): V((proof + tail)[:L], "len_sweep")
    V(proof, "mut:rho_zero", rho=0); V(proof, "mut:rho_n", rho=n); V(proof, "mut:other_rho", rho=(rho + 1) % n or 1)
    V(proof, "mut:other_prefix", prefix=prefix + b'x')
    c2 = list(cv); c2[rng.randrange(b)] = (c2[0] + 1) % n; V(proof, "mut:c_vec_altered", cv=c2)
    Cp = parse_pubkey(C33) if C33 != bytes(33) else None; C2 = add(Cp, G_pt())
    V(proof, "mut:other_commitment", C33=musig_cext(C2))
    # size / count mismatches
    # sizes that are not powers of two but whose generator count and proof length are consistent with them (so that the size test itself,
    # not an earlier count / length test, has to refuse)
    if rng.random() < 0.3:
        allg = bppp.gens(24)
        for a2, b2 in ((3, 4), (4, 3), (5, 2), (6, 6), (7, 1), (1, 3), (12, 4), (2, 6)):
            G2 = allg[:a2 + b2]; cv2 = [rng.randrange(n) for _ in range(b2)]
            for r2 in range(0, 5):
                V(bytes(rng.getrandbits(8) for _ in range(65 * r2 + 64)), "non_power_of_two:consistent_counts", a=a2, cv=cv2, G=G2, gser=bppp.gens_ser(G2))
    if a > 1: V(proof, "mut:g_len_halved", a=a // 2)
    V(proof, "mut:g_len_doubled", a=a * 2)
    if a >= 2: V(proof, "mut:g_len_not_power_of_two", a=a - 1 if a > 2 else 3)
    if b >= 2: V(proof, "mut:c_len_not_power_of_two", cv=cv[:-1] if b > 2 else cv + [1])
    V(proof, "mut:generator_count_short", G=G[:-1], gser=gser[:-33]) if len(G) > 1 else None
    G2 = list(G); j = rng.randrange(len(G)); G2[j] = neg(G2[j]); V(proof, "mut:generator_negated", G=G2, gser=bppp.gens_ser(G2))

def G_pt(): return G

def wl_chosen_nl(ctx, config):
    """(1,1) shape: the proof is n || l chosen by the prover; with small n, l the re-encodings n+order, l+order are constructible"""
    rng = ctx.rng
    Gs = bppp.gens(2); gser = bppp.gens_ser(Gs)
    for it in ctx.iters(160, 4000):
        nv = [rng.choice((0, 1, 2, rng.randrange(2**100)))]; lv = [rng.choice((0, 1, rng.randrange(2**100)))]; cv = [rng.randrange(n)]
        rho = rng.randrange(1, n); prefix = pools.rbytes(rng, rng.randrange(0, 40))
        pr = ctx.call("bppp_norm_prove", rng.choice((0, 4096)), prefix or b'', b32(rho), gser, sv(nv), sv(lv), sv(cv), config=config)
        if pr is None or pr.ret != 1: continue
        proof = pr.b(3); C33 = pr.b(4)
        ctx.ev("bppp_norm_prove", "shape_1x1:chosen", True, nv[0], lv[0], cv[0], rho)
        ctx.check(proof == b32(nv[0]) + b32(lv[0]), "bppp_norm_prove:1x1_proof_is_not_n_l", proof.hex(), config)
        vcase(ctx, config, 4096, prefix, rho, Gs, gser, 1, cv, C33, proof, "chosen_nl:honest")
        vcase(ctx, config, 4096, prefix, rho, Gs, gser, 1, cv, C33, b32(nv[0] + n) + b32(lv[0]), "chosen_nl:n_plus_order")
        vcase(ctx, config, 4096, prefix, rho, Gs, gser, 1, cv, C33, b32(nv[0]) + b32(lv[0] + n), "chosen_nl:l_plus_order")
        # n -> -n keeps n^2: the commitment changes unless n*g0 = 0, so it must be rejected for n != 0
        vcase(ctx, config, 4096, prefix, rho, Gs, gser, 1, cv, C33, b32((n - nv[0]) % n) + b32(lv[0]), "chosen_nl:n_negated")

def wl_generators(ctx, config):
    rng = ctx.rng
    model = bppp.gens(257); prev = None
    for k in ctx.mine(range(0, 257)):
        r = ctx.call("bppp_gens_create", k, config=config)
        if r is None: continue
        ctx.ev("bppp_gens_create", "count", True, k)
        want = bppp.gens_ser(model[:k])
        ok = r.i(0) == 1 and r.i(1) == 1 and r.i(2) == 33 * k and (r.b(3) or b'') == want
        ctx.check(ok, "bppp_generators_create:not_the_deterministic_prefix", "k=%d" % k, config)
        ctx.check(r.live == 0, "bppp_generators:leak_after_destroy", "k=%d live=%d" % (k, r.live), config)
        # round trip through parse with exact / larger buffers
        for bl in (33 * k, 33 * k + 7):
            p2 = ctx.call("bppp_gens_parse", want or b'', bl, config=config)
            if p2 is None: continue
            ctx.ev("bppp_gens_parse", "roundtrip", True, k, bl)
            ctx.check(p2.i(0) == 1 and p2.i(1) == 1 and p2.i(2) == 33 * k and (p2.b(3) or b'')[:33 * k] == want and p2.live == 0, "bppp_generators_parse:roundtrip", "k=%d %r" % (k, p2), config)
        if k:
            sb = ctx.call("bppp_gens_parse", want, 33 * k - 1, config=config, ill=2)      # too small output buffer: documented illegal use
            if sb is not None: ctx.check(sb.live == 0, "bppp_generators:leak_after_destroy", "", config)
    # malformed encodings
    for it in ctx.iters(300, 8000):
        k = rng.choice((1, 2, 3, 5, 16, 64)); want = bytearray(bppp.gens_ser(model[:k])); kind = it % 6
        if kind == 0: s = bytes(want) + pools.rbytes(rng, rng.choice((1, 32)))
        elif kind == 1: s = bytes(want[:-rng.choice((1, 32))])
        elif kind == 2: j = rng.randrange(k); want[33 * j] = rng.choice((0, 2, 3, 8, 9, 12, 255)); s = bytes(want)
        elif kind == 3:
            j = rng.randrange(k)
            while True:
                x = rng.randrange(p)
                if lift_x(x) is None: break
            want[33 * j + 1:33 * j + 33] = b32(x); s = bytes(want)
        elif kind == 4: j = rng.randrange(k); want[33 * j + 1:33 * j + 33] = b32(rng.choice((p, p + 1, 2**256 - 1))); s = bytes(want)
        else: j = rng.randrange(k); want[33 * j] ^= 1; s = bytes(want)          # the other (valid) sign: parses to the negated generator
        exp = bppp.gens_parse(s)
        r = ctx.call("bppp_gens_parse", s, len(s) + 33, config=config)
        if r is None: continue
        ctx.ev("bppp_gens_parse", "malformed:kind%d" % kind, True, s)
        ctx.check(r.i(0) == (1 if exp is not None else 0), "bppp_generators_parse:%s" % ("accepted_malformed" if r.i(0) else "rejected_valid"), "kind=%d len=%d" % (kind, len(s)), config)
        ctx.check(r.live == 0, "bppp_generators_parse:leak_on_%s" % ("reject" if r.i(0) == 0 else "accept"), "kind=%d live=%d mallocs=%d" % (kind, r.live, r.m), config)
        if exp is not None and r.i(0) == 1: ctx.check(r.b(3)[:len(s)] == s, "bppp_generators_serialize:roundtrip", "", config)

def run(ctx):
    for config in ctx.cfgs():
        wl_shapes(ctx, config)
        wl_chosen_nl(ctx, config)
        wl_generators(ctx, config)
