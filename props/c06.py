"""C06 Secret-dependent data never steers branches or memory addresses."""
import os, re, subprocess
from vlib import build
from vlib.runner import Inconclusive

ID = "C06"
LEVEL = "exploration"
CONFIGS = {"quick": [], "thorough": []}
CT = {"quick": ["ct_default", "ct_int64", "ct_i128s"], "thorough": ["ct_default", "ct_int64", "ct_i128s", "ct_o3", "ct_os", "ct_noasm", "ct_clang"]}
EXTRA_BUILDS = CT["thorough"]
SHARDS = {"quick": 3, "thorough": 7}
RULE = ("every API the project declares constant-time (key generation, ECDSA +recoverable / Schnorr / sign-to-contract / anti-exfil / adaptor signing, ECDH and "
        "ElligatorSwift, secret-key verify / negate / tweak, keypair operations, MuSig nonce generation (both entry points, every optional-argument subset), "
        "partial signing with 1..5 signers, 0..3 tweaks, adaptor present / absent, adapt / extract, adaptor decrypt / recover, context randomisation) is executed "
        "under valgrind memcheck on the library compiled as its own translation unit with the shipped flags and -DVALGRIND; the arguments the maintainers treat as "
        "secret (src/ctime_tests.c) are marked undefined before each call and outputs are declassified after it; the memcheck error counter is sampled around "
        "every call, on fresh, public-seed-randomised and secret-seed-randomised contexts, for several compiled variants of the library; a canary branch on "
        "undefined data proves the monitor live. non-trivial = every executed (operation, public variation, context mode, binary); distinct = the same tuple")
ASSUMPTIONS = ["memcheck's definedness propagation is bit-precise enough on the executed instructions; the verdict is per compiled binary",
               "timing channels that are not control-flow or address dependent are out of reach",
               "secret arguments follow src/ctime_tests.c: auxrnd32 of ellswift_create and the keypair object handed to musig_nonce_gen_counter are public there"]

def run(ctx):
    cfgs = CT[ctx.tier]
    if ctx.shard >= len(cfgs): return
    cfg = cfgs[ctx.shard]
    path = build.build(cfg, ctx.repo)
    nvar = 6 if ctx.quick else 40
    try:
        r = subprocess.run(["valgrind", "--tool=memcheck", "--error-limit=no", "--error-exitcode=0", "--num-callers=12", path, str(nvar + ctx.seed % 3), "3"], capture_output=True, text=True, timeout=3000)
    except subprocess.TimeoutExpired:
        raise Inconclusive("valgrind run of %s timed out" % cfg)
    out = r.stdout
    m = re.search(r"CANARY errors=(\d+)", out)
    if "CTFAIL" in out or "CTDONE" not in out or not m:
        ctx.fail("C06:%s:driver_failed" % cfg, "rc=%d\n%s\n%s" % (r.returncode, out[-1500:], r.stderr[-3000:]), cmds=["valgrind " + path], config=cfg); return
    if int(m.group(1)) < 1:
        raise Inconclusive("canary not reported by memcheck on %s: monitor not live" % cfg)
    ctx.count("canary_reports", int(m.group(1)))
    # valgrind error blocks with the first library frame
    blocks = re.findall(r"==\d+== (Conditional jump or move depends on uninitialised value\(s\)|Use of uninitialised value of size \d+)\n((?:==\d+==    (?:at|by) .*\n)+)", r.stderr)
    lib_frames = []
    for kind, frames in blocks:
        fr = re.findall(r"(?:at|by) 0x[0-9A-F]+: (\S+) \(([^)]*)\)", frames)
        fr = [f for f in fr if not f[1].startswith("ctdriver.c")]
        lib_frames.append((kind, fr[0][0] + "@" + fr[0][1].split(":")[0] if fr else "driver"))
    tainted = 0; nops = 0; li = 0
    for line in out.splitlines():
        mm = re.match(r"CT op=(\S+) variant=(\d+) ctx=(\d+) errors=(\d+) tainted=(\d+)", line)
        if not mm: continue
        op, var, mode, errs, tb = mm.group(1), int(mm.group(2)), int(mm.group(3)), int(mm.group(4)), int(mm.group(5))
        nops += 1; tainted += tb
        ctx.ev("ct:" + op, "%s:ctx%d" % (cfg, mode), True, cfg, op, var, mode)
        if errs:
            where = "; ".join(sorted(set("%s in %s" % f for f in lib_frames)))[:1500]
            ctx.fail("C06:%s:secret_dependent_branch_or_address" % op, "%s ctx_mode=%d variant=%d: %d memcheck report(s) while secret arguments were undefined: %s\n%s" % (cfg, mode, var, errs, where, r.stderr[:4000]),
                     cmds=["valgrind --tool=memcheck %s %d 3" % (path, nvar)], config=cfg)
    ctx.count("ct_operations_executed", nops); ctx.count("secret_bytes_marked_undefined", tainted); ctx.count("binaries", 1)
    if nops == 0 or tainted == 0: raise Inconclusive("no constant-time operation executed")

def post(cov, viol, tier):
    if cov["monitors"].get("binaries", 0) < len(CT[tier]): raise Inconclusive("only %d of %d binaries ran" % (cov["monitors"].get("binaries", 0), len(CT[tier])))
