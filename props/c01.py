"""C01 ECDSA verification and signing are exact over all inputs."""
from ref.ec import *
from ref import pools, ecdsa
from ref.hashes import rfc6979_nonce

ID = "C01"
LEVEL = "exploration"
CONFIGS = {"quick": ["san", "mx_i64", "mx_noasm"], "thorough": ["san", "san_nv", "mx_i64", "mx_i128s", "mx_noasm", "mx_clang", "mx_w2"]}
EXTRA_BUILDS = ["sg13", "sg199"]
RULE = ("sign / sign_recoverable / recover / verify / normalize records on pool-biased keys, messages (incl. >= n), extra data and scripted "
        "nonce callbacks, and on verification triples built by honest signing, the choose-s construction (s in {1,2,(n-1)/2,(n+1)/2,n-1,small}), "
        "the choose-R construction (R.x in [n,p), exercising r+n<p), r/s = 0 via the compact parser, and single-bit flips of r, s, m, Q; every "
        "return value and output is compared with a textbook ECDSA + RFC 6979 model. non-trivial = the model expects acceptance/success, or the "
        "case is one mutation away from such a case; distinct = distinct (op, inputs)")
ASSUMPTIONS = ["the reference model (ref/ecdsa.py, ref/hashes.py) transcribes RFC 6979 / SEC1 ECDSA and the library's documented conventions correctly",
               "nothing is claimed for inputs, paths or build configurations the workload did not produce"]

def script(entries):
    """entries: list of (flag, nonce_int)"""
    return b''.join(bytes([f]) + b32(k) for f, k in entries)

def pk_obj(ctx, P, config):
    r = ctx.call("pubkey_parse", ser33(P), config=config)
    return r.b(1) if r is not None and r.ret == 1 else None

def check_sign(ctx, config, sk, msg, mode, extra, scr=None, cls="sign"):
    """one signing record (plain + recoverable) against the model"""
    if mode == 2:
        ents = scr
        def nf(c):
            if c >= len(ents) or ents[c][0] == 0: return None
            return b32(ents[c][1])
        ok, r_, s_, recid, calls = ecdsa.sign(sk, msg, noncefn=nf)
        arg = script(ents)
    else:
        ok, r_, s_, recid, calls = ecdsa.sign(sk, msg, extra=extra)
        arg = extra
    want = (b32(r_) + b32(s_)) if ok else bytes(64)
    r = ctx.call("ecdsa_sign", msg, sk, mode, arg, config=config)
    if r is None: return
    d = I(sk); valid = 0 < d < n
    ctx.ev("ecdsa_sign", cls, True, sk, msg, mode, arg or b'')
    if not ctx.check(r.ret == ok, "ecdsa_sign:%s:ret" % cls, "sk=%s msg=%s mode=%d arg=%s model ok=%d lib=%r" % (sk.hex(), msg.hex(), mode, (arg or b'').hex(), ok, r), config): return
    c = ctx.call("sig_serialize_compact", r.b(1), config=config)
    if c is None: return
    if not ctx.check(c.b(1) == want, "ecdsa_sign:%s:%s" % (cls, "bytes" if ok else "nonzero_output_on_failure"),
                     "sk=%s msg=%s mode=%d arg=%s want %s got %s" % (sk.hex(), msg.hex(), mode, (arg or b'').hex(), want.hex(), c.b(1).hex()), config): return
    if mode == 2:
        ctx.check(r.i(2) == calls, "ecdsa_sign:%s:nonce_calls" % cls, "want %d calls got %d" % (calls, r.i(2)), config)
    if ok:
        ctx.check(s_ <= HALF_N, "model:high_s", "", config)
        Q = mulG(d); pk = pk_obj(ctx, Q, config)
        v = ctx.call("ecdsa_verify", r.b(1), msg, pk, config=config)
        if v is not None: ctx.check(v.ret == 1, "ecdsa_sign:%s:output_does_not_verify" % cls, "sk=%s msg=%s" % (sk.hex(), msg.hex()), config)
        nz = ctx.call("sig_normalize", r.b(1), 1, config=config)
        if nz is not None: ctx.check(nz.ret == 0 and nz.b(1) == r.b(1), "ecdsa_sign:%s:not_low_s" % cls, repr(nz), config)
    # recoverable variant
    rr = ctx.call("ecdsa_sign_recoverable", msg, sk, mode if mode != 3 else 1, arg, config=config)
    if rr is None: return
    ctx.ev("ecdsa_sign_recoverable", cls, True, sk, msg, mode, arg or b'')
    if not ctx.check(rr.ret == ok, "ecdsa_sign_recoverable:%s:ret" % cls, "sk=%s msg=%s model ok=%d lib=%r" % (sk.hex(), msg.hex(), ok, rr), config): return
    sc = ctx.call("rsig_serialize_compact", rr.b(1), config=config)
    if sc is None: return
    ctx.check(sc.b(1) == want and sc.i(2) == (recid if ok else 0), "ecdsa_sign_recoverable:%s:%s" % (cls, "bytes_or_recid" if ok else "nonzero_output_on_failure"),
              "sk=%s msg=%s want %s recid %d got %r" % (sk.hex(), msg.hex(), want.hex(), recid, sc), config)
    if ok:
        rec = ctx.call("ecdsa_recover", rr.b(1), msg, config=config)
        if rec is not None:
            good = rec.ret == 1
            if good:
                ser = ctx.call("pubkey_serialize", rec.b(1), 33, 258, config=config)
                good = ser is not None and ser.b(2) == ser33(Q)
            ctx.check(good, "ecdsa_recover:signer_key_not_recovered", "sk=%s msg=%s" % (sk.hex(), msg.hex()), config)
        cv = ctx.call("rsig_convert", rr.b(1), config=config)
        if cv is not None: ctx.check(cv.b(1) == r.b(1), "rsig_convert:differs_from_plain_signature", "", config)

def wl_sign(ctx, config, scale=1.0):
    rng = ctx.rng
    for it in range(int(ctx.n(1600, 40000) * scale)):
        k = pools.scalar(rng, 0.4); sk = b32(k)
        msg = pools.msg32(rng, 0.5)
        cls = "key_invalid" if not 0 < k < n else ("msg_ge_n" if I(msg) >= n else "sign")
        mode = rng.choice((0, 0, 1, 3))
        extra = None if rng.random() < 0.5 else (pools.msg32(rng, 0.3))
        check_sign(ctx, config, sk, msg, mode, extra, cls=cls + (":extra" if extra else ""))
    # scripted nonce callbacks: drive the retry loop and its failure exits
    for it in range(int(ctx.n(400, 10000) * scale)):
        k = pools.scalar(rng, 0.15); sk = b32(k); d = k if 0 < k < n else 1
        msg = pools.msg32(rng, 0.3)
        ents = []
        for _ in range(rng.randrange(0, 4)):
            kind = rng.randrange(4)
            if kind == 0: ents.append((1, 0))
            elif kind == 1: ents.append((1, rng.choice((n, n + 1, 2**256 - 1))))
            elif kind == 2:
                # a nonce for which s == 0: choose k, then the message m = -r*d (the retry branch after the sign core)
                kk = rng.randrange(1, n); r_ = mulG(kk)[0] % n
                msg = b32((-r_ * d) % n); ents.append((1, kk))
            else: ents.append((1, rng.randrange(1, n)))
        last = rng.randrange(3)
        if last == 0: ents.append((0, 0))
        elif last == 1: ents.append((1, rng.randrange(1, n)))
        check_sign(ctx, config, sk, msg, 2, None, scr=ents, cls="scripted:" + "".join("f" if f == 0 else ("z" if kv == 0 else ("o" if kv >= n else "v")) for f, kv in ents))

def verify_case(ctx, config, r_, s_, msg, Q, cls, nontrivial=True):
    exp = ecdsa.verify_rs(r_, s_, msg, Q)
    so = ctx.call("sig_parse_compact", b32(r_) + b32(s_), config=config)
    pk = pk_obj(ctx, Q, config)
    if so is None or pk is None or so.ret != 1: return
    v = ctx.call("ecdsa_verify", so.b(1), msg, pk, config=config)
    if v is None: return
    ctx.ev("ecdsa_verify", cls, nontrivial, r_, s_, msg, Q)
    ctx.check(v.ret == (1 if exp else 0), "ecdsa_verify:%s:%s" % (cls, "accepted_invalid" if v.ret else "rejected_valid"),
              "r=%064x s=%064x msg=%s Q=%s model=%s lib=%d" % (r_, s_, msg.hex(), ser33(Q).hex(), exp, v.ret), config)
    if s_ > HALF_N and 0 < r_ < n:
        # high-S twin: rejected by verify, accepted after normalize iff the low-S form is valid
        nz = ctx.call("sig_normalize", so.b(1), 1, *(("!alias",) if ctx.rng.random() < 0.3 else ()), config=config)     # "sigout can be identical to sigin"
        if nz is None: return
        ctx.check(nz.ret == 1, "sig_normalize:high_s_not_reported", "", config)
        v2 = ctx.call("ecdsa_verify", nz.b(1), msg, pk, config=config)
        exp2 = ecdsa.verify_rs(r_, n - s_, msg, Q)
        if v2 is not None: ctx.check(v2.ret == (1 if exp2 else 0), "ecdsa_verify:%s:normalized_twin" % cls, "r=%x s=%x" % (r_, s_), config)
        n2 = ctx.call("sig_normalize", nz.b(1), 1, config=config)
        if n2 is not None: ctx.check(n2.ret == 0 and n2.b(1) == nz.b(1), "sig_normalize:not_idempotent", "", config)

def choose_s(rng, s_):
    """valid (r, s, m, Q) with exactly this s"""
    d = rng.randrange(1, n); k = rng.randrange(1, n)
    R = mulG(k); r_ = R[0] % n
    m = b32((s_ * k - r_ * d) % n)
    return r_, s_, m, mulG(d), R

_bigx = []
def big_x_point(rng):
    """a curve point with x in [n, p): r = x - n is valid only through the second comparison"""
    while True:
        t = rng.randrange(0, p - n)
        R = lift_x(n + t)
        if R:
            return R if rng.random() < 0.5 else neg(R)

def choose_R(rng):
    R = big_x_point(rng); r_ = R[0] - n
    if r_ == 0: return None
    u1 = rng.randrange(0, n); u2 = rng.randrange(1, n)
    Q = mul(pow(u2, -1, n), sub(R, mulG(u1)))
    if Q is None: return None
    s_ = r_ * pow(u2, -1, n) % n; m = u1 * s_ % n
    flip = s_ > HALF_N
    if flip: s_ = n - s_
    return r_, s_, b32(m), Q, (neg(R) if flip else R)

def forge_r(rng, R, r_):
    """a triple (r_, s, m, Q) for which the verifier's computed point is exactly R, whatever r_ is: it is valid iff
    X(R) mod n == r_.  Lets the monitor probe every numeric relation between r and X(R) (r = X + (p - n), X + n mod 2^256,
    X - n, X + 1 ...), not only the relations honest signing produces."""
    if not (0 < r_ < n): return None
    u1 = rng.randrange(0, n); u2 = rng.randrange(1, n)
    Q = mul(pow(u2, -1, n), sub(R, mulG(u1)))
    if Q is None: return None
    s_ = r_ * pow(u2, -1, n) % n; m = u1 * s_ % n
    if s_ > HALF_N: s_ = n - s_; Q = Q  # (r, n-s) computes -R: same x, still the relation under test
    return r_, s_, b32(m), Q

FORGE_RELS = [("x", lambda X: X % n), ("x+(p-n)", lambda X: X + (p - n)), ("x-(p-n)", lambda X: X - (p - n)), ("x+n-p", lambda X: X + n - p),
              ("x+1", lambda X: X % n + 1), ("x-1", lambda X: X % n - 1), ("p-x", lambda X: (p - X) % n), ("n-x", lambda X: (n - X) % n),
              ("x+2^256-p", lambda X: X + 2**256 - p), ("x+2^256-n_mod_n", lambda X: (X + 2**256 - n) % n), ("2x", lambda X: 2 * X % n),
              ("x>>1", lambda X: X >> 1), ("x^top", lambda X: X ^ (1 << 255)), ("x-n", lambda X: X - n), ("x+n", lambda X: X + n)]

def wl_forge(ctx, config, scale=1.0):
    rng = ctx.rng
    for it in range(int(ctx.n(1500, 40000) * scale)):
        k = it % 4
        if k == 0: R = big_x_point(rng)                                  # x in [n, p)
        elif k == 1:                                                      # x just below n / just below p - n / tiny
            R = None
            while R is None: R = lift_x((rng.choice((n - 1, p - n, p - n - 1, 2 * n - p, p, 2**32, 2**128)) - rng.randrange(1, 2**20)) % p if rng.random() < 0.8 else rng.randrange(1, 2**34))
        else: R = mulG(rng.randrange(1, n))
        nm, f = FORGE_RELS[rng.randrange(len(FORGE_RELS))] if it % 5 else FORGE_RELS[1]
        t = forge_r(rng, R, f(R[0]))
        if t is None: continue
        r_, s_, m, Q = t
        verify_case(ctx, config, r_, s_, m, Q, "forge_r:" + nm + (":x>=n" if R[0] >= n else (":x<p-n" if R[0] < p - n else "")))

def wl_nonce_fn(ctx, config, scale=1.0):
    """the exported RFC 6979 nonce function called directly: every combination of algo16 / extra data present or absent, attempt counters
    0..5, messages below and above n"""
    rng = ctx.rng
    for it in range(int(ctx.n(200, 5000) * scale)):
        sk = b32(pools.scalar(rng, 0.3)); msg = pools.msg32(rng, 0.4)
        algo = pools.rbytes(rng, 16) if it % 2 else None; data = pools.rbytes(rng, 32) if (it >> 1) % 2 else None; cnt = rng.choice((0, 0, 1, 2, 5))
        r = ctx.call("nonce_rfc6979", msg, sk, algo, data, cnt, config=config)
        if r is None: continue
        ctx.ev("nonce_rfc6979", "algo%d:data%d:attempt%d" % (algo is not None, data is not None, min(cnt, 2)), True, msg, sk, algo or b'', data or b'', cnt)
        want = rfc6979_nonce(sk, msg, data, algo, cnt)
        ctx.check(r.ret == 1 and r.b(1) == want, "nonce_rfc6979:bytes", "sk=%s msg=%s algo=%s data=%s attempt=%d want %s got %r" % (sk.hex(), msg.hex(), algo, data, cnt, want.hex(), r), config)

def wl_infinity(ctx, config, scale=1.0):
    """u1*G + u2*Q is the point at infinity (Q = -(m/r) G): must be rejected, for every r, s"""
    rng = ctx.rng
    for it in range(int(ctx.n(150, 3000) * scale)):
        r_ = pools.scalar(rng, 0.3) % n or 1; s_ = rng.choice((1, HALF_N, rng.randrange(1, HALF_N + 1))); m = rng.randrange(1, n)
        Q = mulG((-m * pow(r_, -1, n)) % n)
        verify_case(ctx, config, r_, s_, b32(m), Q, "crafted:sum_infinity")
        if m + n < 2**256: verify_case(ctx, config, r_, s_, b32(m + n), Q, "crafted:sum_infinity/m_plus_n")

def wl_verify(ctx, config, scale=1.0):
    rng = ctx.rng
    specials = [1, 2, 3, (n - 1) // 2, (n + 1) // 2, (n - 1) // 2 - 1, (n + 1) // 2 + 1, n - 1, n - 2, 2**128, 2**64, 2**255]
    for it in range(int(ctx.n(2500, 60000) * scale)):
        kind = it % 10
        if kind < 3:
            s_ = rng.choice(specials) if kind < 1 else (pools.near_limbwise(rng, HALF_N) % n or 1 if kind < 2 else rng.randrange(1, 2**100))
            r_, s_, m, Q, R = choose_s(rng, s_)
            cls = "choose_s:" + ("high" if s_ > HALF_N else "low")
        elif kind < 5:
            t = choose_R(rng)
            if t is None: continue
            r_, s_, m, Q, R = t; cls = "choose_R:x>=n"
        else:
            d = rng.randrange(1, n); m = pools.msg32(rng, 0.3)
            res = None
            while res is None: res = ecdsa.sign_with_nonce(d, m, rng.randrange(1, n))
            r_, s_, _ = res; Q = mulG(d); cls = "honest"
        verify_case(ctx, config, r_, s_, m, Q, cls)
        # neighbours and mutations
        mut = rng.randrange(9)
        if mut == 0: verify_case(ctx, config, (r_ + 1) % n, s_, m, Q, cls + "/r+1")
        elif mut == 1: verify_case(ctx, config, (r_ - 1) % n, s_, m, Q, cls + "/r-1")
        elif mut == 2: verify_case(ctx, config, r_, n - s_, m, Q, cls + "/s_negated")
        elif mut == 3:
            i = rng.randrange(256); verify_case(ctx, config, (r_ ^ (1 << i)) % n, s_, m, Q, cls + "/flip_r")
        elif mut == 4:
            i = rng.randrange(256); verify_case(ctx, config, r_, (s_ ^ (1 << i)) % n, m, Q, cls + "/flip_s")
        elif mut == 5:
            i = rng.randrange(256); mm = bytearray(m); mm[i // 8] ^= 1 << (i % 8); verify_case(ctx, config, r_, s_, bytes(mm), Q, cls + "/flip_m")
        elif mut == 6: verify_case(ctx, config, r_, s_, m, neg(Q), cls + "/Q_negated")
        elif mut == 7: verify_case(ctx, config, r_, s_, b32((I(m) + n) % 2**256) if I(m) + n < 2**256 else b32(I(m) % n), Q, cls + "/m_plus_n")
        else: verify_case(ctx, config, r_, s_, m, add(Q, G), cls + "/Q+G")
    # r or s zero / boundary through the parser
    for r_, s_ in ctx.mine([(a, b) for a in (0, 1, n - 1, (n - 1) // 2, (n + 1) // 2, p - n, p - n - 1) for b in (0, 1, n - 1, (n - 1) // 2, (n + 1) // 2)]):
        for _ in range(2):
            verify_case(ctx, config, r_, s_, pools.msg32(rng), mulG(rng.randrange(1, n)), "boundary_rs", nontrivial=True)

def wl_recover(ctx, config, scale=1.0):
    rng = ctx.rng
    for it in range(int(ctx.n(800, 20000) * scale)):
        kind = it % 4
        if kind == 0:
            t = choose_R(rng)
            if t is None: continue
            r_, s_, m, Q, R = t; cls = "choose_R"
        else:
            d = rng.randrange(1, n); m = pools.msg32(rng, 0.3); k = rng.randrange(1, n)
            res = ecdsa.sign_with_nonce(d, m, k)
            if res is None: continue
            r_, s_, _ = res; Q = mulG(d); cls = "honest"
        for recid in range(4):
            exp = ecdsa.recover(r_, s_, recid, m)
            po = ctx.call("rsig_parse_compact", b32(r_) + b32(s_), recid, config=config)
            if po is None or po.ret != 1: continue
            rec = ctx.call("ecdsa_recover", po.b(1), m, config=config)
            if rec is None: continue
            ctx.ev("ecdsa_recover", cls + ":recid%d" % recid, True, r_, s_, recid, m)
            if not ctx.check(rec.ret == (1 if exp else 0), "ecdsa_recover:%s:recid%d:ret" % (cls, recid), "r=%x s=%x m=%s model=%s lib=%r" % (r_, s_, m.hex(), exp, rec), config): continue
            if exp:
                ser = ctx.call("pubkey_serialize", rec.b(1), 33, 258, config=config)
                if ser is not None: ctx.check(ser.b(2) == ser33(exp), "ecdsa_recover:%s:wrong_key" % cls, "r=%x s=%x recid=%d" % (r_, s_, recid), config)
        # exactly one recid recovers the signer's key
        hits = [rc for rc in range(4) if ecdsa.recover(r_, s_, rc, m) == Q]
        ctx.check(len(hits) >= 1, "model:no_recid_recovers_signer", "", config)
    # zero r/s and out-of-range recid
    for r_, s_, recid in ctx.mine([(0, 1, 0), (1, 0, 1), (0, 0, 2), (n - 1, n - 1, 3), (p - n, 1, 2), (p - n - 1, 1, 2), (p - n + 1, 1, 3)]):
        po = ctx.call("rsig_parse_compact", b32(r_) + b32(s_), recid, config=config)
        if po is None or po.ret != 1: continue
        m = pools.msg32(rng); exp = ecdsa.recover(r_, s_, recid, m)
        rec = ctx.call("ecdsa_recover", po.b(1), m, config=config)
        if rec is None: continue
        ctx.ev("ecdsa_recover", "boundary", True, r_, s_, recid, m)
        ctx.check(rec.ret == (1 if exp else 0), "ecdsa_recover:boundary:ret", "r=%x s=%x recid=%d model=%s lib=%r" % (r_, s_, recid, exp, rec), config)
    for recid in ctx.mine([-1, 4, 5, 255]):
        po = ctx.call("rsig_parse_compact", b32(1) + b32(1), recid, config=config, ill=2)
        if po is not None: ctx.check(po.ret == 0, "rsig_parse_compact:bad_recid_accepted", str(recid), config)
    for sc in ctx.mine([(n, 1), (1, n), (2**256 - 1, 1)]):
        po = ctx.call("rsig_parse_compact", b32(sc[0]) + b32(sc[1]), 0, config=config)
        if po is not None: ctx.check(po.ret == 0, "rsig_parse_compact:out_of_range_accepted", "%x %x" % sc, config)

def run(ctx):
    from vlib import smallgroup
    smallgroup.run(ctx, 'ecdsa', {'ecdsa_compact_reenc': 'accepted', 'ecdsa_seckey_reenc': 'accepted'})
    for i, config in enumerate(ctx.configs):
        scale = 1.0 if i == 0 else 0.25
        wl_sign(ctx, config, scale)
        wl_verify(ctx, config, scale)
        wl_forge(ctx, config, scale)
        wl_infinity(ctx, config, scale)
        wl_nonce_fn(ctx, config, scale)
        wl_recover(ctx, config, scale)
