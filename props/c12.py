"""C12 MuSig2 computes BIP-327 and honest sessions always yield valid signatures."""
from ref.ec import *
from ref import pools, musig, schnorr

ID = "C12"
LEVEL = "exploration"
CONFIGS = {"quick": ["san", "san_nv", "mx_i64"], "thorough": ["san", "san_nv", "mx_i64", "mx_i128s"]}
EXTRA_BUILDS = ["sg13", "sg199"]
RULE = ("complete signing sessions with 1..16 signers over key multisets (distinct, first key repeated, all equal, sorted or not), 0..6 plain / x-only "
        "tweaks (incl. tweaks >= n and the tweak that cancels the aggregate key), every subset of optional nonce-generation arguments, the counter entry "
        "point over the 64-bit range, model-made co-signers whose nonces cancel the first / second / both aggregate nonce components, adaptor present "
        "or absent, nonces before or after key aggregation; every intermediate object (aggregate key, cache fields, pubnonces, aggnonce, session "
        "fields, partial signatures, final signature) compared with a BIP-327 model; the final signature verified with BIP-340; partial signatures "
        "checked against wrong key / nonce / session; adapt and extract inverses. non-trivial = every record; distinct = (op, inputs)")
ASSUMPTIONS = ["ref/musig.py transcribes BIP-327 and the library's documented adaptor rule; cache / session fields are read through the library's own load helpers (views)"]
COMP = 258

def pkobj(ctx, config, P):
    r = ctx.call("pubkey_parse", ser33(P), config=config)
    return r.b(1) if r is not None and r.ret == 1 else None
def pkser(ctx, config, obj):
    r = ctx.call("pubkey_serialize", obj, 33, COMP, config=config)
    return r.b(2) if r is not None and r.ret == 1 else None

def check_cache(ctx, config, kac, K, tag):
    v = ctx.call("musig_cache_view", kac, config=config)
    if v is None or not ctx.check(v.ret == 1, "musig_cache_view:unloadable:" + tag, "", config): return False
    ok = ctx.check(v.b(1) == ser33(K.Q), "keyagg:%s:aggregate_key" % tag, "want %s got %s" % (ser33(K.Q).hex(), v.b(1).hex()), config)
    ok &= ctx.check(v.b(2) == (K.pk2 if K.pk2 else bytes(33)), "keyagg:%s:second_key" % tag, "want %s got %s" % (K.pk2, v.b(2).hex()), config)
    ok &= ctx.check(v.b(3) == K.L, "keyagg:%s:key_list_hash" % tag, "", config)
    ok &= ctx.check(I(v.b(4)) == K.tacc and v.i(5) == (0 if K.gacc == 1 else 1), "keyagg:%s:accumulators" % tag, "want tacc=%x gacc=%s got %s parity_acc=%d" % (K.tacc, "1" if K.gacc == 1 else "-1", v.b(4).hex(), v.i(5)), config)
    return ok

def key_pattern(rng, N):
    ds = [rng.randrange(1, n) for _ in range(N)]
    pat = rng.randrange(11)
    if pat == 1 and N >= 2: ds[1] = ds[0]
    elif pat == 2: ds = [ds[0]] * N
    elif pat == 3 and N >= 3: ds[2] = ds[0]; ds[1] = ds[0]
    elif pat == 4: ds.sort(key=lambda d: ser33(mulG(d)))
    elif pat == 5 and N >= 3: ds[-1] = ds[1]
    # lists containing a key together with its negation (same x, other parity): the "second key" comparison, the coefficient
    # hash and the list hash must all work on the 33-byte encodings, not on x (seeded change C12-1)
    elif pat == 6 and N >= 3: ds[2] = n - ds[1]
    elif pat == 7 and N >= 2: ds[1] = n - ds[0]
    elif pat == 8 and N >= 3: ds[1] = n - ds[0]; ds[2] = ds[0]
    elif pat == 9 and N >= 4: ds[3] = ds[1]; ds[1] = n - ds[1]
    elif pat == 10 and N >= 2:
        for j in range(1, N):
            if rng.random() < 0.6: ds[j] = rng.choice((ds[rng.randrange(j)], n - ds[rng.randrange(j)]))
    return ds, pat

COUNTERS = [0, 1, 2**32 - 1, 2**32, 2**32 + 1, 2**63, 2**64 - 1, 2**33, 2**32 + 7]

def session(ctx, config, rng, it):
    N = (rng.choice((1, 2, 2, 3, 3, 4, 5)) if it % 12 else rng.choice((8, 15, 16))) if ctx.quick or rng.random() < 0.8 else rng.randrange(6, 17)
    ds, pat = key_pattern(rng, N)
    Ps = [mulG(d) for d in ds]; pk33 = [ser33(P) for P in Ps]; objs = [pkobj(ctx, config, P) for P in Ps]
    if any(o is None for o in objs): return
    msg = pools.msg32(rng, 0.2)
    nonce_first = it % 3 == 0        # nonces generated before key aggregation (no aggregate key argument)
    # ---- key aggregation
    K = musig.KeyAggCtx(pk33)
    r = ctx.call("musig_pubkey_agg", b''.join(objs), N, 1, 1, config=config)
    if r is None: return
    ctx.ev("musig_pubkey_agg", "n%d:pattern%d" % (min(N, 6), pat), True, *pk33[:6], N)
    if not ctx.check(r.ret == 1, "musig_pubkey_agg:failed", "", config): return
    xs = ctx.call("xonly_serialize", r.b(1), config=config)
    ctx.check(xs is not None and xs.b(1) == xbytes(K.Q), "musig_pubkey_agg:xonly_key", "want %s got %r" % (xbytes(K.Q).hex(), xs), config)
    kac = r.b(2)
    if not check_cache(ctx, config, kac, K, "agg"): return
    g = ctx.call("musig_pubkey_get", kac, config=config)
    if g is not None: ctx.check(pkser(ctx, config, g.b(1)) == ser33(K.Q), "musig_pubkey_get", "", config)
    # optional outputs absent
    if it % 7 == 0:
        r2 = ctx.call("musig_pubkey_agg", b''.join(objs), N, 0, 1, config=config)
        if r2 is not None: ctx.check(r2.ret == 1 and r2.b(2) == kac, "musig_pubkey_agg:cache_differs_without_aggpk_output", "", config)
    # ---- nonce generation before tweaking when requested
    q_secret = sum(K.coef(pk) * d for pk, d in zip(pk33, ds)) % n      # discrete log of the untweaked aggregate key
    def gen_nonces(kac_now, Know):
        out = []
        for i in range(N):
            use_counter = rng.random() < 0.35
            with_cache = (not nonce_first) and rng.random() < 0.7
            with_msg = rng.random() < 0.6; with_extra = rng.random() < 0.5
            m_arg = msg if with_msg else None; ex = pools.rbytes(rng, 32) if with_extra else None
            agg32 = xbytes(Know.Q) if with_cache else None
            if use_counter:
                cnt = rng.choice(COUNTERS) if rng.random() < 0.7 else rng.getrandbits(64)
                kp = ctx.call("keypair_create", b32(ds[i]), config=config)
                rr = ctx.call("musig_nonce_gen_counter", None, 1, cnt, kp.b(1), m_arg, kac_now if with_cache else None, ex, config=config)
                ks = musig.nonce_gen_counter(cnt, b32(ds[i]), pk33[i], agg32, m_arg, ex); cls = "counter"
                args = (cnt,)
            else:
                rand = pools.rbytes(rng, 32); with_sk = rng.random() < 0.6
                rr = ctx.call("musig_nonce_gen", None, 1, rand, b32(ds[i]) if with_sk else None, objs[i], m_arg, kac_now if with_cache else None, ex, config=config)
                ks = musig.nonce_gen(rand, b32(ds[i]) if with_sk else None, pk33[i], agg32, m_arg, ex); cls = "rand:sk%d" % with_sk
                args = (rand,)
                if rr is not None: ctx.check(rr.b(3) == bytes(32), "musig_nonce_gen:randomness_not_wiped", "", config)
            if rr is None: return None
            ctx.ev("musig_nonce_gen", "%s:cache%d:msg%d:extra%d" % (cls, with_cache, with_msg, with_extra), True, *args, b32(ds[i]), m_arg or b'', ex or b'')
            ps = ctx.call("musig_pubnonce_serialize", rr.b(2), config=config)
            if ps is None or not ctx.check(rr.ret == 1 and ps.b(1) == musig.pubnonce(ks), "musig_nonce_gen:%s:pubnonce" % cls, "signer %d args=%s want %s got %r" % (i, args, musig.pubnonce(ks).hex(), ps), config): return None
            out.append(dict(ks=ks, sec=rr.b(1), pub=rr.b(2), pub66=ps.b(1), i=i, model_only=False))
        return out
    nonces = gen_nonces(None, K) if nonce_first else None
    # ---- tweaks
    ntw = rng.choice((0, 0, 1, 2, 3, 6))
    for j in range(ntw):
        xonly = rng.random() < 0.5
        kind = rng.randrange(8)
        if kind == 0: t = rng.choice((n, n + 1, 2**256 - 1))
        elif kind == 1:
            # the tweak that cancels the current aggregate key: Q' = g*Q + t*G = infinity
            gq = n - 1 if (xonly and not has_even_y(K.Q)) else 1
            cur = (K.gacc * q_secret + K.tacc) % n      # discrete log of the current Q
            t = (-gq * cur) % n
        elif kind == 2: t = 0
        else:
            # search for a tweak after which the key has odd y half of the time (parity flips at later x-only steps)
            t = rng.randrange(1, n)
        K2 = K.copy(); ok = K2.tweak(t, xonly)
        r = ctx.call("musig_tweak_add", kac, b32(t), 1 if xonly else 0, 1, config=config)
        if r is None: return
        cls = "xonly" if xonly else "plain"
        ctx.ev("musig_tweak_add", "%s:%s" % (cls, "ok" if ok else ("ge_n" if t >= n else "infinity")), True, kac[:40], b32(t), xonly)
        if not ctx.check(r.ret == (1 if ok else 0), "musig_tweak_add:%s:%s" % (cls, "accepted_invalid" if r.ret else "rejected_valid"), "t=%x" % t, config): return
        if ok:
            K = K2; kac = r.b(2)
            ctx.check(pkser(ctx, config, r.b(1)) == ser33(K.Q), "musig_tweak_add:%s:output_key" % cls, "", config)
            if not check_cache(ctx, config, kac, K, "tweak_" + cls): return
        else:
            s = ctx.call("pubkey_serialize", r.b(1), 33, COMP, config=config, ill=1)
            if s is not None: ctx.check(s.ret == 0, "musig_tweak_add:failed_but_output_usable", "", config)
            # BIP-327 ApplyTweak fails without producing a new context: the session goes on with the cache exactly as the refused call
            # left it, and that must still be the context before the call (seeded change C12-2)
            kac = r.b(2)
            if not check_cache(ctx, config, kac, K, "after_refused_tweak_" + cls): return
    if nonces is None: nonces = gen_nonces(kac, K)
    if nonces is None: return
    # ---- model-made co-signer whose nonces cancel aggregate components
    cancel = it % 5
    extra_signers = []
    if cancel in (1, 2, 3) and N >= 1:
        k1s = sum(x["ks"][0] for x in nonces) % n; k2s = sum(x["ks"][1] for x in nonces) % n
        kk = [(-k1s) % n if cancel in (1, 3) else rng.randrange(1, n), (-k2s) % n if cancel in (2, 3) else rng.randrange(1, n)]
        if kk[0] and kk[1]:
            dd = rng.randrange(1, n)
            extra_signers.append(dict(ks=kk, d=dd))
    if extra_signers:
        # the extra signer must be part of the key list: redo key aggregation with it (tweaks are re-applied in the model and the library)
        return session_with_model_signer(ctx, config, rng, ds, msg, extra_signers[0], cancel)
    finish(ctx, config, rng, K, kac, ds, pk33, objs, nonces, msg, it)

def finish(ctx, config, rng, K, kac, ds, pk33, objs, nonces, msg, it, cls_extra=""):
    N = len(nonces)
    pubs = [musig.parse_pubnonce(x["pub66"]) for x in nonces]
    R1, R2 = musig.nonce_agg(pubs)
    order = list(range(N)); rng.shuffle(order)
    ra = ctx.call("musig_nonce_agg", b''.join(nonces[i]["pub"] for i in order), N, config=config)
    if ra is None: return
    ctx.ev("musig_nonce_agg", "n%d%s:%s" % (min(N, 6), cls_extra, "inf%d%d" % (R1 is None, R2 is None)), True, *[x["pub66"] for x in nonces[:5]])
    ags = ctx.call("musig_aggnonce_serialize", ra.b(1), config=config)
    want_agg = musig.cbytes_ext(R1) + musig.cbytes_ext(R2)
    if ags is None or not ctx.check(ra.ret == 1 and ags.b(1) == want_agg, "musig_nonce_agg:aggnonce", "want %s got %r" % (want_agg.hex(), ags), config): return
    # parse round trip of the aggregate nonce (incl. infinity encodings)
    ap = ctx.call("musig_aggnonce_parse", want_agg, config=config)
    if ap is not None: ctx.check(ap.ret == 1, "musig_aggnonce_parse:rejected_library_output", want_agg.hex(), config)
    use_adaptor = it % 4 == 1
    t_ad = rng.randrange(1, n) if use_adaptor else None
    T = mulG(t_ad) if use_adaptor else None; To = pkobj(ctx, config, T) if use_adaptor else None
    S = musig.Session(R1, R2, K, msg, adaptor=T)
    sp = ctx.call("musig_nonce_process", ra.b(1), msg, kac, To, config=config)
    if sp is None: return
    ctx.ev("musig_nonce_process", "adaptor%d%s" % (use_adaptor, cls_extra), True, want_agg, msg, kac[:40], ser33(T) if T else b'')
    if not ctx.check(sp.ret == 1, "musig_nonce_process:failed", "", config): return
    sess = sp.b(1)
    sv = ctx.call("musig_session_view", sess, config=config)
    if sv is None or not ctx.check(sv.ret == 1 and sv.i(1) == S.parity and sv.b(2) == xbytes(S.R) and I(sv.b(3)) == S.b and I(sv.b(4)) == S.e and I(sv.b(5)) == S.s_part,
                                   "musig_nonce_process:session_fields", "want parity=%d R=%s b=%x e=%x s_part=%x got %r" % (S.parity, xbytes(S.R).hex(), S.b, S.e, S.s_part, sv), config): return
    npar = ctx.call("musig_nonce_parity", sess, config=config)
    if npar is not None: ctx.check(npar.ret == 1 and npar.i(1) == S.parity, "musig_nonce_parity", repr(npar), config)
    # ---- partial signatures
    psigs = []; pobjs = []
    for x in nonces:
        i = x["i"]
        want = S.partial_sign(x["ks"], x["d"] if x["model_only"] else ds[i], x["pk33"] if x["model_only"] else pk33[i])
        if x["model_only"]:
            po = ctx.call("musig_partial_sig_parse", b32(want), config=config)
            if po is None or po.ret != 1: return
            pobj = po.b(1)
        else:
            kp = ctx.call("keypair_create", b32(ds[i]), config=config)
            ps = ctx.call("musig_partial_sign", 1, x["sec"], kp.b(1), kac, sess, config=config)
            if ps is None: return
            ctx.ev("musig_partial_sign", "signer" + cls_extra, True, x["pub66"], b32(ds[i]), sess)
            pss = ctx.call("musig_partial_sig_serialize", ps.b(1), config=config) if ps.ret == 1 else None
            if pss is None or not ctx.check(ps.ret == 1 and I(pss.b(1)) == want, "musig_partial_sign:value", "signer %d want %x got %r" % (i, want, pss), config): return
            ctx.check(ps.b(2) == bytes(132), "musig_partial_sign:secnonce_not_zeroed", "", config)
            pobj = ps.b(1)
        psigs.append(want); pobjs.append(pobj)
        pko = x["pkobj"] if x["model_only"] else objs[i]; pkb = x["pk33"] if x["model_only"] else pk33[i]
        v = ctx.call("musig_partial_sig_verify", pobj, x["pub"], pko, kac, sess, config=config)
        if v is not None:
            ctx.ev("musig_partial_sig_verify", "own" + cls_extra, True, b32(want), x["pub66"], pkb, sess)
            ctx.check(v.ret == 1 and S.partial_verify(want, musig.parse_pubnonce(x["pub66"]), pkb), "musig_partial_sig_verify:own_rejected", "signer %d" % i, config)
    # wrong key / nonce / session / value
    for _ in range(min(3, N)):
        a = rng.randrange(N); x = nonces[a]
        pko = x["pkobj"] if x["model_only"] else objs[x["i"]]; pkb = x["pk33"] if x["model_only"] else pk33[x["i"]]
        alts = []
        Pw = mulG(rng.randrange(1, n)); alts.append(("other_key", pobjs[a], x["pub"], x["pub66"], pkobj(ctx, config, Pw), ser33(Pw), psigs[a]))
        if N >= 2:
            b2 = (a + 1) % N; y = nonces[b2]
            alts.append(("other_nonce", pobjs[a], y["pub"], y["pub66"], pko, pkb, psigs[a]))
            alts.append(("other_signers_sig", pobjs[b2], x["pub"], x["pub66"], pko, pkb, psigs[b2]))
        wv = (psigs[a] + 1) % n; wo = ctx.call("musig_partial_sig_parse", b32(wv), config=config)
        if wo is not None and wo.ret == 1: alts.append(("value+1", wo.b(1), x["pub"], x["pub66"], pko, pkb, wv))
        # sign-flipped variants: the places where a forgotten parity negation (of the aggregate key, the final nonce or the
        # signer's key) would turn a rejection into an acceptance
        nv = (n - psigs[a]) % n; no = ctx.call("musig_partial_sig_parse", b32(nv), config=config)
        if no is not None and no.ret == 1: alts.append(("value_negated", no.b(1), x["pub"], x["pub66"], pko, pkb, nv))
        Rn = musig.parse_pubnonce(x["pub66"])
        if Rn is not None:
            n66 = ser33(neg(Rn[0])) + ser33(neg(Rn[1])); npo = ctx.call("musig_pubnonce_parse", n66, config=config)
            if npo is not None and npo.ret == 1:
                alts.append(("nonce_negated", pobjs[a], npo.b(1), n66, pko, pkb, psigs[a]))
                if no is not None and no.ret == 1: alts.append(("value_and_nonce_negated", no.b(1), npo.b(1), n66, pko, pkb, nv))
        # a public nonce whose effective nonce R1 + b*R2 is the point at infinity (crafted after the session fixed b)
        k2 = rng.randrange(1, n); B2 = mulG(k2); A2 = mulG((-S.b * k2) % n)
        if A2 is not None:
            c66 = ser33(A2) + ser33(B2); cpo = ctx.call("musig_pubnonce_parse", c66, config=config)
            if cpo is not None and cpo.ret == 1:
                dlog = ds[x["i"]] if not x["model_only"] else None
                if dlog is not None:
                    sv = S.e * K.coef(pkb) * (S.g * K.gacc % n) * dlog % n
                    vo = ctx.call("musig_partial_sig_parse", b32(sv), config=config)
                    if vo is not None and vo.ret == 1: alts.append(("effective_nonce_infinity:matching_s", vo.b(1), cpo.b(1), c66, pko, pkb, sv))
                alts.append(("effective_nonce_infinity:other_s", pobjs[a], cpo.b(1), c66, pko, pkb, psigs[a]))
        Pn = neg(parse_pubkey(pkb)); alts.append(("key_negated", pobjs[a], x["pub"], x["pub66"], pkobj(ctx, config, Pn), ser33(Pn), psigs[a]))
        if no is not None and no.ret == 1: alts.append(("value_and_key_negated", no.b(1), x["pub"], x["pub66"], pkobj(ctx, config, Pn), ser33(Pn), nv))
        for cls, po, pn, pn66, ko, kb, sval in alts:
            if ko is None: continue
            v = ctx.call("musig_partial_sig_verify", po, pn, ko, kac, sess, config=config)
            if v is None: continue
            exp = S.partial_verify(sval, musig.parse_pubnonce(pn66), kb)
            ctx.ev("musig_partial_sig_verify", cls, True, b32(sval), pn66, kb, sess)
            ctx.check(v.ret == (1 if exp else 0), "musig_partial_sig_verify:%s:%s" % (cls, "accepted" if v.ret else "rejected"), "model=%s" % exp, config)
        # other session (different message)
        m2 = bytearray(msg); m2[0] ^= 1; S2 = musig.Session(R1, R2, K, bytes(m2), adaptor=T)
        sp2 = ctx.call("musig_nonce_process", ra.b(1), bytes(m2), kac, To, config=config)
        if sp2 is not None and sp2.ret == 1:
            v = ctx.call("musig_partial_sig_verify", pobjs[a], x["pub"], pko, kac, sp2.b(1), config=config)
            if v is not None:
                ctx.ev("musig_partial_sig_verify", "other_session", True, b32(psigs[a]), x["pub66"], pkb, sp2.b(1))
                ctx.check(v.ret == (1 if S2.partial_verify(psigs[a], musig.parse_pubnonce(x["pub66"]), pkb) else 0), "musig_partial_sig_verify:other_session:accepted", "", config)
    # ---- aggregation (order permuted)
    order = list(range(N)); rng.shuffle(order)
    ag = ctx.call("musig_partial_sig_agg", sess, b''.join(pobjs[i] for i in order), N, config=config)
    if ag is None: return
    want_sig = S.agg(psigs)
    ctx.ev("musig_partial_sig_agg", "n%d:adaptor%d%s" % (min(N, 6), use_adaptor, cls_extra), True, sess, *[b32(s) for s in psigs[:5]])
    if not ctx.check(ag.ret == 1 and ag.b(1) == want_sig, "musig_partial_sig_agg:bytes", "want %s got %r" % (want_sig.hex(), ag), config): return
    xo = ctx.call("xonly_parse", xbytes(K.Q), config=config)
    if not use_adaptor:
        mv = schnorr.verify(xbytes(K.Q), msg, want_sig)
        # BIP-327: when the aggregate nonce is the point at infinity (someone misbehaved) the final nonce is G and the signature is invalid by design
        if not S.nonce_was_infinity: ctx.check(mv, "model:aggregate_signature_invalid", "", config)
        v = ctx.call("schnorr_verify", ag.b(1), msg, xo.b(1), config=config)
        if v is not None: ctx.check(v.ret == (1 if mv else 0) and (v.ret == 1 or S.nonce_was_infinity), "musig:honest_session_signature_does_not_verify", "N=%d" % N, config)
    else:
        v = ctx.call("schnorr_verify", ag.b(1), msg, xo.b(1), config=config)
        if v is not None: ctx.check(v.ret == (1 if schnorr.verify(xbytes(K.Q), msg, want_sig) else 0), "musig:pre_signature_verify_vs_model", "", config)
        ad = ctx.call("musig_adapt", ag.b(1), b32(t_ad), S.parity, config=config)
        if ad is None: return
        tt = t_ad if not S.parity else n - t_ad
        want_ad = want_sig[:32] + b32((I(want_sig[32:]) + tt) % n)
        ctx.ev("musig_adapt", "parity%d" % S.parity, True, want_sig, b32(t_ad))
        if not ctx.check(ad.ret == 1 and ad.b(1) == want_ad, "musig_adapt:bytes", "want %s got %r" % (want_ad.hex(), ad), config): return
        v = ctx.call("schnorr_verify", ad.b(1), msg, xo.b(1), config=config)
        if v is not None: ctx.check((v.ret == 1 and schnorr.verify(xbytes(K.Q), msg, want_ad)) or S.nonce_was_infinity, "musig:adapted_signature_does_not_verify", "", config)
        ex = ctx.call("musig_extract_adaptor", ad.b(1), ag.b(1), S.parity, config=config)
        if ex is not None:
            ctx.ev("musig_extract_adaptor", "parity%d" % S.parity, True, want_ad, want_sig)
            ctx.check(ex.ret == 1 and ex.b(1) == b32(t_ad), "musig_extract_adaptor:not_inverse_of_adapt", "want %x got %r" % (t_ad, ex), config)
        # adaptors derived from the pre-signature itself, so that the ADAPTED s is a boundary scalar (0, 1, n-1): adapt / extract stay inverse
        s_pre = I(want_sig[32:])
        for target in (0, 1, n - 1):
            tt2 = (target - s_pre) % n; t2 = tt2 if not S.parity else (n - tt2) % n
            if not 0 < t2 < n: continue
            a3 = ctx.call("musig_adapt", ag.b(1), b32(t2), S.parity, config=config)
            if a3 is None: continue
            ctx.ev("musig_adapt", "adapted_s_boundary", True, want_sig, b32(t2))
            if not ctx.check(a3.ret == 1 and a3.b(1) == want_sig[:32] + b32(target), "musig_adapt:adapted_s_boundary:bytes", "target %x got %r" % (target, a3), config): continue
            e3 = ctx.call("musig_extract_adaptor", a3.b(1), ag.b(1), S.parity, config=config)
            if e3 is not None: ctx.check(e3.ret == 1 and e3.b(1) == b32(t2), "musig_extract_adaptor:adapted_s_boundary:not_inverse_of_adapt", "adapted s=%x want %x got %r" % (target, t2, e3), config)
        # out-of-range inputs
        for cls, pre, tsec in (("presig_s_ge_n", want_sig[:32] + b32(n), b32(t_ad)), ("adaptor_ge_n", ag.b(1), b32(n + 1))):
            a2 = ctx.call("musig_adapt", pre, tsec, S.parity, config=config)
            if a2 is not None:
                ctx.ev("musig_adapt", cls, True, pre, tsec)
                ctx.check(a2.ret == 0, "musig_adapt:%s:accepted" % cls, "", config)

def session_with_model_signer(ctx, config, rng, ds, msg, extra, cancel):
    """library signers plus one model-made co-signer whose nonces cancel an aggregate nonce component"""
    N = len(ds); Ps = [mulG(d) for d in ds] + [mulG(extra["d"])]; pk33 = [ser33(P) for P in Ps]; objs = [pkobj(ctx, config, P) for P in Ps]
    K = musig.KeyAggCtx(pk33)
    r = ctx.call("musig_pubkey_agg", b''.join(objs), N + 1, 1, 1, config=config)
    if r is None or not ctx.check(r.ret == 1, "musig_pubkey_agg:failed", "", config): return
    kac = r.b(2)
    if not check_cache(ctx, config, kac, K, "agg"): return
    nonces = []
    for i in range(N):
        rand = pools.rbytes(rng, 32)
        rr = ctx.call("musig_nonce_gen", None, 1, rand, b32(ds[i]), objs[i], msg, kac, None, config=config)
        if rr is None or rr.ret != 1: return
        ks = musig.nonce_gen(rand, b32(ds[i]), pk33[i], xbytes(K.Q), msg, None)
        ps = ctx.call("musig_pubnonce_serialize", rr.b(2), config=config)
        if ps is None or not ctx.check(ps.b(1) == musig.pubnonce(ks), "musig_nonce_gen:rand:sk1:pubnonce", "", config): return
        nonces.append(dict(ks=ks, sec=rr.b(1), pub=rr.b(2), pub66=ps.b(1), i=i, model_only=False))
    k1s = sum(x["ks"][0] for x in nonces) % n; k2s = sum(x["ks"][1] for x in nonces) % n
    kk = [(-k1s) % n if cancel in (1, 3) else rng.randrange(1, n), (-k2s) % n if cancel in (2, 3) else rng.randrange(1, n)]
    p66 = musig.pubnonce(kk)
    po = ctx.call("musig_pubnonce_parse", p66, config=config)
    if po is None or not ctx.check(po.ret == 1, "musig_pubnonce_parse:rejected_valid", p66.hex(), config): return
    nonces.append(dict(ks=kk, sec=None, pub=po.b(1), pub66=p66, i=N, model_only=True, d=extra["d"], pk33=pk33[N], pkobj=objs[N]))
    finish(ctx, config, rng, K, kac, ds + [extra["d"]], pk33, objs, nonces, msg, rng.randrange(100), cls_extra=":cancel%d" % cancel)

def wl_parsers(ctx, config):
    rng = ctx.rng
    for it in ctx.iters(400, 10000):
        A = mulG(rng.randrange(1, n)); B = mulG(rng.randrange(1, n))
        a = ser33(A); b = ser33(B)
        kind = it % 8
        if kind == 1: a = bytes(33)
        elif kind == 2: b = bytes(33)
        elif kind == 3: a = bytes(33); b = bytes(33)
        elif kind == 4: a = bytes([rng.choice((0, 1, 4, 5, 255))]) + a[1:]
        elif kind == 5: b = b[:1] + b32(pools.field(rng))
        elif kind == 6: a = b'\x00' + bytes(31) + b'\x01'
        s = a + b
        pn = musig.parse_pubnonce(s); an = musig.parse_aggnonce(s)
        for op, exp, ser in (("musig_pubnonce_parse", pn, "musig_pubnonce_serialize"), ("musig_aggnonce_parse", an, "musig_aggnonce_serialize")):
            r = ctx.call(op, s, config=config)
            if r is None: continue
            ctx.ev(op, "kind%d" % kind, True, s)
            if not ctx.check(r.ret == (1 if exp else 0), "%s:%s" % (op, "accepted_invalid" if r.ret else "rejected_valid"), s.hex(), config): continue
            if exp:
                o = ctx.call(ser, r.b(1), config=config)
                if o is not None: ctx.check(o.ret == 1 and o.b(1) == s, "%s:roundtrip" % ser, s.hex(), config)
        v = pools.scalar(rng, 0.5)
        r = ctx.call("musig_partial_sig_parse", b32(v), config=config)
        if r is not None:
            ctx.ev("musig_partial_sig_parse", "ge_n" if v >= n else "ok", True, b32(v))
            if ctx.check(r.ret == (1 if v < n else 0), "musig_partial_sig_parse:%s" % ("accepted_ge_n" if r.ret else "rejected_valid"), "%x" % v, config) and v < n:
                o = ctx.call("musig_partial_sig_serialize", r.b(1), config=config)
                if o is not None: ctx.check(o.b(1) == b32(v), "musig_partial_sig_serialize:roundtrip", "", config)

def wl_counters(ctx, config):
    """counter entry point over the full 64-bit range: distinct counters give distinct nonces (incl. pairs differing by 2^32)"""
    rng = ctx.rng
    for it in ctx.iters(64, 1500):
        d = rng.randrange(1, n); kp = ctx.call("keypair_create", b32(d), config=config)
        c1 = rng.choice(COUNTERS) if it % 2 else rng.getrandbits(64)
        c2 = (c1 + rng.choice((2**32, 2**33, 2**48, 2**63, 1))) % 2**64
        msg = pools.msg32(rng)
        outs = []
        for c in (c1, c2):
            r = ctx.call("musig_nonce_gen_counter", None, 1, c, kp.b(1), msg, None, None, config=config)
            if r is None or r.ret != 1: break
            ps = ctx.call("musig_pubnonce_serialize", r.b(2), config=config)
            ks = musig.nonce_gen_counter(c, b32(d), ser33(mulG(d)), None, msg, None)
            ctx.ev("musig_nonce_gen_counter", "pair", True, c, b32(d), msg)
            ctx.check(ps is not None and ps.b(1) == musig.pubnonce(ks), "musig_nonce_gen_counter:pubnonce", "counter=%d" % c, config)
            outs.append(ps.b(1) if ps else None)
        if len(outs) == 2: ctx.check(outs[0] != outs[1], "musig_nonce_gen_counter:distinct_counters_same_nonce", "%d vs %d" % (c1, c2), config)

def run(ctx):
    from vlib import smallgroup
    smallgroup.run(ctx, "misc", {"musig_partial_sig_reenc": "accepted"})
    for config in ctx.cfgs():
        for it in ctx.iters(400, 10000):
            session(ctx, config, ctx.rng, it)
        wl_parsers(ctx, config)
        wl_counters(ctx, config)
