"""C16 Whitelist proofs verify only for a real member of a non-empty key list."""
from ref.ec import *
from ref import pools, whitelist

ID = "C16"
LEVEL = "exploration"
CONFIGS = {"quick": ["san", "san_nv", "mx_i64"], "thorough": ["san", "san_nv", "mx_i64"]}
RULE = ("key counts 0..255 (every count <= 8 and 127/128/254/255, others sampled), every signer index for small n; honest signatures, signatures "
        "forged from public data only (the empty-ring string), reference-prover rings with small chosen scalars and their s+n re-encodings, single-bit "
        "flips, scalars := 0 / n, length +-1, count byte vs length, key lists permuted / one key replaced; zero and >= n secrets for the signer; every "
        "verify result compared with an independent model of the ring equation. non-trivial = model accepts, or the case is one mutation from an "
        "accepted one; distinct = distinct (op, inputs)")
ASSUMPTIONS = ["ref/whitelist.py + ref/borromean.py transcribe whitelist.md / borromean_impl.h:39-52", "the degenerate offline_i = -W list is generated but only checked for memory safety (hash of infinity is unspecified)"]

class Keys:
    def __init__(self, ctx, config, nk, rng, small=False):
        self.on_sk = [rng.randrange(1, n) for _ in range(nk)]; self.off_sk = [rng.randrange(1, n) for _ in range(nk)]
        self.w = rng.randrange(1, n)
        if nk >= 2 and rng.random() < 0.3:
            # duplicates and negation twins (same x, other y) inside and across the two lists
            for _ in range(rng.randrange(1, 4)):
                i, j = rng.sample(range(nk), 2); lst, src = rng.choice(((self.on_sk, self.on_sk), (self.off_sk, self.off_sk), (self.on_sk, self.off_sk), (self.off_sk, self.on_sk)))
                lst[j] = src[i] if rng.random() < 0.4 else n - src[i]
            self.off_sk = [x if (x + self.w) % n else rng.randrange(1, n) for x in self.off_sk]
        if nk >= 1 and rng.random() < 0.25:
            # the additions offline_i + W and online_i + h*(offline_i + W) hit their doubling branch: offline_i = W, online_i = h*(offline_i + W)
            j = rng.randrange(nk)
            if rng.random() < 0.6: self.off_sk[j] = self.w
            else:
                Sj = (self.off_sk[j] + self.w) % n
                if Sj: self.on_sk[j] = I(sha(ser33(mulG(Sj)))) * Sj % n or 1
        self.on = [mulG(x) for x in self.on_sk]; self.off = [mulG(x) for x in self.off_sk]; self.W = mulG(self.w)
        self.nk = nk; self.ctx = ctx; self.config = config
        self.on_obj = [self.obj(P) for P in self.on]; self.off_obj = [self.obj(P) for P in self.off]; self.W_obj = self.obj(self.W)
    def obj(self, P):
        r = self.ctx.call("pubkey_parse", ser33(P), config=self.config)
        return r.b(1)
    def ring_secret(self, i):
        S = mulG(self.off_sk[i] + self.w); h = I(sha(ser33(S)))
        return (self.on_sk[i] + h * (self.off_sk[i] + self.w)) % n

def lib_verify(ctx, config, sigbytes, on_objs, off_objs, nk_arg, W_obj):
    """parse + verify through the library. returns (parse_ret, verify_ret or None)"""
    pr = ctx.call("wl_parse", sigbytes, config=config)
    if pr is None: return None, None
    if pr.ret != 1: return 0, None
    v = ctx.call("wl_verify", pr.b(1), b''.join(on_objs) if on_objs else b'', b''.join(off_objs) if off_objs else b'', nk_arg, W_obj, config=config)
    if v is None: return 1, None
    return 1, v.ret

def vcase(ctx, config, K, sigbytes, cls, on=None, off=None, on_obj=None, off_obj=None, W=None, W_obj=None, nontrivial=True):
    on = K.on if on is None else on; off = K.off if off is None else off
    on_obj = K.on_obj if on_obj is None else on_obj; off_obj = K.off_obj if off_obj is None else off_obj
    W = K.W if W is None else W; W_obj = K.W_obj if W_obj is None else W_obj
    exp = whitelist.verify(sigbytes, on, off, W)
    pok, v = lib_verify(ctx, config, sigbytes, on_obj, off_obj, len(on_obj), W_obj)
    if pok is None: return
    ctx.ev("wl_verify", cls, nontrivial, sigbytes, len(on), ser33(W), *[ser33(P) for P in on[:3]])
    if exp is None:
        ctx.count("unmodelled"); return
    parse_should = len(sigbytes) >= 1 and len(sigbytes) == 1 + 32 * (sigbytes[0] + 1)
    if not ctx.check(pok == (1 if parse_should else 0), "wl_parse:%s:%s" % (cls, "accepted_bad_length" if pok else "rejected_exact_length"), "len=%d count=%s" % (len(sigbytes), sigbytes[:1].hex()), config): return
    if pok and v is not None:
        ctx.check(v == (1 if exp else 0), "wl_verify:%s:%s" % (cls, "accepted" if v else "rejected_valid"),
                  "n_keys=%d sig=%s.. model=%s lib=%d W=%s" % (len(on), sigbytes[:70].hex(), exp, v, ser33(W).hex()), config)

def counts(ctx):
    rng = ctx.rng
    base = list(range(1, 9)) + [127, 128, 254, 255]
    extra = [rng.randrange(9, 254) for _ in range(2 if ctx.quick else 12)]
    return base + extra

def wl_honest(ctx, config):
    rng = ctx.rng
    cases = []
    for nk in counts(ctx):
        idxs = list(range(nk)) if nk <= 8 else [0, nk - 1, rng.randrange(nk)]
        for idx in idxs: cases.append((nk, idx))
    reps = 1 if ctx.quick else 3
    for nk, idx in ctx.mine(cases * reps):
        K = Keys(ctx, config, nk, rng)
        summed = (K.off_sk[idx] + K.w) % n
        r = ctx.call("wl_sign", b''.join(K.on_obj), b''.join(K.off_obj), nk, K.W_obj, b32(K.on_sk[idx]), b32(summed), idx, config=config)
        if r is None: continue
        ctx.ev("wl_sign", "honest:n%s" % ("<=8" if nk <= 8 else ">8"), True, nk, idx, b32(K.on_sk[idx]))
        if not ctx.check(r.ret == 1, "wl_sign:honest:failed", "n=%d idx=%d" % (nk, idx), config): continue
        nkq = ctx.call("wl_n_keys", r.b(1), config=config)
        if nkq is not None: ctx.check(nkq.i(0) == nk, "wl_n_keys", "", config)
        ser = ctx.call("wl_serialize", r.b(1), 1 + 32 * (nk + 1), config=config)
        if ser is None or not ctx.check(ser.ret == 1 and ser.i(1) == 1 + 32 * (nk + 1), "wl_serialize:exact_buffer", repr(ser)[:200], config): continue
        sb = ser.b(2)
        vcase(ctx, config, K, sb, "honest")
        # serializer: too small buffer refused, larger accepted with the same bytes
        s2 = ctx.call("wl_serialize", r.b(1), 32 * (nk + 1), config=config)
        if s2 is not None: ctx.check(s2.ret == 0, "wl_serialize:short_buffer_accepted", "", config)
        s3 = ctx.call("wl_serialize", r.b(1), 1 + 32 * (nk + 1) + 5, config=config)
        if s3 is not None: ctx.check(s3.ret == 1 and s3.b(2)[:len(sb)] == sb, "wl_serialize:larger_buffer", "", config)
        # mutations (kept cheap for large n)
        nm = 10 if nk <= 8 else 3
        for _ in range(nm):
            kind = rng.randrange(9)
            if kind == 0:
                i = rng.randrange(len(sb) * 8 - 8) + 8; t = bytearray(sb); t[i // 8] ^= 1 << (i % 8); vcase(ctx, config, K, bytes(t), "mut:bitflip")
            elif kind == 1:
                j = rng.randrange(nk); t = bytearray(sb); t[33 + 32 * j:65 + 32 * j] = b32(rng.choice((0, n, n + 1, 2**256 - 1))); vcase(ctx, config, K, bytes(t), "mut:scalar_zero_or_ge_n")
                j = rng.randrange(nk); t = bytearray(sb); t[33 + 32 * j:65 + 32 * j] = b32((n - I(sb[33 + 32 * j:65 + 32 * j])) % n); vcase(ctx, config, K, bytes(t), "mut:scalar_negated")
            elif kind == 2:
                vcase(ctx, config, K, sb + b'\x00', "mut:len+1"); vcase(ctx, config, K, sb[:-1], "mut:len-1")
            elif kind == 3:
                t = bytearray(sb); t[0] = rng.randrange(256); vcase(ctx, config, K, bytes(t), "mut:count_byte")
            elif kind == 4 and nk >= 2:
                i, j = rng.sample(range(nk), 2); on = list(K.on); oo = list(K.on_obj); on[i], on[j] = on[j], on[i]; oo[i], oo[j] = oo[j], oo[i]
                vcase(ctx, config, K, sb, "mut:online_swapped", on=on, on_obj=oo)
            elif kind == 5:
                j = rng.randrange(nk); P = mulG(rng.randrange(1, n)) if rng.random() < 0.5 else neg(K.off[j]); off = list(K.off); fo = list(K.off_obj); off[j] = P; fo[j] = K.obj(P)
                vcase(ctx, config, K, sb, "mut:offline_replaced", off=off, off_obj=fo)
                j = rng.randrange(nk); on = list(K.on); oo = list(K.on_obj); on[j] = neg(on[j]); oo[j] = K.obj(on[j])
                vcase(ctx, config, K, sb, "mut:online_negated", on=on, on_obj=oo)
            elif kind == 6:
                P = mulG(rng.randrange(1, n)) if rng.random() < 0.5 else neg(K.W); vcase(ctx, config, K, sb, "mut:other_sub_key", W=P, W_obj=K.obj(P))
            elif kind == 7:
                # key count mismatch: one key fewer / one more than the signature says
                vcase(ctx, config, K, sb, "mut:list_shorter", on=K.on[:-1], off=K.off[:-1], on_obj=K.on_obj[:-1], off_obj=K.off_obj[:-1])
                # a well-formed signature for MORE keys than the lists hold, whose first nk scalars are the genuine ones (count byte raised,
                # in-range scalars appended): a verifier that iterates over the caller's count instead of comparing the counts accepts it
                kx = rng.choice((1, 1, 2, 3, 255 - nk)) if nk < 255 else 0
                if kx > 0 and nk + kx <= 255:
                    ext = bytes([nk + kx]) + sb[1:] + b''.join(b32(rng.randrange(1, n)) for _ in range(kx))
                    vcase(ctx, config, K, ext, "mut:signature_extended_to_more_keys")
                if nk < 255:
                    P = mulG(rng.randrange(1, n)); Po = K.obj(P)
                    vcase(ctx, config, K, sb, "mut:list_longer", on=K.on + [P], off=K.off + [P], on_obj=K.on_obj + [Po], off_obj=K.off_obj + [Po])
            else:
                e0 = bytearray(sb); e0[1 + rng.randrange(32)] ^= 1 << rng.randrange(8); vcase(ctx, config, K, bytes(e0), "mut:e0")

def wl_sign_refusals(ctx, config):
    rng = ctx.rng
    for it in ctx.iters(60, 1500):
        nk = rng.randrange(1, 6); idx = rng.randrange(nk); K = Keys(ctx, config, nk, rng)
        summed = (K.off_sk[idx] + K.w) % n; osk = K.on_sk[idx]
        kind = it % 5
        if kind == 0: osk = 0
        elif kind == 1: osk = rng.choice((n, n + 1, 2**256 - 1))
        elif kind == 2: summed = 0
        elif kind == 3: summed = rng.choice((n, n + 5, 2**256 - 1))
        else:
            # wrong secret: signing may succeed but the result must not verify (checked by the model)
            osk = rng.randrange(1, n)
        r = ctx.call("wl_sign", b''.join(K.on_obj), b''.join(K.off_obj), nk, K.W_obj, b32(osk), b32(summed), idx, config=config)
        if r is None: continue
        cls = ("online_zero", "online_ge_n", "summed_zero", "summed_ge_n", "wrong_secret")[kind]
        ctx.ev("wl_sign", "refuse:" + cls, True, nk, idx, b32(osk), b32(summed))
        if kind < 4:
            ctx.check(r.ret == 0, "wl_sign:%s:accepted" % cls, "n=%d idx=%d" % (nk, idx), config)
        elif r.ret == 1:
            ser = ctx.call("wl_serialize", r.b(1), 1 + 32 * (nk + 1), config=config)
            if ser is not None and ser.ret == 1: vcase(ctx, config, K, ser.b(2), "wrong_secret_signature")

def wl_forged(ctx, config):
    """signatures built by the reference prover from chosen small scalars, and forgeries from public data only"""
    rng = ctx.rng
    # empty ring: 00 || SHA256(SHA256(ser33(W))) -- computable from public data (finding F1, fixed)
    for it in ctx.iters(16, 400):
        K = Keys(ctx, config, rng.randrange(0, 3), rng)
        forged = b'\x00' + sha(sha(ser33(K.W)))
        exp = whitelist.verify(forged, [], [], K.W)
        pr = ctx.call("wl_parse", forged, config=config)
        if pr is None: continue
        ctx.ev("wl_verify", "forged:empty_ring", True, forged, ser33(K.W))
        ctx.check(pr.ret == 1, "wl_parse:count0_rejected", "header documents the count range [0..255]", config)
        if pr.ret != 1: continue
        # the shim needs non-NULL key arrays; pass one dummy key with n_keys = 0
        v = ctx.call("wl_verify_n", pr.b(1), K.W_obj, K.W_obj, 0, K.W_obj, config=config)
        if v is not None: ctx.check(v.ret == 0 and exp is False, "wl_verify:n_keys=0:accepted", "sig=%s W=%s" % (forged.hex(), ser33(K.W).hex()), config)
        # and with an arbitrary e0
        junk = b'\x00' + pools.rbytes(rng, 32); pr2 = ctx.call("wl_parse", junk, config=config)
        if pr2 is not None and pr2.ret == 1:
            v2 = ctx.call("wl_verify_n", pr2.b(1), K.W_obj, K.W_obj, 0, K.W_obj, config=config)
            if v2 is not None: ctx.check(v2.ret == 0, "wl_verify:n_keys=0:accepted", "sig=%s" % junk.hex(), config)
    for it in ctx.iters(60, 1500):
        nk = rng.choice((1, 1, 2, 3, 4, 5, 8)); idx = rng.randrange(nk); K = Keys(ctx, config, nk, rng)
        forged = [rng.randrange(1, 2**100) for _ in range(nk)]
        sb = whitelist.forge_sign(K.on, K.off, K.W, idx, K.ring_secret(idx), forged, rng.randrange(1, n))
        if sb is None: continue
        vcase(ctx, config, K, sb, "refprover:small_scalars")
        for j in range(nk):
            if j == idx: continue
            t = bytearray(sb); t[33 + 32 * j:65 + 32 * j] = b32(forged[j] + n); vcase(ctx, config, K, bytes(t), "refprover:s+n")
        # a ring that closes although a forged scalar is exactly 0 (any member other than the signer's): must be rejected
        if nk >= 2:
            fz = list(forged)
            for t in range(nk):
                if t != idx and rng.random() < 0.6: fz[t] = 0
            if all(fz[t] for t in range(nk) if t != idx): fz[(idx + 1) % nk] = 0
            sz = whitelist.forge_sign(K.on, K.off, K.W, idx, K.ring_secret(idx), fz, rng.randrange(1, n))
            if sz is not None: vcase(ctx, config, K, sz, "refprover:forged_scalar_zero")
        # a chain value R_j = s_j G + e_j K_j forced to the point at infinity (all ring secrets are known here): must be rejected cleanly
        from ref import borromean
        km = whitelist.keys_and_msg(K.on, K.off, K.W)
        if km is not None:
            j = rng.randrange(nk); sc = [[I(sb[33 + 32 * t:65 + 32 * t]) for t in range(nk)]]
            cs = borromean.craft_infinity(sb[1:33], sc, [km[0]], [[K.ring_secret(t) for t in range(nk)]], [nk], km[1], 0, j)
            if cs is not None: vcase(ctx, config, K, bytes([nk]) + sb[1:33] + b''.join(b32(x) for x in cs[0]), "crafted:chain_point_infinity")
        # a prover who does not know the secret: all scalars chosen, ring does not close
        junk = bytes([nk]) + pools.rbytes(rng, 32) + b''.join(b32(rng.randrange(1, n)) for _ in range(nk)); vcase(ctx, config, K, junk, "no_secret:random_ring", nontrivial=False)

def wl_parser(ctx, config):
    rng = ctx.rng
    for cnt in ctx.mine(range(256)):
        for L in (1 + 32 * (cnt + 1), 32 * (cnt + 1), 2 + 32 * (cnt + 1), 33, 1):
            s = bytes([cnt]) + pools.rbytes(rng, max(L - 1, 0))
            pr = ctx.call("wl_parse", s, config=config)
            if pr is None: continue
            ok = L == 1 + 32 * (cnt + 1)
            ctx.ev("wl_parse", "count_vs_length", True, cnt, L)
            if not ctx.check(pr.ret == (1 if ok else 0), "wl_parse:%s" % ("accepted_bad_length" if pr.ret else "rejected_exact_length"), "count=%d len=%d" % (cnt, L), config): continue
            if ok:
                ser = ctx.call("wl_serialize", pr.b(1), L, config=config)
                if ser is not None: ctx.check(ser.ret == 1 and ser.b(2) == s, "wl_serialize:roundtrip", "count=%d" % cnt, config)
    pr = ctx.call("wl_parse", b'', config=config)
    if pr is not None: ctx.check(pr.ret == 0, "wl_parse:empty_accepted", "", config)
    # every length around the exact one for small counts (and around 32-byte multiples in general)
    for cnt in ctx.mine(list(range(0, 6)) + [254, 255]):
        exact = 1 + 32 * (cnt + 1); body = bytes([cnt]) + pools.rbytes(rng, exact + 70)
        for L in range(max(0, exact - 70), exact + 70):
            pr = ctx.call("wl_parse", body[:L], config=config)
            if pr is None: continue
            ctx.ev("wl_parse", "length_sweep", True, cnt, L)
            ctx.check(pr.ret == (1 if L == exact else 0), "wl_parse:%s" % ("accepted_bad_length" if pr.ret else "rejected_exact_length"), "count=%d len=%d" % (cnt, L), config)

def run(ctx):
    for config in ctx.cfgs():
        wl_honest(ctx, config)
        wl_sign_refusals(ctx, config)
        wl_forged(ctx, config)
        wl_parser(ctx, config)
