"""C07 Untrusted bytes never cause undefined behaviour or callback aborts."""
import os, re, subprocess, tempfile, shutil
from ref.ec import *
from ref import pools, zkp, adaptor, schnorr, musig, surjection as sj, rangeproof as rp, whitelist as wlm, halfagg, bppp
from vlib import build
from vlib.runner import Inconclusive
from vlib.shim import SAN_ENV

ID = "C07"
LEVEL = "exploration"
CONFIGS = {"quick": ["san", "san_nv"], "thorough": ["san", "san_nv", "mx_i64"]}
EXTRA_BUILDS = ["vgv"]
RULE = ("every parsing / verification entry point (public keys, x-only keys, DER / compact / recoverable signatures, Schnorr and half-aggregate verification, MuSig "
        "nonces / partial signatures / sessions, adaptor signatures, sign-to-contract openings, commitments, generators, tallies, range proofs (info / verify / "
        "rewind), surjection proofs, whitelist signatures, BP++ generator lists and norm-argument proofs, ElligatorSwift) is driven with (i) random bytes at every "
        "length 0..max+slack, (ii) valid artifacts mutated by bit flips, truncation, extension, length-field edits and boundary substitutions of each 32-byte word, "
        "(iii) every object produced by a successful parse chained into every function that accepts its type; inputs and outputs live in exact-size heap blocks "
        "under ASan+UBSan+VERIFY; monitors: sanitizer / VERIFY_CHECK abort, illegal and error callback counters (must stay 0), return value in {0,1}, live-allocation "
        "delta 0, watchdog. thorough adds libFuzzer over the same entry points. non-trivial = every call on a mutated valid artifact or a parse-produced object; "
        "distinct = (op, input bytes)")
ASSUMPTIONS = ["intra-object overflows are invisible to ASan (delegated to the format models of C03 / C11 / C16)", "termination is judged by a 60 s per-call watchdog"]
COMP = 258

class U:
    """untrusted-input call helper: every call must return 0/1, fire no callback, leak nothing"""
    def __init__(self, ctx, config): self.ctx = ctx; self.config = config; self.rng = ctx.rng
    def call(self, op, *args, cls="random", nt=True, ret01=True, key=None, ill=0):
        r = self.ctx.call(op, *args, config=self.config, ill=ill)
        if r is None: return None
        self.ctx.ev(op, cls, nt, op, *[a for a in args if isinstance(a, (bytes, bytearray, int))][:6])
        if ret01 and r.t:
            try: v = int(r.t[0])
            except ValueError: v = None
            self.ctx.check(v in (0, 1), "%s:return_value_not_0_or_1" % op, repr(r), self.config)
        self.ctx.check(r.live == 0, "%s:allocation_not_released" % op, "live=%d mallocs=%d %r" % (r.live, r.m, r), self.config)
        return r

def mutate(rng, s, words=True):
    """structure-unaware mutations of a valid artifact"""
    s = bytearray(s); k = rng.randrange(9)
    if not s: return bytes(pools.rbytes(rng, rng.randrange(0, 40)))
    if k == 0: i = rng.randrange(len(s) * 8); s[i // 8] ^= 1 << (i % 8)
    elif k == 1: del s[rng.randrange(len(s)):]
    elif k == 2: s += pools.rbytes(rng, rng.choice((1, 2, 31, 32, 33, 64, 65)))
    elif k == 3: s[rng.randrange(min(len(s), 12))] = rng.choice((0, 1, 0x7f, 0x80, 0xff, rng.randrange(256)))      # length / header fields live at the front
    elif k == 4 and len(s) >= 32:
        o = rng.randrange(0, len(s) - 31); s[o:o + 32] = b32(rng.choice(pools.SCALARS + pools.FIELDS))
    elif k == 5 and len(s) >= 32:
        o = (rng.randrange(0, len(s) - 31) // 32) * 32; s[o:o + 32] = b32(rng.choice(pools.SCALARS + pools.FIELDS))
    elif k == 6: i = rng.randrange(len(s)); del s[i:i + rng.choice((1, 32, 33))]
    elif k == 7: i = rng.randrange(len(s) + 1); s[i:i] = pools.rbytes(rng, rng.choice((1, 32, 33)))
    else:
        for _ in range(3): i = rng.randrange(len(s) * 8); s[i // 8] ^= 1 << (i % 8)
    return bytes(s)

def fixed(rng, s, n):
    """force length n (ops with fixed-size inputs)"""
    s = bytes(s)
    return (s + pools.rbytes(rng, n))[:n]

# ---------------------------------------------------------------- consumers of parse-produced objects
def use_pubkey(u, pk, cls):
    rng = u.rng; tw = pools.msg32(rng, 0.5)
    u.call("pubkey_serialize", pk, 33, COMP, cls=cls); u.call("pubkey_serialize", pk, 65, 2, cls=cls); u.call("pubkey_negate", pk, cls=cls)
    u.call("pubkey_tweak_add", pk, tw, cls=cls); u.call("pubkey_tweak_mul", pk, tw, cls=cls); u.call("pubkey_cmp", pk, pk, cls=cls, ret01=False)
    u.call("xonly_from_pubkey", pk, 1, cls=cls); u.call("pubkey_combine", pk + pk, 2, cls=cls)
    n2 = u.call("pubkey_negate", pk, cls=cls)
    if n2 is not None and n2.ret == 1: u.call("pubkey_combine", pk + n2.b(1), 2, cls=cls)
    u.call("ecdh", pk, tw, 0, cls=cls); u.call("ellswift_encode", pk, tw, cls=cls)
    a = u.call("musig_pubkey_agg", pk + pk, 2, 1, 1, cls=cls)
    if a is not None and a.ret == 1:
        u.call("musig_tweak_add", a.b(2), tw, rng.randrange(2), 1, cls=cls)
        u.call("musig_nonce_gen", None, 1, pools.rbytes(rng, 32) or b'\x01' * 32, None, pk, tw, a.b(2), None, cls=cls)
    u.call("pubkey_sort", pk + pk, 2, cls=cls, ret01=False)
def use_sig(u, sig, cls, pk):
    rng = u.rng; m = pools.msg32(rng)
    u.call("sig_serialize_der", sig, 80, cls=cls); u.call("sig_serialize_der", sig, rng.randrange(0, 9), cls=cls); u.call("sig_serialize_compact", sig, cls=cls); u.call("sig_normalize", sig, 1, cls=cls)
    u.call("ecdsa_verify", sig, m, pk, cls=cls)
    u.call("adaptor_recover", sig, pools.rbytes(rng, 162), pk, cls=cls)
    op = u.call("s2c_opening_parse", ser33(mulG(rng.randrange(1, n))), cls=cls)
    if op is not None and op.ret == 1:
        u.call("s2c_verify_commit", sig, m, op.b(1), cls=cls); u.call("ae_host_verify", sig, m, pk, m, op.b(1), cls=cls)

def wl_keys_sigs(u):
    rng = u.rng; ctx = u.ctx
    good_pk = u.call("pubkey_parse", ser33(mulG(7)), cls="setup", nt=False).b(1)
    # public keys: every length 0..70 random, mutated valid encodings, chaining
    for L in ctx.mine(range(0, 71)):
        for _ in range(2):
            s = pools.rbytes(rng, L)
            if L and rng.random() < 0.6: s = bytes([rng.choice((2, 3, 4, 6, 7))]) + s[1:]
            r = u.call("pubkey_parse", s or b'', cls="random_len")
            if r is not None and r.ret == 1: use_pubkey(u, r.b(1), "chained:pubkey")
    for it in ctx.iters(200, 6000):
        P = mulG(pools.valid_seckey(rng, 0.3)); enc = rng.choice((ser33(P), ser65(P), bytes([6 + (P[1] & 1)]) + ser65(P)[1:]))
        s = mutate(rng, enc) if it % 3 else enc
        r = u.call("pubkey_parse", s or b'', cls="mutated_valid")
        if r is not None and r.ret == 1: use_pubkey(u, r.b(1), "chained:pubkey")
        x = mutate(rng, xbytes(P)); x = fixed(rng, x, 32)
        xr = u.call("xonly_parse", x, cls="mutated_valid")
        if xr is not None and xr.ret == 1:
            xo = xr.b(1); sig = schnorr.sign(b32(7), b'm' * 32, None)
            u.call("xonly_serialize", xo, cls="chained:xonly"); u.call("schnorr_verify", fixed(rng, mutate(rng, sig), 64), pools.rbytes(rng, rng.randrange(0, 70)) or b'', xo, cls="chained:xonly")
            u.call("xonly_tweak_add", xo, pools.msg32(rng, 0.5), cls="chained:xonly"); u.call("xonly_tweak_add_check", pools.rbytes(rng, 32), rng.randrange(2), xo, pools.msg32(rng, 0.5), cls="chained:xonly")
            u.call("halfagg_verify", xo, pools.rbytes(rng, 32), 1, pools.rbytes(rng, rng.choice((0, 31, 32, 63, 64, 65, 96))) or b'', cls="chained:xonly")
    # ECDSA signatures: DER (strict and lax), compact, recoverable
    from ref import der
    for L in ctx.mine(range(0, 90)):
        for _ in range(2):
            s = bytearray(pools.rbytes(rng, L))
            if L > 2 and rng.random() < 0.7: s[0] = 0x30; s[1] = (L - 2) & 0x7f
            for op in ("sig_parse_der", "sig_parse_der_lax"):
                r = u.call(op, bytes(s) or b'', cls="random_len")
                if r is not None and r.ret == 1: use_sig(u, r.b(1), "chained:sig", good_pk)
    # long-form length octets at every position, truncated right after / inside them
    base = der.serialize(rng.randrange(1, n), rng.randrange(1, n))
    cases = []
    for pos in (1, 3, 5 + base[3]):
        for k in range(1, 10):
            for tail in (b'', b'\x00', b'\x01', b'\x00\x00', b'\xff' * 3, b'\x00' * 7 + b'\x01'):
                cases.append(base[:pos] + bytes([0x80 | k]) + tail)
                cases.append(base[:pos] + bytes([0x80 | k]) + tail + base[pos + 1:])
    for c in ctx.mine(cases):
        for op in ("sig_parse_der", "sig_parse_der_lax"):
            r = u.call(op, c, cls="der_long_form_lengths")
            if r is not None and r.ret == 1: use_sig(u, r.b(1), "chained:sig", good_pk)
    for it in ctx.iters(250, 8000):
        r_ = pools.scalar(rng, 0.5) % n; s_ = pools.scalar(rng, 0.5) % n
        d = der.serialize(r_, s_); m = mutate(rng, d) if it % 4 else d
        for op in ("sig_parse_der", "sig_parse_der_lax"):
            r = u.call(op, m or b'', cls="mutated_valid")
            if r is not None and r.ret == 1: use_sig(u, r.b(1), "chained:sig", good_pk)
        c = b32(pools.scalar(rng, 0.5)) + b32(pools.scalar(rng, 0.6))
        r = u.call("sig_parse_compact", c, cls="pool")
        if r is not None and r.ret == 1: use_sig(u, r.b(1), "chained:sig_compact", good_pk)
        rr = u.call("rsig_parse_compact", c, rng.randrange(4), cls="pool")
        if rr is not None and rr.ret == 1:
            u.call("ecdsa_recover", rr.b(1), pools.msg32(rng), cls="chained:rsig"); u.call("rsig_convert", rr.b(1), cls="chained:rsig"); u.call("rsig_serialize_compact", rr.b(1), cls="chained:rsig")

def wl_musig(u):
    rng = u.rng; ctx = u.ctx
    P1 = mulG(11); P2 = mulG(12); o1 = u.call("pubkey_parse", ser33(P1), cls="setup", nt=False).b(1); o2 = u.call("pubkey_parse", ser33(P2), cls="setup", nt=False).b(1)
    kac = u.call("musig_pubkey_agg", o1 + o2, 2, 1, 1, cls="setup", nt=False).b(2)
    for it in ctx.iters(250, 8000):
        A = mulG(rng.randrange(1, n)); B = mulG(rng.randrange(1, n)); v = ser33(A) + ser33(B)
        if it % 5 == 1: v = bytes(33) + ser33(B)
        if it % 5 == 2: v = ser33(A) + bytes(33)
        if it % 5 == 3: v = bytes(66)
        s = fixed(rng, mutate(rng, v), 66) if it % 2 else v
        pn = u.call("musig_pubnonce_parse", s, cls="mutated_valid"); an = u.call("musig_aggnonce_parse", s, cls="mutated_valid")
        ps = u.call("musig_partial_sig_parse", b32(pools.scalar(rng, 0.6)), cls="pool")
        if pn is not None and pn.ret == 1:
            u.call("musig_pubnonce_serialize", pn.b(1), cls="chained:pubnonce")
            a2 = u.call("musig_nonce_agg", pn.b(1) + pn.b(1), 2, cls="chained:pubnonce")
            neg_ = u.call("musig_pubnonce_parse", ser33(neg(musig.parse_pubnonce(s)[0])) + ser33(neg(musig.parse_pubnonce(s)[1])), cls="chained:pubnonce") if musig.parse_pubnonce(s) else None
            if neg_ is not None and neg_.ret == 1: a2 = u.call("musig_nonce_agg", pn.b(1) + neg_.b(1), 2, cls="chained:pubnonce_cancelling")
            if a2 is not None and a2.ret == 1: an = a2 if an is None or an.ret != 1 or rng.random() < 0.5 else an
        if an is not None and an.ret == 1:
            u.call("musig_aggnonce_serialize", an.b(1), cls="chained:aggnonce")
            ad = o2 if rng.random() < 0.5 else None
            se = u.call("musig_nonce_process", an.b(1), pools.msg32(rng), kac, ad, cls="chained:aggnonce")
            if se is not None and se.ret == 1 and ps is not None and ps.ret == 1:
                u.call("musig_partial_sig_serialize", ps.b(1), cls="chained:partial_sig")
                if pn is not None and pn.ret == 1: u.call("musig_partial_sig_verify", ps.b(1), pn.b(1), o1, kac, se.b(1), cls="chained:session")
                ag = u.call("musig_partial_sig_agg", se.b(1), ps.b(1) + ps.b(1), 2, cls="chained:session"); par = u.call("musig_nonce_parity", se.b(1), cls="chained:session")
                if ag is not None and ag.ret == 1:
                    ad2 = u.call("musig_adapt", ag.b(1), b32(pools.scalar(rng, 0.6)), rng.randrange(2), cls="chained:presig")
                    u.call("musig_extract_adaptor", pools.rbytes(rng, 64), ag.b(1), rng.randrange(2), cls="chained:presig")
        u.call("musig_adapt", pools.rbytes(rng, 32) + b32(pools.scalar(rng, 0.6)), b32(pools.scalar(rng, 0.6)), rng.randrange(2), cls="pool")
        u.call("musig_extract_adaptor", pools.rbytes(rng, 32) + b32(pools.scalar(rng, 0.6)), pools.rbytes(rng, 32) + b32(pools.scalar(rng, 0.6)), rng.randrange(2), cls="pool")

def wl_adaptor_s2c_ell(u):
    rng = u.rng; ctx = u.ctx
    for it in ctx.iters(250, 8000):
        d = rng.randrange(1, n); y = rng.randrange(1, n); X = mulG(d); Y = mulG(y); msg = pools.msg32(rng)
        Xo = u.call("pubkey_parse", ser33(X), cls="setup", nt=False).b(1); Yo = u.call("pubkey_parse", ser33(Y), cls="setup", nt=False).b(1)
        a = adaptor.encrypt(b32(d), Y, msg, None) or pools.rbytes(rng, 162)
        s = fixed(rng, mutate(rng, a), 162) if it % 3 else (a if it % 2 else pools.rbytes(rng, 162))
        u.call("adaptor_verify", s, Xo, msg, Yo, cls="mutated_valid")
        dec = u.call("adaptor_decrypt", b32(pools.scalar(rng, 0.5)), s, cls="mutated_valid")
        if dec is not None and dec.ret == 1: u.call("adaptor_recover", dec.b(1), s, Yo, cls="chained:decrypted_sig"); use_sig(u, dec.b(1), "chained:decrypted_sig", Xo)
        zs = u.call("sig_parse_compact", b32(I(a[1:33]) % n) + b32(0), cls="setup", nt=False)
        if zs is not None and zs.ret == 1: u.call("adaptor_recover", zs.b(1), s, Yo, cls="chained:sig_s_zero")
        o = fixed(rng, mutate(rng, ser33(X)), 33); op = u.call("s2c_opening_parse", o, cls="mutated_valid")
        if op is not None and op.ret == 1:
            u.call("s2c_opening_serialize", op.b(1), cls="chained:opening")
            sg = u.call("sig_parse_compact", b32(pools.scalar(rng) % n) + b32(pools.scalar(rng) % n), cls="setup", nt=False)
            if sg is not None and sg.ret == 1: u.call("s2c_verify_commit", sg.b(1), msg, op.b(1), cls="chained:opening"); u.call("ae_host_verify", sg.b(1), msg, Xo, msg, op.b(1), cls="chained:opening")
        e = b32(pools.field(rng, 0.5)) + b32(pools.field(rng, 0.5)) if it % 2 else pools.rbytes(rng, 64)
        dd = u.call("ellswift_decode", e, cls="pool")
        if dd is not None and dd.ret == 1 and it % 4 == 0: use_pubkey(u, dd.b(1), "chained:ellswift_decoded")
        u.call("ellswift_xdh", e, pools.rbytes(rng, 64), b32(pools.scalar(rng, 0.4)), rng.randrange(2), rng.choice((0, 1)), pools.rbytes(rng, 64), cls="pool")

def wl_zkp(u):
    rng = u.rng; ctx = u.ctx
    for it in ctx.iters(160, 5000):
        seed = pools.rbytes(rng, 32); ok, H = zkp.generate(seed); blind = rng.randrange(1, n); value = rng.choice((0, 1, 5, 1000, 2**40))
        gs = fixed(rng, mutate(rng, zkp.gen_ser(H)), 33) if it % 3 == 0 else zkp.gen_ser(H)
        g = u.call("generator_parse", gs, cls="mutated_valid")
        C = add(mulG(blind), mul(value, H) if value else None)
        cs = fixed(rng, mutate(rng, zkp.commit_ser(C)), 33) if it % 3 == 1 else zkp.commit_ser(C)
        c = u.call("commitment_parse", cs, cls="mutated_valid")
        if g is None or c is None: continue
        if g.ret == 1:
            u.call("generator_serialize", g.b(1), cls="chained:generator"); u.call("pedersen_commit", b32(pools.scalar(rng, 0.5)), pools.u64(rng), g.b(1), cls="chained:generator")
        if c.ret == 1:
            u.call("commitment_serialize", c.b(1), cls="chained:commitment"); u.call("pedersen_verify_tally", c.b(1) + c.b(1), 2, c.b(1), 1, cls="chained:commitment"); u.call("pedersen_verify_tally", c.b(1), 1, c.b(1), 1, cls="chained:commitment")
        if g.ret != 1 or c.ret != 1: continue
        # range proofs: reference-prover proof (valid), mutated; random bytes of many lengths
        mant = rng.choice((1, 2, 3, 4, 6)); exp = rng.choice((0, 1, 3)); minv = rng.choice((0, 7))
        pr = rp.make_proof(minv + rng.randrange(1 << mant) * 10 ** exp, blind, H, exp, mant, minv, b'x', rng) if it % 2 == 0 else None
        if pr is not None:
            co = u.call("commitment_parse", zkp.commit_ser(pr["C"]), cls="setup", nt=False); proofs = [pr["proof"]] + [mutate(rng, pr["proof"]) for _ in range(6)]
            cobj = co.b(1) if co is not None and co.ret == 1 else c.b(1)
        else:
            L = rng.choice((0, 1, 64, 65, 66, 98, 130, 500, 5134, 5135, 6000)) if rng.random() < 0.6 else rng.randrange(0, 700)
            pf = bytearray(pools.rbytes(rng, L))
            if L >= 2: pf[0] = rng.choice((0, 32, 64 | rng.randrange(32), 96 | rng.randrange(32), rng.randrange(256))); pf[1] = rng.choice((0, 1, 7, 63, 64, 255))
            proofs = [bytes(pf)]; cobj = c.b(1)
        for pf in proofs:
            ex = rng.choice((None, b'x', pools.rbytes(rng, 40)))
            u.call("rangeproof_info", pf or b'', cls="rangeproof")
            u.call("rangeproof_verify", cobj, pf or b'', ex, g.b(1), cls="rangeproof")
            u.call("rangeproof_rewind", rng.randrange(8), rng.choice((0, 1, 64, 4096)), pools.rbytes(rng, 32), cobj, pf or b'', ex, g.b(1), cls="rangeproof")

def wl_surj_wl(u):
    rng = u.rng; ctx = u.ctx
    for it in ctx.iters(120, 4000):
        nin = rng.choice((1, 2, 3, 8, 9, 16)); ins = [mulG(rng.randrange(1, n)) for _ in range(nin)]; k = rng.randrange(1, n); j = rng.randrange(nin)
        out = add(ins[j], mulG(k)); used = sorted(set([j] + [rng.randrange(nin) for _ in range(rng.randrange(0, 3))]))
        sb = sj.prove(ins, out, used, used.index(j), k, [rng.randrange(1, n) for _ in used], rng.randrange(1, n))
        if sb is None: continue
        gobjs = []
        for P in ins + [out]:
            r = u.call("generator_parse", zkp.gen_ser(P), cls="setup", nt=False)
            gobjs.append(r.b(1) if r is not None and r.ret == 1 else None)
        if any(o is None for o in gobjs): continue
        cands = [sb] + [mutate(rng, sb) for _ in range(5)]
        L = rng.choice((0, 1, 2, 3, 34, 35, 66, 67)) if rng.random() < 0.5 else rng.randrange(0, 300)
        rb = bytearray(pools.rbytes(rng, L))
        if L >= 2: rb[0] = rng.choice((nin, 0, 1, 8, 255, 0)); rb[1] = rng.choice((0, 0, 0, 1, 255))
        cands.append(bytes(rb))
        big = bytes([0, 1]) + b'\xff' * 32 + pools.rbytes(rng, 32 * 257); cands.append(big if it % 20 == 0 else big[:rng.randrange(2, 200)])
        for s in cands:
            p_ = u.call("surj_parse", s or b'', cls="surjection")
            if p_ is None or p_.ret != 1: continue
            u.call("surj_counts", p_.b(1), cls="chained:surjproof", ret01=False)
            u.call("surj_serialize", p_.b(1), len(s), cls="chained:surjproof"); u.call("surj_serialize", p_.b(1), rng.randrange(0, len(s) + 1), cls="chained:surjproof")
            u.call("surj_verify", p_.b(1), b''.join(gobjs[:-1]), nin, gobjs[-1], cls="chained:surjproof")
            m2 = rng.choice((nin - 1, nin + 1)) if nin > 1 else 2
            gl = (gobjs[:-1] * 2)[:m2]; u.call("surj_verify", p_.b(1), b''.join(gl), len(gl), gobjs[-1], cls="chained:surjproof")
    # well-formed-looking proofs for every input-count field around the 256 limit (and far beyond), with a consistent bitmap length and
    # total length, few or all bits set: the parsed object must never outgrow secp256k1_surjectionproof
    g1 = u.call("generator_parse", zkp.gen_ser(mulG(rng.randrange(1, n))), cls="setup", nt=False)
    for nin in ctx.mine(list(range(240, 280)) + [511, 512, 513, 1023, 2047, 4095, 4096, 8191, 32767, 65535]):
        bl = (nin + 7) // 8
        for mode in range(3):
            bm = bytearray(bl)
            if mode == 1: bm[rng.randrange(bl)] |= 1 << rng.randrange(8)
            if mode == 2:
                bm = bytearray(b'\xff' * bl)
                if nin % 8: bm[-1] = (1 << (nin % 8)) - 1
            used = sj.popcount(bm)
            s_ = bytes([nin & 0xFF, nin >> 8]) + bytes(bm) + pools.rbytes(rng, 32 * (1 + used))
            p_ = u.call("surj_parse", s_, cls="surjection:count_field")
            if p_ is None or p_.ret != 1: continue
            u.call("surj_counts", p_.b(1), cls="chained:surjproof", ret01=False); u.call("surj_serialize", p_.b(1), len(s_), cls="chained:surjproof")
            if g1 is not None and g1.ret == 1: u.call("surj_verify", p_.b(1), g1.b(1) * min(nin, 256), min(nin, 256), g1.b(1), cls="chained:surjproof")
    for it in ctx.iters(100, 3000):
        nk = rng.choice((0, 1, 2, 3, 8, 255)) if it % 6 else rng.randrange(0, 256)
        nk = min(nk, 12) if ctx.quick and nk != 255 else nk
        keys = [mulG(rng.randrange(1, n)) for _ in range(min(nk, 6) * 2 + 1)]
        on = [keys[(2 * i) % (len(keys) - 1)] for i in range(nk)]; off = [keys[(2 * i + 1) % (len(keys) - 1)] for i in range(nk)]; W = keys[-1]
        objc = {}
        def ko(P):
            if P not in objc: objc[P] = u.call("pubkey_parse", ser33(P), cls="setup", nt=False).b(1)
            return objc[P]
        sig = bytes([nk]) + pools.rbytes(rng, 32) + b''.join(b32(pools.scalar(rng, 0.4)) for _ in range(nk))
        cands = [sig, mutate(rng, sig), mutate(rng, sig), pools.rbytes(rng, rng.randrange(0, 100)) or b'']
        for s in cands:
            p_ = u.call("wl_parse", s or b'', cls="whitelist")
            if p_ is None or p_.ret != 1: continue
            cnt = s[0]
            u.call("wl_n_keys", p_.b(1), cls="chained:wlsig", ret01=False); u.call("wl_serialize", p_.b(1), len(s), cls="chained:wlsig"); u.call("wl_serialize", p_.b(1), rng.randrange(0, len(s) + 1), cls="chained:wlsig")
            if cnt == nk and nk > 0: u.call("wl_verify", p_.b(1), b''.join(ko(P) for P in on), b''.join(ko(P) for P in off), nk, ko(W), cls="chained:wlsig")
            u.call("wl_verify_n", p_.b(1), ko(W), ko(W), 0, ko(W), cls="chained:wlsig")
            if nk >= 1: u.call("wl_verify_n", p_.b(1), b''.join(ko(P) for P in on), b''.join(ko(P) for P in off), max(nk - 1, 0), ko(W), cls="chained:wlsig")
            # a parsed signature for FEWER keys than the verifier's lists hold (an older / smaller whitelist, or an edited count byte)
            if cnt < nk and nk > 0: u.call("wl_verify", p_.b(1), b''.join(ko(P) for P in on), b''.join(ko(P) for P in off), nk, ko(W), cls="chained:wlsig:count_lt_list")
            if cnt > 0:
                more = [keys[i % (len(keys) - 1)] for i in range(cnt + 1 + it % 3)] if len(keys) > 1 else [W] * (cnt + 1)
                if len(more) <= 255: u.call("wl_verify", p_.b(1), b''.join(ko(P) for P in more), b''.join(ko(P) for P in more), len(more), ko(W), cls="chained:wlsig:list_longer_than_count")

def wl_bppp_halfagg(u):
    rng = u.rng; ctx = u.ctx
    G8 = bppp.gens(8)
    for it in ctx.iters(120, 4000):
        k = rng.choice((0, 1, 2, 4, 8)); gser = bppp.gens_ser(G8[:k])
        s = mutate(rng, gser) if it % 2 and gser else (gser if it % 3 else pools.rbytes(rng, rng.choice((0, 1, 32, 33, 34, 65, 66, 67, 99))))
        u.call("bppp_gens_parse", s or b'', len(s) + 33, cls="bppp_generators", ret01=False)
        a, b = rng.choice(((1, 1), (2, 1), (1, 2), (2, 2), (4, 2)))
        gs = bppp.gens_ser(G8[:a + b]); rounds = max(a.bit_length(), b.bit_length()) - 1
        proof = pools.rbytes(rng, 65 * rounds + 64)
        if rounds and rng.random() < 0.7:
            pb = bytearray(proof)
            for rr in range(rounds):
                pb[65 * rr] = rng.choice((0, 1, 2, 3, 3, 4, 255)); X = mulG(rng.randrange(1, n)); R = mulG(rng.randrange(1, n))
                pb[65 * rr + 1:65 * rr + 33] = b32(X[0]) if rng.random() < 0.8 else bytes(32); pb[65 * rr + 33:65 * rr + 65] = b32(R[0]) if rng.random() < 0.8 else bytes(32)
            proof = bytes(pb)
        if rng.random() < 0.3: proof = mutate(rng, proof)
        c33 = ser33(mulG(rng.randrange(1, n))) if rng.random() < 0.9 else bytes(33)
        for ss in (0, 100, 100000):
            u.call("bppp_norm_verify", ss, pools.rbytes(rng, 8), b32(pools.scalar(rng, 0.4)), gs, rng.choice((a, a, a, 0, 3, a * 2)), b''.join(b32(rng.randrange(n)) for _ in range(rng.choice((b, b, b, 0, 3)))) or b'', c33, proof or b'', cls="bppp_norm_verify")
        # half-aggregation
        kk = rng.randrange(0, 5); ds = [rng.randrange(1, n) for _ in range(kk)]; msgs = [pools.rbytes(rng, 32) for _ in range(kk)]
        pks = [xbytes(mulG(d)) for d in ds]; sigs = [schnorr.sign(b32(d), m, None) for d, m in zip(ds, msgs)]
        objs = [u.call("xonly_parse", x, cls="setup", nt=False).b(1) for x in pks]
        agg = halfagg.aggregate(pks, msgs, sigs)
        for cand in (agg, mutate(rng, agg), pools.rbytes(rng, rng.randrange(0, 200)) or b''):
            u.call("halfagg_verify", b''.join(objs) or b'', b''.join(msgs) or b'', kk, cand or b'', cls="halfagg")
        junk = [fixed(rng, mutate(rng, s_), 64) for s_ in sigs]
        for bl in (0, 31, 32, 32 * (kk + 1) - 1, 32 * (kk + 1), 32 * (kk + 2)):
            if bl < 0: continue
            u.call("halfagg_aggregate", b''.join(objs) or b'', b''.join(msgs) or b'', b''.join(junk) or b'', kk, bl, cls="halfagg")
            if kk >= 1:
                pre = pools.rbytes(rng, min(bl, 32 * kk)); u.call("halfagg_inc", pre or b'', bl, bl, b''.join(objs), b''.join(msgs), junk[-1], kk - 1, 1, cls="halfagg")

def wl_crafted(u):
    """inputs built algebraically so that an INTERMEDIATE point of a verifier is the point at infinity (mutation of valid artifacts
    and random strings never produce them): every such call must still just return 0/1 (seeded change C07-2)"""
    from props.c14 import infinity_cases
    rng = u.rng; ctx = u.ctx
    for it in ctx.iters(60, 2000):
        for cls, a, X, msg, Y in infinity_cases(rng):
            Xo = u.call("pubkey_parse", ser33(X), cls="setup", nt=False).b(1); Yo = u.call("pubkey_parse", ser33(Y), cls="setup", nt=False).b(1)
            u.call("adaptor_verify", a, Xo, msg, Yo, cls="crafted:adaptor:" + cls)
            dec = u.call("adaptor_decrypt", b32(rng.randrange(1, n)), a, cls="crafted:adaptor:" + cls)
            if dec is not None and dec.ret == 1: u.call("adaptor_recover", dec.b(1), a, Yo, cls="crafted:adaptor:" + cls)
        # ECDSA: u1*G + u2*Q = infinity  (Q = -(m/r) G)
        r_ = rng.randrange(1, n); s_ = rng.randrange(1, (n + 1) // 2); m = rng.randrange(1, n); Q = mulG((-m * pow(r_, -1, n)) % n)
        so = u.call("sig_parse_compact", b32(r_) + b32(s_), cls="setup", nt=False); qo = u.call("pubkey_parse", ser33(Q), cls="setup", nt=False)
        if so is not None and qo is not None and so.ret == 1 and qo.ret == 1: u.call("ecdsa_verify", so.b(1), b32(m), qo.b(1), cls="crafted:ecdsa:sum_infinity")
        # Schnorr: s*G - e*P = infinity (s = e*d), any r
        d = rng.randrange(1, n); P = mulG(d)
        if P[1] & 1: d = n - d; P = neg(P)
        rx = b32(rng.randrange(1, p)); msg = pools.rbytes(rng, rng.choice((0, 32, 32, 100)))
        e = I(tagged(b"BIP0340/challenge", rx + b32(P[0]) + msg)) % n
        xo = u.call("xonly_parse", b32(P[0]), cls="setup", nt=False)
        if xo is not None and xo.ret == 1: u.call("schnorr_verify", rx + b32(e * d % n), msg, xo.b(1), cls="crafted:schnorr:R_infinity")
        # key combination / tweaks that cancel
        a_ = rng.randrange(1, n); ka = u.call("pubkey_parse", ser33(mulG(a_)), cls="setup", nt=False); kb = u.call("pubkey_parse", ser33(mulG(n - a_)), cls="setup", nt=False)
        if ka is not None and kb is not None and ka.ret == 1 and kb.ret == 1:
            u.call("pubkey_combine", ka.b(1) + kb.b(1), 2, cls="crafted:combine:cancel")
            u.call("pubkey_tweak_add", ka.b(1), b32(n - a_), cls="crafted:tweak_add:cancel")
            u.call("xonly_tweak_add", u.call("xonly_from_pubkey", ka.b(1), 1, cls="setup", nt=False).b(1), b32(n - a_ if not (mulG(a_)[1] & 1) else a_), cls="crafted:xonly_tweak_add:cancel")

def wl_crafted_rings(u):
    """Borromean chain point R = s*G + e*P forced to infinity (ring secrets known to the attacker) in surjection, whitelist and
    range-proof verification"""
    from ref import borromean, whitelist
    rng = u.rng; ctx = u.ctx
    for it in ctx.iters(40, 1200):
        # surjection: generators g_i*G, ring keys (g_o - g_i)*G
        nin = rng.choice((1, 2, 3, 5)); gs = [rng.randrange(1, n) for _ in range(nin)]; go = rng.randrange(1, n)
        if any(g == go for g in gs): continue
        ins = [mulG(g) for g in gs]; out = mulG(go); used = sorted(rng.sample(range(nin), rng.randrange(1, nin + 1)))
        pubs = [sub(out, ins[j]) for j in used]; secs = [(go - gs[j]) % n for j in used]; e0 = pools.rbytes(rng, 32); sc = [[rng.randrange(1, n) for _ in used]]
        cs = borromean.craft_infinity(e0, sc, [pubs], [secs], [len(used)], sj.msg(ins, out), 0, rng.randrange(len(used)))
        gobjs = [u.call("generator_parse", zkp.gen_ser(P), cls="setup", nt=False) for P in ins + [out]]
        if cs is not None and all(g is not None and g.ret == 1 for g in gobjs):
            bm = bytearray((nin + 7) // 8)
            for j in used: bm[j // 8] |= 1 << (j % 8)
            p_ = u.call("surj_parse", sj.serialize(nin, bytes(bm), e0, cs[0]), cls="setup", nt=False)
            if p_ is not None and p_.ret == 1: u.call("surj_verify", p_.b(1), b''.join(g.b(1) for g in gobjs[:-1]), nin, gobjs[-1].b(1), cls="crafted:surjection:chain_point_infinity")
        # whitelist
        nk = rng.choice((1, 2, 3, 6)); on_sk = [rng.randrange(1, n) for _ in range(nk)]; off_sk = [rng.randrange(1, n) for _ in range(nk)]; w = rng.randrange(1, n)
        on = [mulG(x) for x in on_sk]; off = [mulG(x) for x in off_sk]; W = mulG(w)
        km = whitelist.keys_and_msg(on, off, W)
        if km is not None:
            secs = [(on_sk[i] + I(sha(ser33(mulG((off_sk[i] + w) % n)))) * (off_sk[i] + w)) % n for i in range(nk)] if all((off_sk[i] + w) % n for i in range(nk)) else None
            if secs:
                e0 = pools.rbytes(rng, 32); cs = borromean.craft_infinity(e0, [[rng.randrange(1, n) for _ in range(nk)]], [km[0]], [secs], [nk], km[1], 0, rng.randrange(nk))
                if cs is not None:
                    p_ = u.call("wl_parse", bytes([nk]) + e0 + b''.join(b32(x) for x in cs[0]), cls="setup", nt=False)
                    ko = lambda P: u.call("pubkey_parse", ser33(P), cls="setup", nt=False).b(1)
                    if p_ is not None and p_.ret == 1: u.call("wl_verify", p_.b(1), b''.join(ko(P) for P in on), b''.join(ko(P) for P in off), nk, ko(W), cls="crafted:whitelist:chain_point_infinity")
        # range proof under a generator of known discrete log
        h = rng.randrange(1, n); H = mulG(h); mant = rng.choice((1, 2, 3, 4, 5)); v = rng.randrange(1 << mant); blind = rng.randrange(1, n)
        pr = rp.make_proof(v, blind, H, 0, mant, 0, b'', rng, small=False)
        if pr is not None and pr.get("ring_secs"):
            ring = rng.randrange(pr["rings"]); pos = rng.randrange(pr["rsizes"][ring])
            cs = borromean.craft_infinity(pr["e0"], pr["s_nested"], pr["pubs"], pr["ring_secs_all"](h), pr["rsizes"], pr["m"], ring, pos)
            if cs is not None:
                proof = pr["proof"][:pr["soff"]] + b''.join(b32(x) for r_ in cs for x in r_)
                Co = u.call("commitment_parse", zkp.commit_ser(pr["C"]), cls="setup", nt=False); Ho = u.call("generator_parse", zkp.gen_ser(H), cls="setup", nt=False)
                if Co is not None and Ho is not None and Co.ret == 1 and Ho.ret == 1:
                    u.call("rangeproof_verify", Co.b(1), proof, None, Ho.b(1), cls="crafted:rangeproof:chain_point_infinity")
                    u.call("rangeproof_rewind", 7, 4096, pools.rbytes(rng, 32), Co.b(1), proof, None, Ho.b(1), cls="crafted:rangeproof:chain_point_infinity")

def wl_dead_objects(u):
    """objects zeroed by a refused parse / create handed to every consumer of their type.  The API treats this as illegal use (it may report
    it through the callback and then carry on with a substitute value, e.g. pubkey_combine, ecdh), so nothing is demanded of the return
    value beyond 0/1: the monitors are the sanitizers, the VERIFY assertions and the allocation balance"""
    rng = u.rng; ctx = u.ctx
    def refuse(op, *a, cls):
        u.call(op, *a, cls="dead_object:" + cls, ill=1)
    for it in ctx.iters(24, 600):
        bad = u.call("pubkey_parse", bytes([rng.choice((2, 3))]) + b32(rng.choice((p, p + 1, 2**256 - 1, 0))), cls="setup", nt=False)
        good = u.call("pubkey_parse", ser33(mulG(rng.randrange(1, n))), cls="setup", nt=False)
        if bad is None or good is None or bad.ret != 0 or good.ret != 1: continue
        Z = bad.b(1); Gd = good.b(1); msg = pools.msg32(rng); sk = b32(rng.randrange(1, n))
        sig = u.call("sig_parse_compact", b32(rng.randrange(1, n)) + b32(rng.randrange(1, n // 2)), cls="setup", nt=False).b(1)
        refuse("pubkey_serialize", Z, 33, COMP, cls="pubkey"); refuse("pubkey_negate", Z, cls="pubkey"); refuse("pubkey_tweak_add", Z, sk, cls="pubkey"); refuse("pubkey_tweak_mul", Z, sk, cls="pubkey")
        refuse("pubkey_combine", Gd + Z, 2, cls="pubkey"); refuse("pubkey_combine", Z + Gd, 2, cls="pubkey"); refuse("xonly_from_pubkey", Z, 1, cls="pubkey")
        refuse("ecdsa_verify", sig, msg, Z, cls="pubkey"); refuse("ecdh", Z, sk, 0, cls="pubkey"); refuse("ellswift_encode", Z, pools.rbytes(rng, 32), cls="pubkey")
        a162 = adaptor.encrypt(sk, mulG(7), msg, None)
        if a162:
            refuse("adaptor_verify", a162, Z, msg, Gd, cls="pubkey"); refuse("adaptor_verify", a162, Gd, msg, Z, cls="enckey"); refuse("adaptor_encrypt", sk, Z, msg, 0, None, cls="enckey"); refuse("adaptor_recover", sig, a162, Z, cls="enckey")
        refuse("musig_pubkey_agg", Gd + Z, 2, 1, 1, cls="pubkey"); refuse("musig_pubkey_agg", Z, 1, 1, 1, cls="pubkey")
        wl = u.call("wl_parse", bytes([1]) + pools.rbytes(rng, 32) + b32(rng.randrange(1, n)), cls="setup", nt=False)
        if wl is not None and wl.ret == 1:
            refuse("wl_verify", wl.b(1), Z, Gd, 1, Gd, cls="online_key"); refuse("wl_verify", wl.b(1), Gd, Z, 1, Gd, cls="offline_key"); refuse("wl_verify", wl.b(1), Gd, Gd, 1, Z, cls="sub_key")
        # zeroed keypair (refused keypair_create) and zeroed x-only key (refused parse)
        kz = u.call("keypair_create", b32(rng.choice((0, n, 2**256 - 1))), cls="setup", nt=False)
        if kz is not None and kz.ret == 0:
            K0 = kz.b(1)
            refuse("keypair_sec", K0, cls="keypair"); refuse("keypair_pub", K0, cls="keypair"); refuse("keypair_xonly_tweak_add", K0, sk, cls="keypair")
            refuse("schnorr_sign32", msg, K0, None, cls="keypair"); refuse("schnorr_sign_custom", msg, K0, 0, None, cls="keypair")
        xz = u.call("xonly_parse", b32(rng.choice((p, 2**256 - 1, 5))), cls="setup", nt=False)
        if xz is not None and xz.ret == 0:
            X0 = xz.b(1)
            refuse("xonly_serialize", X0, cls="xonly"); refuse("xonly_tweak_add", X0, sk, cls="xonly"); refuse("xonly_tweak_add_check", b32(5), 0, X0, sk, cls="xonly")
            refuse("schnorr_verify", pools.rbytes(rng, 64), msg, X0, cls="xonly"); refuse("halfagg_verify", X0, msg, 1, pools.rbytes(rng, 64), cls="xonly")

def wl_memcheck(u):
    """a script of boundary-substitution inputs replayed on a VERIFY build under valgrind memcheck (one shard): any report (a branch or
    address depending on uninitialised memory, an invalid read / write) or a dying process is a violation.  ASan cannot see reads of
    uninitialised stack objects; VERIFY's own range assertions turn them into branches that memcheck does see."""
    import subprocess, tempfile, os
    from vlib import build
    from vlib.shim import enc
    ctx = u.ctx; rng = u.rng
    if ctx.shard != 3 % ctx.nshards or u.config != ctx.configs[0]: return
    lines = []
    def L(op, *a): lines.append(op + "".join(" " + enc(x) for x in a))
    pkX = u.call("pubkey_parse", ser33(mulG(11)), cls="setup", nt=False).b(1); pkY = u.call("pubkey_parse", ser33(mulG(7)), cls="setup", nt=False).b(1)
    msg = b32(0x1234); sk = b32(11)
    a162 = adaptor.encrypt(sk, mulG(7), msg, None)
    sigobj = u.call("sig_parse_compact", b32(5) + b32(7), cls="setup", nt=False).b(1)
    subs = [0, 1, n - 1, n, n + 1, p - 1, p, p + 1, 2**256 - 1]
    for off in (1, 34, 66, 98, 130):                     # R.x, R'.x, s', dleq_e, dleq_s
        for v in subs:
            t = a162[:off] + b32(v) + a162[off + 32:]
            L("adaptor_verify", t, pkX, msg, pkY); L("adaptor_decrypt", b32(7), t); L("adaptor_recover", sigobj, t, pkY)
    for v in subs:
        for w in subs[:5]:
            L("sig_parse_compact", b32(v) + b32(w)); L("rsig_parse_compact", b32(v) + b32(w), 1); L("musig_partial_sig_parse", b32(v)); L("xonly_parse", b32(v))
        L("pubkey_parse", b'\x02' + b32(v)); L("pubkey_parse", b'\x04' + b32(v) + b32(v)); L("commitment_parse", b'\x08' + b32(v)); L("generator_parse", b'\x0a' + b32(v))
        L("ellswift_decode", b32(v) + b32(subs[(subs.index(v) + 3) % len(subs)])); L("musig_pubnonce_parse", b'\x02' + b32(v) + b'\x03' + b32(v)); L("musig_aggnonce_parse", bytes(33) + b'\x02' + b32(v))
        L("s2c_opening_parse", b'\x02' + b32(v)); L("seckey_verify", b32(v)); L("seckey_tweak_add", sk, b32(v)); L("pubkey_tweak_mul", pkX, b32(v)); L("keypair_create", b32(v))
        L("ecdh", pkX, b32(v), 0); L("halfagg_verify", b'', b'', 0, b32(v)); L("wl_parse", b'\x01' + b32(v) + b32(v))
    from vlib.runner import memcheck_replay
    memcheck_replay(ctx, lines, "boundary_substitutions")

def libfuzzer(ctx):
    """thorough tier: libFuzzer over the same entry-point families (shim/fuzzdrv.c), bounded by -runs"""
    try:
        path = build.build("fuzz", ctx.repo)
    except build.BuildError as e:
        raise Inconclusive("fuzz build failed: %s" % str(e)[-500:])
    d = tempfile.mkdtemp(prefix="c07fuzz%d-" % ctx.shard, dir=os.path.join(build.CACHE, "tmp"))
    try:
        corpus = os.path.join(d, "corpus"); os.makedirs(corpus)
        env = dict(os.environ); env.update(SAN_ENV); env["SEEDDIR"] = corpus; env["ASAN_OPTIONS"] = "abort_on_error=1:detect_leaks=1:symbolize=1:quarantine_size_mb=8"
        runs = 40000
        r = subprocess.run([path, corpus, "-runs=%d" % runs, "-max_len=6000", "-seed=%d" % (ctx.seed * 100 + ctx.shard + 1), "-artifact_prefix=" + d + "/", "-print_final_stats=1", "-timeout=30"], capture_output=True, text=True, env=env, timeout=7000, cwd=d)
        m = re.search(r"stat::number_of_executed_units:\s+(\d+)", r.stderr)
        execs = int(m.group(1)) if m else 0
        ctx.bulk("libfuzzer_exec", "libfuzzer", execs, "fuzz:%d:%d" % (ctx.seed, ctx.shard)); ctx.count("libfuzzer_executions", execs)
        cov = re.findall(r"cov: (\d+)", r.stderr)
        if cov: ctx.count("libfuzzer_edges_shard%d" % ctx.shard, int(cov[-1]))
        if r.returncode != 0:
            arts = [f for f in os.listdir(d) if f.startswith(("crash-", "leak-", "timeout-", "oom-"))]
            rep = r.stderr[-6000:]
            fr = re.findall(r"#\d+ 0x[0-9a-f]+ in (\S+)", rep); fr = [f for f in fr if not f.startswith(("__", "abort", "raise", "fuzzer::", "LLVMFuzzer", "main"))][:2]
            what = "callback" if "callback fired" in rep or "CALLBACK" in rep else ("verify_check" if "test condition failed" in rep else ("asan" if "AddressSanitizer" in rep else ("ubsan" if "runtime error" in rep else "abort")))
            data = open(os.path.join(d, arts[0]), "rb").read().hex() if arts else ""
            ctx.fail("C07:libfuzzer:%s:%s" % (what, "/".join(fr)), "libFuzzer stopped (rc=%d) after %d executions; artifact bytes (op byte first): %s\n%s" % (r.returncode, execs, data[:1200], rep), cmds=[path], config="fuzz")
    except subprocess.TimeoutExpired:
        raise Inconclusive("libFuzzer worker exceeded its wall-clock guard")
    finally:
        shutil.rmtree(d, ignore_errors=True)

def run(ctx):
    for config in ctx.cfgs():
        u = U(ctx, config)
        wl_keys_sigs(u); wl_musig(u); wl_adaptor_s2c_ell(u); wl_zkp(u); wl_surj_wl(u); wl_bppp_halfagg(u); wl_crafted(u); wl_crafted_rings(u); wl_dead_objects(u); wl_memcheck(u)
    if not ctx.quick: libfuzzer(ctx)
