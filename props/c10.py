"""C10 Range-proof verification accepts exactly the specified proofs (consensus-exact)."""
from ref.ec import *
from ref import pools, zkp, rangeproof as rp

ID = "C10"
LEVEL = "exploration"
CONFIGS = {"quick": ["san", "san_nv", "mx_i64"], "thorough": ["san", "san_nv", "mx_i64"]}
RULE = ("proofs built by an adversarial reference prover for arbitrary headers (exp 0..31, mantissa 1..65, min_value, reserved bit, wrapping ranges, "
        "spare sign bits, no-range proofs) with every forged ring scalar chosen small, and library-made proofs; mutations: each forged scalar re-encoded "
        "as s+n, scalars := 0 / n, digit x := off-curve / >= p / sign flipped, e0 altered, single-bit flips (all bits of the smallest proofs, sampled "
        "otherwise) of proof, extra data, commitment and generator, truncation / extension; verify / info / rewind results and reported ranges "
        "compared with an independent verifier. non-trivial = model accepts or the string is one mutation from an accepted proof; distinct = (op, inputs)")
ASSUMPTIONS = ["ref/rangeproof.py + ref/borromean.py transcribe the proof format (validated against library output at design time)",
               "acceptance compared only on generated strings; strings far from any generated proof are out of reach"]

def gen_pair(ctx, config, rng):
    if rng.random() < 0.3:
        r = ctx.call("generator_h", config=config); return zkp.H_POINT, r.b(0)
    seed = pools.rbytes(rng, 32); ok, H = zkp.generate(seed)
    r = ctx.call("generator_generate", seed, config=config)
    return H, r.b(1)
def gen_obj(ctx, config, P):
    r = ctx.call("generator_parse", zkp.gen_ser(P), config=config)
    return r.b(1) if r is not None and r.ret == 1 else None
def commit_obj(ctx, config, P):
    r = ctx.call("commitment_parse", zkp.commit_ser(P), config=config)
    return r.b(1) if r is not None and r.ret == 1 else None

def vcase(ctx, config, C, Co, H, Ho, proof, extra, cls, nontrivial=True, also_info=False):
    exp = rp.verify(C, H, proof, extra)
    v = ctx.call("rangeproof_verify", Co, proof, extra if extra else None, Ho, config=config)
    if v is None: return exp
    ctx.ev("rangeproof_verify", cls, nontrivial, proof, extra, zkp.commit_ser(C), zkp.gen_ser(H))
    ok = ctx.check(v.ret == (1 if exp else 0), "rangeproof_verify:%s:%s" % (cls, "accepted_invalid" if v.ret else "rejected_valid"),
                   "proof=%s extra=%s C=%s H=%s model=%s lib=%r" % (proof.hex(), extra.hex(), zkp.commit_ser(C).hex(), zkp.gen_ser(H).hex(), exp, v), config)
    if ok and exp:
        ctx.check((v.i(1), v.i(2)) == exp, "rangeproof_verify:%s:wrong_range" % cls, "model %s lib (%d,%d)" % (exp, v.i(1), v.i(2)), config)
    if also_info:
        h = rp.header(proof)
        inf = ctx.call("rangeproof_info", proof, config=config)
        if inf is not None:
            ctx.ev("rangeproof_info", cls, nontrivial, proof[:12], len(proof))
            if ctx.check(inf.ret == (1 if h else 0), "rangeproof_info:%s:%s" % (cls, "accepted_bad_header" if inf.ret else "rejected_good_header"), proof[:12].hex(), config) and h:
                ctx.check((inf.i(1), inf.i(2), inf.i(3), inf.i(4)) == (h[1], h[2], h[4], h[5]), "rangeproof_info:wrong_fields", "model %s lib %r" % (h, inf), config)
    return exp

def mutations(ctx, config, rng, C, Co, H, Ho, pr, extra, tag, full_flips=False):
    proof = pr["proof"]; soff = pr["soff"]
    # scalar re-encodings and range
    idxs = list(range(len(pr["scalars"])))
    rng.shuffle(idxs)
    for k in idxs[:6]:
        s = pr["scalars"][k]; o = soff + 32 * k
        if s + n < 2**256:
            vcase(ctx, config, C, Co, H, Ho, proof[:o] + b32(s + n) + proof[o + 32:], extra, tag + ":scalar+n")
        for nv, cl in ((0, "scalar_zero"), (n, "scalar_n"), (2**256 - 1, "scalar_max"), (n - s, "scalar_negated")):
            if rng.random() < 0.5: vcase(ctx, config, C, Co, H, Ho, proof[:o] + b32(nv) + proof[o + 32:], extra, tag + ":" + cl)
    # every proof length from 0 to len+40 for small proofs (truncation / trailing bytes at every offset, not only +-1)
    if len(proof) <= 330 and rng.random() < 0.35:
        tail = bytes(rng.getrandbits(8) for _ in range(40)) if rng.random() < 0.5 else bytes(40)
        for L in range(0, len(proof) + 41):
            if L != len(proof) and (L > len(proof) - 70 or L % 7 == 0): vcase(ctx, config, C, Co, H, Ho, (proof + tail)[:L], extra, tag + ":len_sweep", nontrivial=abs(L - len(proof)) <= 33)
    # the verifier derives the last digit commitment as C - (sum of the transmitted ones + min*H): a commitment chosen so that this is
    # the point at infinity must be rejected
    if pr.get("acc") is not None and rng.random() < 0.5:
        Ca = pr["acc"]; Cao = commit_obj(ctx, config, Ca)
        if Cao is not None: vcase(ctx, config, Ca, Cao, H, Ho, proof, extra, tag + ":derived_commitment_infinity")
    # e0
    o = soff - 32; t = bytearray(proof); t[o + rng.randrange(32)] ^= 1 << rng.randrange(8); vcase(ctx, config, C, Co, H, Ho, bytes(t), extra, tag + ":e0_altered")
    # digit commitments
    for i in range(min(pr["rings"] - 1, 3)):
        o = pr["xoff"] + 32 * i
        while True:
            x = rng.randrange(p)
            if lift_x(x) is None: break
        vcase(ctx, config, C, Co, H, Ho, proof[:o] + b32(x) + proof[o + 32:], extra, tag + ":digit_off_curve")
        vcase(ctx, config, C, Co, H, Ho, proof[:o] + b32(rng.choice((p, p + 1, 2**256 - 1))) + proof[o + 32:], extra, tag + ":digit_ge_p")
        so = pr["hdrlen"] + (i >> 3); t = bytearray(proof); t[so] ^= 1 << (i & 7); vcase(ctx, config, C, Co, H, Ho, bytes(t), extra, tag + ":digit_sign_flipped")
    # truncation / extension
    for t in (proof[:-1], proof + b'\x00', proof[:-32], proof + bytes(32), proof[:64], proof[:65]):
        vcase(ctx, config, C, Co, H, Ho, t, extra, tag + ":length")
    # bit flips
    nbits = len(proof) * 8
    bits = range(nbits) if full_flips else [rng.randrange(nbits) for _ in range(24)] + list(range(0, min(16 + 8 * pr["hdrlen"], nbits)))
    for i in bits:
        t = bytearray(proof); t[i // 8] ^= 1 << (i % 8); vcase(ctx, config, C, Co, H, Ho, bytes(t), extra, tag + (":flip_all" if full_flips else ":flip"))
    # extra data, commitment, generator
    if extra:
        t = bytearray(extra); t[rng.randrange(len(t))] ^= 1 << rng.randrange(8); vcase(ctx, config, C, Co, H, Ho, proof, bytes(t), tag + ":extra_flip")
    vcase(ctx, config, C, Co, H, Ho, proof, extra + b'\x00', tag + ":extra_extended"); vcase(ctx, config, C, Co, H, Ho, proof, extra[:-1] if extra else b'x', tag + ":extra_truncated")
    C2 = add(C, G); o2 = commit_obj(ctx, config, C2)
    if o2: vcase(ctx, config, C2, o2, H, Ho, proof, extra, tag + ":other_commitment")
    C3 = neg(C); o3 = commit_obj(ctx, config, C3)
    if o3: vcase(ctx, config, C3, o3, H, Ho, proof, extra, tag + ":negated_commitment")
    H2 = add(H, G); g2 = gen_obj(ctx, config, H2)
    if g2: vcase(ctx, config, C, Co, H2, g2, proof, extra, tag + ":other_generator")
    H3 = neg(H); g3 = gen_obj(ctx, config, H3)
    if g3: vcase(ctx, config, C, Co, H3, g3, proof, extra, tag + ":negated_generator")

def wl_refprover(ctx, config):
    rng = ctx.rng
    did_full = False
    for it in ctx.iters(110, 1000):
        H, Ho = gen_pair(ctx, config, rng)
        kind = it % 11
        exp = rng.choice((0, 0, 1, 2, 5, 18)); mant = rng.choice((1, 2, 3, 4, 5, 6, 7, 8)) if ctx.quick or rng.random() < 0.95 else rng.choice((16, 31, 32, 63, 64))
        minv = rng.choice((0, 0, 1, 7, 10**6, 2**32)); kw = {}; cls = "valid"
        no_range = False
        if kind == 1: kw["reserved"] = 1; cls = "reserved_bit"
        elif kind == 2:
            exp = rng.choice((19, 19, 20, 25, 31)); mant = rng.choice((1, 2)); minv = 0; cls = "exp_gt_18"
        elif kind == 3:
            # wrapping range: min + max overflows 2^64 although the ring signature is valid for the wrapped statement
            mant = rng.choice((1, 2, 3, 4)); exp = 0; minv = 2**64 - rng.randrange(1, (1 << mant)); cls = "min_plus_max_wraps"
        elif kind == 4:
            exp = rng.choice((1, 2, 3)); mant = rng.choice((62, 63, 64)) if not ctx.quick else 4; cls = "scaled_max"
            if ctx.quick: exp = 19 - mant // 4; exp = 18; mant = rng.choice((4, 5)); cls = "scaled_max_overflow"   # (2^m - 1) * 10^18 overflows for m >= 5
        elif kind == 5: kw["spare_bits"] = rng.randrange(1, 128); mant = rng.choice((3, 4, 5, 6, 7, 8, 9, 10)); cls = "spare_sign_bits"
        elif kind == 6: no_range = True; cls = "no_range"
        elif kind == 7 and not ctx.quick and it % 5 == 2: mant = 65; exp = 0; minv = 0; cls = "mantissa_65"
        elif kind == 8: mant = 64 if not ctx.quick else rng.choice((9, 12)); exp = 0; minv = 0; cls = "mantissa_large"
        elif kind == 9: kw["mant_field"] = rng.choice((64, 65, 128, 255)); mant = rng.choice((1, 2)); cls = "mantissa_byte_ge_64"
        vmax = (1 << mant) - 1
        v = rng.choice((0, 1, vmax, vmax // 2, rng.randrange(vmax + 1)))
        value = minv + v * 10 ** exp
        if no_range: value = minv if minv else rng.choice((0, 1, 5, 2**63, 2**64 - 1)); minv = value
        blind = rng.randrange(1, n); extra = pools.rbytes(rng, rng.choice((0, 0, 1, 32, 100)))
        pr = rp.make_proof(value, blind, H, exp, mant, minv, extra, rng, no_range=no_range, **kw)
        if pr is None: continue
        C = pr["C"]; Co = commit_obj(ctx, config, C)
        if Co is None: continue
        if cls in ("valid", "mantissa_large") and rp.header(pr["proof"]) is None: cls = "scaled_max_overflow"
        exp_model = vcase(ctx, config, C, Co, H, Ho, pr["proof"], extra, "refprover:" + cls, also_info=True)
        ctx.count("refprover_%s_%s" % (cls, "accepted" if exp_model else "rejected"))
        if cls in ("valid", "no_range", "mantissa_large") and not ctx.check(exp_model is not None, "model:refprover_proof_rejected_by_model:" + cls, "exp=%d mant=%d min=%d" % (exp, mant, minv), config): continue
        if exp_model is not None:
            ctx.check(exp_model[0] <= value <= exp_model[1], "model:value_outside_range", "", config)
            full = (not did_full) and mant <= 2 and ctx.shard % 4 == 0
            if full: did_full = True
            mutations(ctx, config, rng, C, Co, H, Ho, pr, extra, "refprover", full_flips=full)
        else:
            # the only thing between this proof and acceptance is one header / format rule: a few more probes around it
            if cls == "reserved_bit":
                t = bytearray(pr["proof"]); t[0] &= 0x7F; vcase(ctx, config, C, Co, H, Ho, bytes(t), extra, "refprover:reserved_bit_cleared")

def wl_degenerate_members(ctx, config):
    """ring signatures that close although a FORGED scalar is exactly 0, or although a ring member (not the signer's) is the point at
    infinity - both must be rejected at every flat index of every ring (the checks are per member, not per ring)"""
    rng = ctx.rng
    for it in ctx.iters(48, 900):
        mant = rng.choice((2, 3, 4, 4, 5, 6)); exp = 0; v = rng.randrange(1 << mant); blind = rng.randrange(1, n); extra = pools.rbytes(rng, rng.choice((0, 5)))
        rsz = rp.layout(mant); ring = rng.randrange(len(rsz))
        if it % 2 == 0:
            H, Ho = gen_pair(ctx, config, rng)
            pr = rp.make_proof(v, blind, H, exp, mant, 0, extra, rng, small=False, forged_override={(ring, j): 0 for j in range(rsz[ring]) if rng.random() < 0.7})
            cls = "forged_scalar_zero:ring%d_of_%d" % (ring, len(rsz))
        else:
            if len(rsz) < 2: continue
            ring = rng.randrange(len(rsz) - 1); h = rng.randrange(1, n); H = mulG(h); Ho = gen_obj(ctx, config, H); jp = rng.randrange(rsz[ring])
            pr = rp.make_proof(v, blind, H, exp, mant, 0, extra, rng, small=False, bl_override={ring: (lambda dg, w, jp=jp, h=h: ((jp - dg) * w * h) if jp != dg else rng.randrange(1, n))})
            cls = "ring_member_infinity:ring%d_of_%d" % (ring, len(rsz))
        if pr is None or Ho is None: continue
        Co = commit_obj(ctx, config, pr["C"])
        if Co is None: continue
        has_zero = any(x == 0 for x in pr["scalars"]); has_inf = any(P is None for r_ in pr["pubs"] for P in r_)
        exp_model = vcase(ctx, config, pr["C"], Co, H, Ho, pr["proof"], extra, "degenerate:" + cls + (":present" if (has_zero or has_inf) else ":absent"), also_info=True)
        if has_zero or has_inf: ctx.check(exp_model is None, "model:degenerate_member_accepted_by_model", cls, config)

def wl_explicit_zero_min(ctx, config):
    """headers that carry the minimum-value field with an explicit zero (the library's prover never does): valid proofs, among them the
    longest possible one - mantissa 64 with the field present is exactly 5134 bytes, the advertised maximum"""
    rng = ctx.rng
    mants = [1, 2, 3, 8] + ([64] if (ctx.shard == 0 and ctx.scale == 1.0) or not ctx.quick else [])
    for mant in ctx.mine(mants) if not ctx.quick else mants[-1:] + [rng.choice(mants[:4])]:
        H, Ho = gen_pair(ctx, config, rng); v = rng.randrange(1 << mant); extra = pools.rbytes(rng, rng.choice((0, 9)))
        pr = rp.make_proof(v, rng.randrange(1, n), H, 0, mant, 0, extra, rng, small=False, force_min_flag=True)
        if pr is None: continue
        Co = commit_obj(ctx, config, pr["C"])
        if Co is None: continue
        ctx.count("explicit_zero_min_proof_bytes_max", 0); ctx.counters["explicit_zero_min_proof_bytes_max"] = max(ctx.counters.get("explicit_zero_min_proof_bytes_max", 0), len(pr["proof"]))
        e = vcase(ctx, config, pr["C"], Co, H, Ho, pr["proof"], extra, "explicit_zero_min:mant%d:len%d" % (mant, len(pr["proof"])), also_info=True)
        ctx.check(e is not None, "model:explicit_zero_min_rejected_by_model", "mant=%d" % mant, config)
        vcase(ctx, config, pr["C"], Co, H, Ho, pr["proof"] + b'\x00', extra, "explicit_zero_min:trailing_byte")

def wl_partial_sum_infinity(ctx, config):
    """transmitted digit commitments chosen so that their running sum passes through the point at infinity (C1 = -C0: both digits 0,
    opposite blinding factors): a perfectly valid proof that a verifier must accept"""
    rng = ctx.rng
    for it in ctx.iters(16, 300):
        mant = rng.choice((5, 6, 7, 8)); v = (rng.randrange(1 << (mant - 4)) << 4); b0 = rng.randrange(1, n)
        H, Ho = gen_pair(ctx, config, rng); extra = pools.rbytes(rng, rng.choice((0, 4)))
        pr = rp.make_proof(v, rng.randrange(1, n), H, 0, mant, 0, extra, rng, small=False, bl_override={0: (lambda dg, w, b0=b0: b0), 1: (lambda dg, w, b0=b0: n - b0)})
        if pr is None: continue
        Co = commit_obj(ctx, config, pr["C"])
        if Co is None: continue
        e = vcase(ctx, config, pr["C"], Co, H, Ho, pr["proof"], extra, "partial_sum_of_digit_commitments_infinity", also_info=True)
        ctx.check(e is not None, "model:partial_sum_infinity_rejected_by_model", "mant=%d v=%d" % (mant, v), config)

def wl_smallx(ctx, config):
    """digit commitment with x0 < 2^32+977 under a generator chosen by the prover: canonical encoding must verify, x0 + p must not"""
    rng = ctx.rng
    for it in ctx.iters(24, 400):
        extra = pools.rbytes(rng, rng.choice((0, 0, 7, 32)))
        for noncanon in (False, True):
            d = rp.make_proof_smallx(rng, extra, noncanon)
            if d is None: continue
            Ho = gen_obj(ctx, config, d["H"]); Co = commit_obj(ctx, config, d["C"])
            if Ho is None or Co is None: continue
            exp_model = vcase(ctx, config, d["C"], Co, d["H"], Ho, d["proof"], extra, "smallx:" + ("x0_plus_p" if noncanon else "canonical"), also_info=True)
            if not noncanon: ctx.check(exp_model is not None, "model:smallx_canonical_rejected_by_model", "x0=%d" % d["x0"], config)
            else: ctx.check(exp_model is None, "model:smallx_noncanonical_accepted_by_model", "x0=%d" % d["x0"], config)

def wl_libproofs(ctx, config):
    rng = ctx.rng
    for it in ctx.iters(70, 700):
        H, Ho = gen_pair(ctx, config, rng)
        exp = rng.choice((-1, 0, 0, 1, 3, 18)); min_bits = rng.choice((0, 0, 1, 2, 3, 5, 8)) if ctx.quick or rng.random() < 0.95 else rng.choice((32, 64))
        value = rng.choice((0, 1, 2, 100, 12345, 2**20 + 1)) if min_bits < 32 else rng.randrange(2**40)
        minv = rng.choice((0, 0, value, value // 2, max(value - 1, 0)))
        blind = rng.randrange(1, n); nonce = pools.rbytes(rng, 32); extra = pools.rbytes(rng, rng.choice((0, 5, 33)))
        C = add(mulG(blind), mul(value, H) if value else None); Co = commit_obj(ctx, config, C)
        if Co is None: continue
        r = ctx.call("rangeproof_sign", 5134, minv, Co, b32(blind), nonce, exp, min_bits, value, None, extra or None, Ho, config=config)
        if r is None or r.ret != 1: continue
        proof = r.b(2)[:r.i(1)]
        e = vcase(ctx, config, C, Co, H, Ho, proof, extra, "libproof", also_info=True)
        if not ctx.check(e is not None, "model:library_proof_rejected_by_model", "exp=%d min_bits=%d value=%d min=%d proof=%s" % (exp, min_bits, value, minv, proof.hex()), config): continue
        h = rp.header(proof); rs = rp.layout(h[2]); hdr = h[0]
        pr = dict(proof=proof, soff=hdr + ((len(rs) + 6) >> 3) + 32 * (len(rs) - 1) + 32, scalars=[I(proof[hdr + ((len(rs) + 6) >> 3) + 32 * (len(rs) - 1) + 32 + 32 * k:][:32]) for k in range(sum(rs))],
                  xoff=hdr + ((len(rs) + 6) >> 3), rings=len(rs), hdrlen=hdr, rsizes=rs)
        mutations(ctx, config, rng, C, Co, H, Ho, pr, extra, "libproof")
        # rewind agrees with verify on mutated inputs (same acceptance set when the nonce is right)
        for cls, pf in (("ok", proof), ("flip", bytes(bytearray(proof[:-1]) + bytes([proof[-1] ^ 1])))):
            rw = ctx.call("rangeproof_rewind", 7, 4096, nonce, Co, pf, extra or None, Ho, config=config)
            if rw is None: continue
            em = rp.verify(C, H, pf, extra)
            ctx.ev("rangeproof_rewind", "libproof:" + cls, True, pf, nonce)
            ctx.check(rw.ret == (1 if em else 0), "rangeproof_rewind:libproof:%s:%s" % (cls, "accepted_invalid" if rw.ret else "rejected_valid"), "proof=%s" % pf.hex(), config)

def wl_garbage(ctx, config):
    rng = ctx.rng
    for it in ctx.iters(300, 6000):
        H, Ho = gen_pair(ctx, config, rng); C = mulG(rng.randrange(1, n)); Co = commit_obj(ctx, config, C)
        L = rng.choice((0, 1, 64, 65, 66, 97, 98, 99, 130, 162, 200, 700, 5134, 5135)) if rng.random() < 0.7 else rng.randrange(0, 800)
        pf = bytearray(pools.rbytes(rng, L))
        if L >= 2 and rng.random() < 0.8: pf[0] = rng.choice((0, 32, 64, 96, 64 | rng.randrange(32), 96 | rng.randrange(32))); pf[1] = rng.choice((0, 1, 2, 3, 63, 64, rng.randrange(256)))
        vcase(ctx, config, C, Co, H, Ho, bytes(pf), b'', "garbage", nontrivial=False, also_info=True)

def run(ctx):
    for i, config in enumerate(ctx.cfgs()):
        wl_smallx(ctx, config)
        wl_explicit_zero_min(ctx, config)
        wl_partial_sum_infinity(ctx, config)
        wl_degenerate_members(ctx, config)
        if ctx.quick and config == "mx_i64": continue          # quick: the 32-bit-limb build only gets the coordinate-range workloads
        wl_refprover(ctx, config)                              # quick: the production build gets a third of the adversarial-prover workload
        if ctx.quick and i > 0: continue
        wl_libproofs(ctx, config)
        wl_garbage(ctx, config)
