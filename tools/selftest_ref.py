#!/usr/bin/env python3
"""model self-check: the reference model against itself and against published vectors found in the tree"""
import sys, os
sys.path.insert(0, os.path.dirname(os.path.dirname(os.path.abspath(__file__))))
from ref import ec
ec.selftest()
print("ref selftest ok")
