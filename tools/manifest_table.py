"""per-property manifest text"""
CHECKS = {
 "C03": {
  "technique": "runtime monitoring: sanitizer build + format-model oracle over exhaustive/grammar-generated encodings",
  "text": "Every parser/serializer call on ~26k (quick) / ~520k (thorough) generated strings is executed in the ASan+UBSan+VERIFY build and compared with an independent SEC1 / x-only / compact / strict-DER format model; exhaustive over prefix byte x length x boundary coordinates and over one structural DER deviation, sampled beyond. Held-on-observed-executions, not a proof.",
  "note": "Trusted: the Python format models (ref/der.py, ref/ec.py), gcc sanitizers. Acceptance sets compared only on generated strings."},
}
CHECKS.update({
 "C01": {
  "technique": "runtime monitoring: sanitizer builds (2-7 configurations) + RFC 6979 / textbook-ECDSA reference oracle on constructed boundary triples",
  "text": "Every sign / sign_recoverable / recover / verify / normalize call (~15k quick, ~400k thorough, several build configurations) is executed under ASan+UBSan+VERIFY and compared with an independent model; verification triples are built with the choose-s and choose-R constructions so that s = (n+-1)/2, r+n<p and r/s = 0 are actually reached. Held on the executions observed.",
  "note": "Trusted: ref/ecdsa.py, ref/hashes.py (self-tested), gcc/clang sanitizers. Not reached: valid r+p re-encodings, r = 0 from signing."},
 "C02": {
  "technique": "runtime monitoring: sanitizer builds + BIP-340 reference oracle; every message length 0..300, sampled to 1e5; constructed R=infinity / odd-y signatures",
  "text": "sign32/sign_custom/verify records (~24k quick) under ASan+UBSan+VERIFY compared byte for byte with a BIP-340 model written from the BIP; all 512 bit flips of some signatures, sampled flips of the rest, out-of-range r/s, R = infinity and odd-y constructions, custom nonce callbacks.",
  "note": "Trusted: ref/schnorr.py (checked against the BIP-340 vectors), sanitizers. s+n / r+p re-encodings of valid signatures are not constructible on the real curve."},
 "C04": {
  "technique": "runtime monitoring: sanitizer build + integer/point model over single operations and lock-step secret/public histories",
  "text": "Key algebra records (~39k quick) incl. histories of mixed negate/add/mul/x-only/keypair tweaks applied to secret and public side in lock-step, combine with cancelling prefixes, sort/cmp up to 200 keys; each output compared with the integer / point model, failures judged through the API (seckey_verify, serializer refusal).",
  "note": "Trusted: ref/ec.py group law (self-tested against a plain affine ladder)."},
})
CHECKS.update({
 "C14": {
  "technique": "runtime monitoring: sanitizer build + DLEQ/adaptor-equation reference oracle; honest pipelines and an adversarial prover choosing s'",
  "text": "encrypt->verify->decrypt->ECDSA verify->recover pipelines and ~35k adaptor_verify/recover/decrypt records (quick) under ASan+UBSan+VERIFY; encryption compared byte for byte with the model, verification compared on all 1296 single-bit flips of some signatures, sampled flips, scalar := 0/n/+n, point negation/off-curve/x>=p, and on signatures whose s' is chosen small by solving for the message so that s'+n is constructible.",
  "note": "Trusted: ref/adaptor.py. DLEQ response +n re-encodings need the small-group build (not reachable on the real curve)."},
 "C16": {
  "technique": "runtime monitoring: sanitizer build + ring-equation reference oracle; honest, public-data-only and chosen-scalar forgeries",
  "text": "whitelist sign/verify/parse/serialize records for key counts 1..255 (every count <= 8, 127/128/254/255, sampled others) with every signer index for small lists; verify compared with an independent model on honest signatures, the empty-ring forgery (finding F1, fixed), reference-prover rings with small scalars and s+n re-encodings, bit flips, count/length edits and key-list edits.",
  "note": "Trusted: ref/whitelist.py, ref/borromean.py. Degenerate offline_i = -W lists are only checked for memory safety."},
})
CHECKS.update({
 "C15": {
  "technique": "runtime monitoring: sanitizer build + protocol reference oracle over repeated anti-exfil runs on contexts with default and replaced SHA-256 compression",
  "text": "s2c_sign / verify_commit / host_commit / signer_commit / anti_exfil_sign / host_verify records (~21k quick) under ASan+UBSan+VERIFY: signature and opening compared byte for byte with the model, commitment verification compared with the model on mutated data / openings / signatures, signer commitment equals the later opening, runs repeated with equal and different host randomness and with an independent SHA-256 compression function installed on either side (the monitor counts its invocations).",
  "note": "Trusted: ref/s2c.py, ref/ecdsa.py."},
 "C17": {
  "technique": "runtime monitoring: sanitizer build + half-aggregation reference oracle; all compositions n<=8; small-group build for s+order re-encodings",
  "text": "one-shot aggregation of 0..64 signatures compared byte for byte with the draft's formula; every composition of incremental aggregation for n <= 8 (sampled above) gives identical bytes; buffer-length contract 0..32(n+2) in exact-size heap blocks; aggverify compared with the model on honest and mutated aggregates; in the order-13/199 small-group configuration every re-encoding s + k*order of every valid aggregate is rejected.",
  "note": "Trusted: ref/halfagg.py, ref/schnorr.py; the small-group driver uses the library's own signer and verifier to establish validity."},
})
CHECKS.update({
 "C08": {
  "technique": "runtime monitoring: sanitizer build + group-law / Shallue-van de Woestijne reference oracle; tally scenarios balanced through the blind-sum helpers then unbalanced by one unit",
  "text": "pedersen_commit / generator derivation / both 33-byte parsers / blind-sum helpers / verify_tally (~8k records quick) under ASan+UBSan+VERIFY, every output compared with the group-law model incl. the constructible result-at-infinity failure (generator with known discrete log), prefix 0..255 x boundary x for the parsers, tallies of up to 32+32 commitments over 1..4 assets.",
  "note": "Trusted: ref/zkp.py, ref/ec.py."},
 "C09": {
  "technique": "runtime monitoring: sanitizer build + post-condition monitors (verify, info, rewind, determinism across contexts) + documented success-set predicate",
  "text": "rangeproof_sign on the edge product of value/min_value/exp/min_bits (sampled in quick) and random fill with messages, extra data, blinds and buffer sizes; every successful proof is verified by the library and by an independent verifier, its range compared with info, rewound with the creator's and with another nonce, re-created in a randomized context with a replaced SHA-256 compression function; documented-invalid parameters must fail, documented-valid must succeed, the rest is counted as unmodelled.",
  "note": "Trusted: ref/rangeproof.py verifier; the reading of the header documentation encoded in props/c09.py classify()."},
 "C10": {
  "technique": "runtime monitoring: sanitizer build + independent reference verifier; adversarial reference prover with chosen (small) forged scalars and arbitrary headers",
  "text": "rangeproof_verify / info / rewind (~15k records quick) compared with an independent verifier on proofs from an adversarial Python prover (arbitrary exponent, mantissa, min_value, reserved bit, wrapping range with a valid ring signature for the wrapped statement, spare sign bits, no-range proofs) and on library-made proofs, each mutated: forged scalars re-encoded as s+n, scalar := 0/n, digit x off-curve / >= p / sign flipped, e0, all single-bit flips of the smallest proofs and sampled flips of the rest, truncation/extension, other commitment / generator / extra data.",
  "note": "Trusted: ref/rangeproof.py, ref/borromean.py. Digit-commitment x+p re-encodings are not constructible (needs x < 2^32+977 with known discrete log)."},
 "C18": {
  "technique": "runtime monitoring: sanitizer build + BIP-324 XSwiftEC / group-law reference oracle over special and branch-targeted 64-byte strings",
  "text": "ecdh (all hash choices), ellswift_decode / encode / create / xdh (both parties, all hashers) ~9k records quick; decode compared with a BIP-324 model on random strings, u/t in {0,p,p+1,2^256-1}, the u^3+t^2+7=0 family, with the map branch (x1/x2/x3) and remap taken logged per record; every encoding decodes back to its key in library and model.",
  "note": "Trusted: ref/ellswift.py."},
})
CHECKS.update({
 "C11": {
  "technique": "runtime monitoring: sanitizer build + canonical-encoding and ring-equation reference oracle; post-condition monitors on initialize/generate; allocation monitor",
  "text": "surjectionproof initialize (all (n, subset) pairs for n <= 8, boundary sizes up to 256, match position/multiplicity, iteration limits) with post-conditions, generate+verify with matching and invalid keys, verify compared with an independent model on library proofs and reference-prover proofs (small forged scalars, s+n re-encodings, empty-selection forgery from public data), tag/count edits, the parser on every n_inputs field 0..599 and sampled to 65535, every padding-bit pattern, length +-1/32; allocate_initialized/destroy must balance malloc/free.",
  "note": "Trusted: ref/surjection.py, ref/borromean.py. The intra-struct overrun of a 257..263-input parse is invisible to ASan and is caught by the format model instead."},
 "C12": {
  "technique": "runtime monitoring: sanitizer build + BIP-327 reference oracle over complete sessions incl. model-made co-signers that cancel aggregate nonce components",
  "text": "~400 (quick) full MuSig2 sessions: key aggregation (cache fields read through the library's load helper), plain/x-only tweak sequences incl. the tweak that cancels the aggregate key, both nonce-generation entry points with every optional-argument subset and 64-bit counters, nonce aggregation incl. infinity components, session fields, partial signatures, partial verification against wrong key/nonce/session/value, aggregation in permuted order, BIP-340 verification of the result, adaptor adapt/extract; every value compared with a BIP-327 model.",
  "note": "Trusted: ref/musig.py, ref/schnorr.py; shim views use secp256k1_keyagg_cache_load / secp256k1_musig_session_load."},
 "C13": {
  "technique": "runtime monitoring: bounded exhaustive enumeration of API call histories against an abstract single-use automaton + object-state monitor (nonce bytes, callback counts, ledger)",
  "text": "every sequence to depth 3 (quick, from 2 start states) / 4 (thorough, 4 start states) over a 34-symbol alphabet of nonce_gen / nonce_gen_counter / partial_sign calls with valid and invalid arguments on two nonce objects, plus 200 / 20000 random histories of length 50; after every call the nonce object must be all-zero unless a generation succeeded, a failing call must not write a signature, successful signatures equal the BIP-327 value, and a ledger shows at most one signature per generated nonce.",
  "note": "Trusted: the automaton in props/c13.py; ref/musig.py. Copies of a live nonce made by the caller are outside the property."},
})
CHECKS.update({
 "C19": {
  "technique": "runtime monitoring: sanitizer build + independent folding verifier; allocation monitor on generator lists; scratch-size sweep",
  "text": "norm-argument prove->verify for all 49 shapes {1..64}^2 (quick skips about half of the two largest) with random / zero / boundary vectors, prover with and without scratch, verifier with 8 scratch sizes (fail closed, never a wrong accept), verification compared with a round-by-round folding model on honest proofs and on bit flips, sign bytes, infinity encodings, scalars >= order incl. n+order / l+order for prover-chosen small n, l, length / size / generator-count / rho / prefix / commitment edits; generator lists 0..256 compared with the DRBG+SvdW model (prefix property), serialize/parse round trips and malformed lists with malloc/free balance.",
  "note": "Trusted: ref/bppp.py, ref/zkp.py; shim wrappers around the internal prove/verify routines mirror tests_impl.h."},
})
CHECKS.update({
 "C05": {
  "technique": "runtime monitoring: 4 (quick) / 10 (thorough) sanitizer builds of the configuration matrix with VERIFY magnitude assertions + big-integer / group-law / hashlib reference oracle on internal routines",
  "text": "field (every magnitude each routine permits, two near-maximal limb materialisations), scalar, int128 (native and struct emulation), group (P+P, P+(-P), infinity, beta family, Jacobian rescalings), ecmult / ecmult_gen (blinded contexts) / ecmult_const / xonly / multi (Strauss, Pippenger, simple; scratch sizes; batches 0..300), SHA-256 for every length 0..300 and sampled to 2^20 under random chunkings, HMAC, RFC 6979 DRBG, all 18 precomputed tagged midstates; ~49k records quick over {int128 native+asm, int64, int128 struct, no asm} x several window / comb sizes, all compared with the same Python models (hence bit-identical across builds).",
  "note": "Trusted: Python integer arithmetic, hashlib/hmac, ref/ec.py. 32-bit targets, ARM assembly and window sizes > 15 cannot be built here."},
 "C20": {
  "technique": "runtime monitoring: golden-output replay over context histories (sanitizer build), ThreadSanitizer on 2..16 threads sharing one context with overlap accounting, writable-segment hashing of libsecp256k1.so, allocation counters, static-context runs in child processes",
  "text": "a ~150-call probe suite covering every API family is replayed after every step of random context histories (create / preallocated create / clone / preallocated clone / randomize / replace, corrupt or reset the SHA-256 compression function / destroy) and must equal the fresh-context outputs; every probe also runs on secp256k1_context_static (child process) and on a byte copy, judged by the header's own '(not secp256k1_context_static)' markers; the const-context probes run on 2, 4, 8, 16 threads x 4 context preparations x asm/no-asm TSan builds (150k overlapping call pairs observed per quick run); the .so's writable PT_LOAD segment is compared around 11 checkpoints incl. an 8-thread batch, under TSan as well; create/clone <= 1 allocation, preallocated variants 0.",
  "note": "Trusted: TSan, dl_iterate_phdr segment discovery, the probe suite's coverage of API families. Interleavings that did not occur are not covered."},
})
CHECKS.update({
 "C06": {
  "technique": "runtime monitoring: valgrind memcheck as a taint tracker (secrets marked undefined, error counter sampled around every API call) on 3 (quick) / 7 (thorough) compiled variants of the library, with a liveness canary",
  "text": "every API the project declares constant-time is executed with its secret arguments undefined (the maintainers' list in src/ctime_tests.c, extended with optional-argument subsets, 1..5 MuSig signers, 0..3 tweaks, adaptor on/off, custom ECDH hash, aux randomness) on fresh, public-seed- and secret-seed-randomised contexts; the library is compiled as its own translation unit with the shipped flags and -DVALGRIND for {native int128 + asm, int64, int128 struct} (quick) plus {-O3, -Os, no asm, clang} (thorough); any memcheck report inside a call is attributed to that call; a canary proves the tracker is live.",
  "note": "Trusted: memcheck definedness propagation; verdict is per compiled binary. Non-control-flow timing channels are out of reach."},
})
CHECKS.update({
 "C07": {
  "technique": "runtime monitoring: ASan+UBSan+VERIFY build with exact-size heap buffers, callback / return-domain / live-allocation monitors over random, mutated-valid and parse-chained inputs; libFuzzer in the thorough tier",
  "text": "every parser and verifier entry point of every module (~75 shim ops) receives random bytes at every length, valid artifacts (made by the reference provers and the library's signers) under 9 mutation operators, and every object a parser accepted is chained into the functions that take its type (e.g. a signature with s = 0 into adaptor_recover: finding F2, fixed); ~29k calls quick; a sanitizer report, VERIFY_CHECK abort, fired callback, return value outside {0,1}, unreleased allocation or watchdog expiry is a violation. thorough adds 16 x 40k libFuzzer executions over the same families and the production (non-VERIFY) and int64 builds.",
  "note": "Trusted: ASan/UBSan; red-zone tools miss intra-object overflows (those are delegated to the format models of C03/C11/C16)."},
})
NOT_APPLICABLE = {}

# ---- additions made after the seeded-change rounds (DESIGN.md 9.6): appended to the texts above
ADDED = {
 "C01": " Added: forge_r (the verifier's computed point R is fixed and an arbitrary numeric relation r = f(X(R)) is presented: x+(p-n), x-(p-n), p-x, ...), crafted u1*G+u2*Q = infinity triples, s values limb-wise adjacent to n/2, quick tier on san + mx_i64 + mx_noasm.",
 "C02": " Added: the quick tier also runs the no-asm 64-bit build (mx_noasm).",
 "C05": " Added: operands derived from a chosen RESULT in the final-correction windows of each reduction (steer / wl_reduce), limb-pattern and limb-wise-comparison operands, one-bit / one-limb differences for the equality routines, magnitude 31 for fe_equal on every build (finding F4, fixed), quick tier on 5 builds incl. the non-VERIFY 32-bit-limb one; the thorough tier sweeps every precomputed ECMULT_WINDOW_SIZE 2..15 over the table-driven routines, every scratch size on a 4-byte grid.",
 "C07": " Added: algebraically crafted inputs that make an intermediate point of a verifier the point at infinity (adaptor R1/R2/derived point, ECDSA, Schnorr, cancelling combine/tweaks, Borromean chain points in surjection / whitelist / range proofs), production (non-VERIFY) build in the quick tier; a boundary subset of the recorded commands is replayed on a sanitizer-free VERIFY build under valgrind memcheck (reads of uninitialised memory, which ASan cannot see); dead / half-wiped opaque objects fed to every consumer.",
 "C09": " Added: directed zero-blinding cases around the min_bits clamp (known finding F5 is reported as KNOWN-FINDING with its own key); messages crafted from the key stream to zero a forged ring scalar; foreign nonces with every subset of optional outputs.",
 "C10": " Added: proofs whose digit commitment has x0 < 2^32+977 under a prover-chosen generator, in canonical and x0+p encodings (decides the 'digit commitment >= p' clause), quick tier also on the 32-bit-limb build; cancelling digit commitments, explicit zero minimum and maximum-length proofs.",
 "C12": " Added: key lists containing a key and its negation, sign-flipped partial signatures / nonces / keys and effective-nonce-at-infinity probes for partial_sig_verify, sessions continuing with the cache left by a refused tweak.",
 "C14": " Added: crafted R1 / R2 / derived-point-at-infinity strings, r differing from R.x in one bit at every position, quick tier also on the 32-bit-limb build.",
 "C16": " Added: duplicate and negation-twin key lists, negated-key mutations, crafted chain-point-at-infinity inputs, count and signature extended together.",
 "C17": " Added: the empty aggregate with every boundary scalar and wrong length; schedules with refused steps and with empty parts (NULL and non-NULL empty arrays); every aggregate length.",
 "C11": " Added: count fields around their limit with consistent lengths, forgeries through degenerate ring members, unblinded tags (blinding key 0), a HAVE_BUILTIN_POPCOUNT build.",
 "C13": " Added: the no-asm build (the wipe primitive is configuration-dependent) in the quick tier; every present/absent combination of the optional nonce_gen arguments, half-wiped keypairs, caller buffers at odd addresses.",
 "C04": " Added: Taproot checks against x and x+p for outputs with x < 2^32+977 (internal key built from the chosen output); key families differing in one byte of x at each position, every comb layout (86 / 22 / 2 KiB) across the three quick builds.",
 "C18": " Added: arbitrary non-zero ints for the 'party' flag; production build in the quick tier.",
 "C20": " Added: helgrind runs of the production build (inline asm included), production build in the quick tier, a shim death in the static-context workload is a violation; refused calls and absent optional arguments in the thread probes; the probe suite replayed on a VERIFY build under memcheck.",
}
GLOBAL_ADDED = (" Every check also repeats a sample of its calls on a byte copy of secp256k1_context_static (operations the headers do not restrict) and on a "
                "second context (a malloc or preallocated CLONE of a randomized context with a replaced SHA-256 compression function), and repeats byte-array-only calls with every argument / output block placed at an odd address, demanding identical replies; the shim reports every input block a call changed and only the documented in/out arguments may change (input-immutability monitor); quick tiers run secondary builds "
                "(production / 32-bit limbs / no asm, three comb-table layouts) on a third of each workload.")
NOTE_FIX = {
 "C10": "Trusted: ref/rangeproof.py, ref/borromean.py (incl. the small-x prover with a chosen generator).",
}
for _k, _v in ADDED.items():
    if _k in CHECKS: CHECKS[_k]["text"] = CHECKS[_k]["text"] + _v
for _k in CHECKS:
    if _k not in ("C06",): CHECKS[_k]["text"] = CHECKS[_k]["text"] + GLOBAL_ADDED
for _k, _v in NOTE_FIX.items():
    if _k in CHECKS: CHECKS[_k]["note"] = _v
