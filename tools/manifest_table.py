"""per-property manifest text"""
CHECKS = {
 "C03": {
  "technique": "runtime monitoring: sanitizer build + format-model oracle over exhaustive/grammar-generated encodings",
  "text": "Every parser/serializer call on ~26k (quick) / ~520k (thorough) generated strings is executed in the ASan+UBSan+VERIFY build and compared with an independent SEC1 / x-only / compact / strict-DER format model; exhaustive over prefix byte x length x boundary coordinates and over one structural DER deviation, sampled beyond. Held-on-observed-executions, not a proof.",
  "note": "Trusted: the Python format models (ref/der.py, ref/ec.py), gcc sanitizers. Acceptance sets compared only on generated strings."},
}
NOT_APPLICABLE = {}
