"""per-property manifest text"""
CHECKS = {
 "C03": {
  "technique": "runtime monitoring: sanitizer build + format-model oracle over exhaustive/grammar-generated encodings",
  "text": "Every parser/serializer call on ~26k (quick) / ~520k (thorough) generated strings is executed in the ASan+UBSan+VERIFY build and compared with an independent SEC1 / x-only / compact / strict-DER format model; exhaustive over prefix byte x length x boundary coordinates and over one structural DER deviation, sampled beyond. Held-on-observed-executions, not a proof.",
  "note": "Trusted: the Python format models (ref/der.py, ref/ec.py), gcc sanitizers. Acceptance sets compared only on generated strings."},
}
CHECKS.update({
 "C01": {
  "technique": "runtime monitoring: sanitizer builds (2-7 configurations) + RFC 6979 / textbook-ECDSA reference oracle on constructed boundary triples",
  "text": "Every sign / sign_recoverable / recover / verify / normalize call (~15k quick, ~400k thorough, several build configurations) is executed under ASan+UBSan+VERIFY and compared with an independent model; verification triples are built with the choose-s and choose-R constructions so that s = (n+-1)/2, r+n<p and r/s = 0 are actually reached. Held on the executions observed.",
  "note": "Trusted: ref/ecdsa.py, ref/hashes.py (self-tested), gcc/clang sanitizers. Not reached: valid r+p re-encodings, r = 0 from signing."},
 "C02": {
  "technique": "runtime monitoring: sanitizer builds + BIP-340 reference oracle; every message length 0..300, sampled to 1e5; constructed R=infinity / odd-y signatures",
  "text": "sign32/sign_custom/verify records (~24k quick) under ASan+UBSan+VERIFY compared byte for byte with a BIP-340 model written from the BIP; all 512 bit flips of some signatures, sampled flips of the rest, out-of-range r/s, R = infinity and odd-y constructions, custom nonce callbacks.",
  "note": "Trusted: ref/schnorr.py (checked against the BIP-340 vectors), sanitizers. s+n / r+p re-encodings of valid signatures are not constructible on the real curve."},
 "C04": {
  "technique": "runtime monitoring: sanitizer build + integer/point model over single operations and lock-step secret/public histories",
  "text": "Key algebra records (~39k quick) incl. histories of mixed negate/add/mul/x-only/keypair tweaks applied to secret and public side in lock-step, combine with cancelling prefixes, sort/cmp up to 200 keys; each output compared with the integer / point model, failures judged through the API (seckey_verify, serializer refusal).",
  "note": "Trusted: ref/ec.py group law (self-tested against a plain affine ladder)."},
})
CHECKS.update({
 "C14": {
  "technique": "runtime monitoring: sanitizer build + DLEQ/adaptor-equation reference oracle; honest pipelines and an adversarial prover choosing s'",
  "text": "encrypt->verify->decrypt->ECDSA verify->recover pipelines and ~35k adaptor_verify/recover/decrypt records (quick) under ASan+UBSan+VERIFY; encryption compared byte for byte with the model, verification compared on all 1296 single-bit flips of some signatures, sampled flips, scalar := 0/n/+n, point negation/off-curve/x>=p, and on signatures whose s' is chosen small by solving for the message so that s'+n is constructible.",
  "note": "Trusted: ref/adaptor.py. DLEQ response +n re-encodings need the small-group build (not reachable on the real curve)."},
 "C16": {
  "technique": "runtime monitoring: sanitizer build + ring-equation reference oracle; honest, public-data-only and chosen-scalar forgeries",
  "text": "whitelist sign/verify/parse/serialize records for key counts 1..255 (every count <= 8, 127/128/254/255, sampled others) with every signer index for small lists; verify compared with an independent model on honest signatures, the empty-ring forgery (finding F1, fixed), reference-prover rings with small scalars and s+n re-encodings, bit flips, count/length edits and key-list edits.",
  "note": "Trusted: ref/whitelist.py, ref/borromean.py. Degenerate offline_i = -W lists are only checked for memory safety."},
})
CHECKS.update({
 "C15": {
  "technique": "runtime monitoring: sanitizer build + protocol reference oracle over repeated anti-exfil runs on contexts with default and replaced SHA-256 compression",
  "text": "s2c_sign / verify_commit / host_commit / signer_commit / anti_exfil_sign / host_verify records (~21k quick) under ASan+UBSan+VERIFY: signature and opening compared byte for byte with the model, commitment verification compared with the model on mutated data / openings / signatures, signer commitment equals the later opening, runs repeated with equal and different host randomness and with an independent SHA-256 compression function installed on either side (the monitor counts its invocations).",
  "note": "Trusted: ref/s2c.py, ref/ecdsa.py."},
 "C17": {
  "technique": "runtime monitoring: sanitizer build + half-aggregation reference oracle; all compositions n<=8; small-group build for s+order re-encodings",
  "text": "one-shot aggregation of 0..64 signatures compared byte for byte with the draft's formula; every composition of incremental aggregation for n <= 8 (sampled above) gives identical bytes; buffer-length contract 0..32(n+2) in exact-size heap blocks; aggverify compared with the model on honest and mutated aggregates; in the order-13/199 small-group configuration every re-encoding s + k*order of every valid aggregate is rejected.",
  "note": "Trusted: ref/halfagg.py, ref/schnorr.py; the small-group driver uses the library's own signer and verifier to establish validity."},
})
NOT_APPLICABLE = {}
