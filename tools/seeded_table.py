#!/usr/bin/env python3
"""Markdown table of the seeded changes kept under seeded/ (for DESIGN.md 9.6).  usage: tools/seeded_table.py"""
import json, glob, os
V = os.path.dirname(os.path.dirname(os.path.abspath(__file__)))
rows = [json.load(open(f)) for f in sorted(glob.glob(os.path.join(V, "seeded", "*", "meta.json")))]
print("| id | what it needs to manifest | caught by | first verdict |")
print("|---|---|---|---|")
for m in rows:
    first = "caught as built" if not m.get("note") else m["note"]
    print("| %s | %s | %s | %s |" % (m["id"], m["needs_to_manifest"].replace("|", "/"), m["detected_by"].replace("|", "/"), first.replace("|", "/")))

if __name__ == "__main__" and len(__import__("sys").argv) > 1 and __import__("sys").argv[1] == "--update-design":
    import io, contextlib
    p = os.path.join(V, "DESIGN.md"); s = open(p).read()
    a = s.index("<!-- SEEDED-TABLE-START -->") + len("<!-- SEEDED-TABLE-START -->"); b = s.index("<!-- SEEDED-TABLE-END -->")
    lines = ["| id | what it needs to manifest | caught by | first verdict |", "|---|---|---|---|"]
    for m in rows:
        lines.append("| %s | %s | %s | %s |" % (m["id"], m["needs_to_manifest"].replace("|", "/"), m["detected_by"].replace("|", "/"), (m.get("note") or "caught as built").replace("|", "/")))
    open(p, "w").write(s[:a] + "\n" + "\n".join(lines) + "\n" + s[b:])
