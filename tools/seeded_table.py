#!/usr/bin/env python3
"""Markdown table of the seeded changes kept under seeded/ (for DESIGN.md 9.6).  usage: tools/seeded_table.py"""
import json, glob, os
V = os.path.dirname(os.path.dirname(os.path.abspath(__file__)))
rows = [json.load(open(f)) for f in sorted(glob.glob(os.path.join(V, "seeded", "*", "meta.json")))]
print("| id | what it needs to manifest | caught by | first verdict |")
print("|---|---|---|---|")
for m in rows:
    first = "caught as built" if not m.get("note") else m["note"]
    print("| %s | %s | %s | %s |" % (m["id"], m["needs_to_manifest"].replace("|", "/"), m["detected_by"].replace("|", "/"), first.replace("|", "/")))
