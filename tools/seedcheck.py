#!/usr/bin/env python3
"""Re-run the checks against every seeded change kept under seeded/ (each applied to a scratch copy of /repo under /tmp, never to /repo).
usage: tools/seedcheck.py [--tier quick] [ids...]   prints one line per change and writes seeded/RESULTS.md when run without ids"""
import sys, os, json, glob, argparse, subprocess, re
V = os.path.dirname(os.path.dirname(os.path.abspath(__file__)))
ap = argparse.ArgumentParser(); ap.add_argument("ids", nargs="*"); ap.add_argument("--tier", default="quick"); ap.add_argument("--jobs", type=int, default=1); a = ap.parse_args()
from concurrent.futures import ThreadPoolExecutor
def one(f):
    m = json.load(open(f))
    r = subprocess.run([sys.executable, os.path.join(V, "tools", "mutcheck.py"), "--patch", os.path.join(os.path.dirname(f), "patch.diff"), "--check", m["property"], "--tier", a.tier], capture_output=True, text=True)
    mm = re.search(r"rc=(\d+) keys=(.*)", r.stdout)
    rc = int(mm.group(1)) if mm else -1; keys = mm.group(2) if mm else r.stdout[-200:] + r.stderr[-200:]
    verdict = "CAUGHT" if rc == 1 else ("MISSED" if rc == 0 else "INCONCLUSIVE")
    if verdict == "MISSED" and "extra_check" in m:
        # a change that the property's own quick tier does not reach by design (DESIGN.md 9.4): run the check / tier named in meta.json
        x = m["extra_check"]
        r = subprocess.run([sys.executable, os.path.join(V, "tools", "mutcheck.py"), "--patch", os.path.join(os.path.dirname(f), "patch.diff"), "--check", x["check"], "--tier", x["tier"]], capture_output=True, text=True)
        mm = re.search(r"rc=(\d+) keys=(.*)", r.stdout)
        if mm and int(mm.group(1)) == 1: verdict = "MISSED by %s %s, CAUGHT by %s %s" % (m["property"], a.tier, x["check"], x["tier"]); keys = mm.group(2)
    print("%-8s %s %-8s %s %s" % (m["id"], m["property"], a.tier, verdict, keys[:200]), flush=True)
    return (m["id"], m["property"], verdict, keys)
def natural(f):
    i = os.path.basename(os.path.dirname(f)); x, y = i.split("-"); return (int(y), x)
files = [f for f in sorted(glob.glob(os.path.join(V, "seeded", "*", "meta.json")), key=natural) if not a.ids or json.load(open(f))["id"] in a.ids]
with ThreadPoolExecutor(a.jobs) as ex: rows = list(ex.map(one, files))
if not a.ids:
    with open(os.path.join(V, "seeded", "RESULTS.md"), "w") as f:
        f.write("# Seeded changes against the current checks (tier=%s), written by tools/seedcheck.py\n\ncaught %d / %d\n\n| id | check | verdict | first keys |\n|---|---|---|---|\n" % (a.tier, sum("CAUGHT" in r[2] for r in rows), len(rows)))
        for i, p, v, k in rows: f.write("| %s | %s | %s | `%s` |\n" % (i, p, v, k[:300].replace("|", "/")))
