#!/usr/bin/env python3
"""Store a confirmed seeded change under /verif/seeded/<id>/ (patch.diff, demo.c, NOTES.md from the sub-agent, meta.json).
usage: tools/seed_store.py <worktree> <id> <property> <needs> <detected-by> [<note>]"""
import sys, os, json, shutil, subprocess
wt, sid, prop, needs, det = sys.argv[1:6]; note = sys.argv[6] if len(sys.argv) > 6 else ""
d = os.path.join(os.path.dirname(os.path.dirname(os.path.abspath(__file__))), "seeded", sid)
os.makedirs(d, exist_ok=True)
for f in ("patch.diff", "demo.c", "NOTES.md"):
    if os.path.exists(os.path.join(wt, f)): shutil.copy(os.path.join(wt, f), os.path.join(d, f))
base = subprocess.run(["git", "-C", wt, "rev-parse", "HEAD"], capture_output=True, text=True).stdout.strip()
meta = {"id": sid, "property": prop, "base_commit": base, "origin": "fresh sub-agent given only the property text and a scratch worktree",
        "needs_to_manifest": needs,
        "confirmed_by_me": ["patch.diff equals the worktree's diff under src/ include/", "cmake --build + ctest: 100% tests passed, 0 tests failed out of 317",
                            "demo.c exits non-zero against the worktree with the change and 0 against /repo's tree (tools: /tmp/seedtools/confirm.sh, see DESIGN.md 9.6)"],
        "ran": "tools/mutcheck.py --patch seeded/%s/patch.diff --check %s" % (sid, prop), "detected_by": det, "note": note}
json.dump(meta, open(os.path.join(d, "meta.json"), "w"), indent=1)
print("stored", d)
