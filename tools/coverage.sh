#!/bin/bash
# Measuring aid (not a registered check): which lines of /repo/src do the quick workloads reach?
# Builds the shim with gcov instrumentation (-O0 --coverage, VERIFY on) under /tmp/verif-cov, runs the quick tier of every vshim-based
# check with VERIF_SHIM_OVERRIDE pointing at it (evidence goes to a scratch directory), then prints the uncovered library lines.
# usage: tools/coverage.sh [C01 C02 ...]      (default: all checks except C06, which has its own driver)
set -e
V=$(cd "$(dirname "$0")/.." && pwd); D=/tmp/verif-cov; rm -rf $D; mkdir -p $D
python3 - <<PY
import sys, subprocess
sys.path.insert(0, "$V")
from vlib import build
cfg = dict(build.CONFIGS["san"]); cfg["opt"] = ["-O0", "-g"]; cfg["extra"] = ["--coverage"]
r = subprocess.run(build.command_line("cov", cfg, "$D/vshim"), capture_output=True, text=True)
sys.exit(r.returncode)
PY
CHECKS=${@:-C01 C02 C03 C04 C05 C07 C08 C09 C10 C11 C12 C13 C14 C15 C16 C17 C18 C19 C20}
for c in $CHECKS; do VERIF_SHIM_OVERRIDE=$D/vshim VERIF_EVIDENCE_DIR=$D/evidence timeout 3000 $V/check $c 2>&1 | tail -1 | cut -c1-120; done
cd $D; gcov -p -b -o $D vshim-vshim.gcda > gcov.out 2>&1 || true
python3 - <<'PY'
import glob, re
rows = []
for f in glob.glob('/tmp/verif-cov/*.gcov'):
    src = None; tot = 0; unc = []
    for l in open(f, errors='replace'):
        m = re.match(r'\s*([^:]+):\s*(\d+):(.*)', l)
        if not m: continue
        cnt, ln, text = m.group(1).strip(), int(m.group(2)), m.group(3)
        if ln == 0:
            if text.startswith('Source:'): src = text[7:]
            continue
        if cnt == '-': continue
        tot += 1
        if cnt in ('#####', '====='): unc.append((ln, text))
    if src and '/src/' in src and 'tests' not in src and 'bench' not in src and '/shim/' not in src:
        rows.append((src.split('/src/', 1)[1], tot, len(unc), unc))
rows.sort(key=lambda r: -r[2])
T = sum(r[1] for r in rows); U = sum(r[2] for r in rows)
print("library files %d, executable lines %d, not reached %d (%.1f%% reached)" % (len(rows), T, U, 100.0 * (T - U) / max(T, 1)))
for name, tot, nu, unc in rows:
    if nu:
        print("== %s: %d of %d lines not reached" % (name, nu, tot))
        for ln, t in unc: print("   %5d %s" % (ln, t.rstrip()[:120]))
PY
