#!/bin/sh
# usage: bt.sh <worktree>   -- configure (first time), build and run the repository's pinned test suite in <worktree>/_build
# (handed to the seeding sub-agents as /tmp/seedtools/bt.sh; kept here for the record, not part of the registered checks)
set -e
W=$1
if [ ! -f "$W/_build/build.ninja" ]; then
  OPTS=$(grep -E '^(SECP256K1_[A-Z_0-9]+|CMAKE_BUILD_TYPE|CMAKE_C_FLAGS):' /repo/_build/CMakeCache.txt | sed -E 's/^([^:]+):[A-Z]+=(.*)$/-D\1=\2/' | grep -v "=$")
  cmake -G Ninja -S "$W" -B "$W/_build" $OPTS > /dev/null
fi
cmake --build "$W/_build" 2>&1 | tail -3
ctest --test-dir "$W/_build" -j6 --timeout 900 2>&1 | grep -E "tests passed|tests failed|Failed|\*\*\*" | head -20
