#!/bin/bash
# usage: confirm.sh <worktree>  -- my own confirmation of a seeded change: patch == working diff, builds, 317 tests pass, demo fails with / passes without
# env: NOASM=1 (compile the demo without USE_ASM_X86_64), EXTRA_DEFS="..." (extra compiler flags for the demo, e.g. -DUSE_FORCE_WIDEMUL_INT64=1 -DVERIFY -pthread)
# (used as /tmp/seedtools/confirm.sh during the seeded-change rounds; kept here for the record, not part of the registered checks)
W=$1
cd $W || exit 2
git diff -- src include > /tmp/confirm.$$.diff
if ! diff -q <(grep -v '^index ' /tmp/confirm.$$.diff) <(grep -v '^index ' patch.diff) >/dev/null; then echo "NOTE: patch.diff differs from working diff (using working diff)"; cp /tmp/confirm.$$.diff patch.diff; fi
rm -f /tmp/confirm.$$.diff
echo "changed: $(git diff --stat -- src include | tail -1)"
echo "files outside src/include touched: $(git status --porcelain | grep -v '^??' | grep -v ' src/\| include/' | wc -l)"
cmake --build _build 2>&1 | tail -1
ctest --test-dir _build -j8 --timeout 900 2>&1 | grep "tests passed\|tests failed"
ASMDEF="-DUSE_ASM_X86_64=1"; [ -n "$NOASM" ] && ASMDEF=""
DEFS="-DCOMB_BLOCKS=43 -DCOMB_TEETH=6 -DECMULT_WINDOW_SIZE=15 $ASMDEF -DENABLE_MODULE_BPPP=1 -DENABLE_MODULE_ECDH=1 -DENABLE_MODULE_ECDSA_ADAPTOR=1 -DENABLE_MODULE_ECDSA_S2C=1 -DENABLE_MODULE_ELLSWIFT=1 -DENABLE_MODULE_EXTRAKEYS=1 -DENABLE_MODULE_GENERATOR=1 -DENABLE_MODULE_MUSIG=1 -DENABLE_MODULE_RANGEPROOF=1 -DENABLE_MODULE_SCHNORRSIG=1 -DENABLE_MODULE_SCHNORRSIG_HALFAGG=1 -DENABLE_MODULE_SURJECTIONPROOF=1 -DENABLE_MODULE_WHITELIST=1 -DENABLE_MODULE_RECOVERY=1"
D=/tmp/democopy.$$; mkdir -p $D; cp demo.c $D/demo.c
EXTRA="$(grep -o "gcc .*demo" NOTES.md | head -1 | grep -o "\-DVERIFY" | head -1) $EXTRA_DEFS"
if grep -q 'include "src/secp256k1.c"\|include "secp256k1.c"' demo.c; then SRCS="src/precomputed_ecmult.c src/precomputed_ecmult_gen.c"; else SRCS="src/secp256k1.c src/precomputed_ecmult.c src/precomputed_ecmult_gen.c"; fi
gcc -O1 -g -I$W -I$W/src -I$W/include $DEFS $EXTRA $D/demo.c $(for s in $SRCS; do echo $W/$s; done) -o $D/with 2>&1 | grep -i "error" | head -3
$D/with > $D/with.out 2>&1; echo "demo WITH change: exit=$? last: $(tail -1 $D/with.out)"
gcc -O1 -g -I/repo -I/repo/src -I/repo/include $DEFS $EXTRA $D/demo.c $(for s in $SRCS; do echo /repo/$s; done) -o $D/without 2>&1 | grep -i "error" | head -3
$D/without > $D/without.out 2>&1; echo "demo WITHOUT change (/repo tree): exit=$? last: $(tail -1 $D/without.out)"
rm -rf $D
