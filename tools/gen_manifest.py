#!/usr/bin/env python3
"""Regenerates MANIFEST.json from the table below (kept in one place so the file is always schema-valid)."""
import json, os, sys
V = os.path.dirname(os.path.dirname(os.path.abspath(__file__)))
sys.path.insert(0, V)
from tools.manifest_table import CHECKS, NOT_APPLICABLE

ALL = ["C%02d" % i for i in range(1, 21)]
def main():
    checks = []
    for pid in ALL:
        if pid not in CHECKS: continue
        c = CHECKS[pid]
        checks.append({
            "property_id": pid,
            "quick_cmd": "./check %s --tier quick" % pid,
            "thorough_cmd": "./check %s --tier thorough" % pid,
            "evidence_file": "/verif/evidence/%s.json" % pid,
            "replay_cmd_template": "./check %s --replay {path}" % pid,
            "engine": "vshim+ref",
            "level_claimed": {"category": "exploration", "text": c["text"], "design_ref": "DESIGN.md section 3, %s" % pid},
            "level_note": c["note"],
            "technique": c["technique"],
        })
    na = [{"property_id": k, "reason": v} for k, v in sorted(NOT_APPLICABLE.items()) if k not in CHECKS]
    for pid in ALL:
        if pid not in CHECKS and pid not in NOT_APPLICABLE:
            na.append({"property_id": pid, "reason": "check not built yet in this round (planned, see DESIGN.md section 8); nothing is claimed for it"})
    m = {
        "version": 1,
        "setup_cmd": "./setup.sh",
        "hooks": {
            "guard": "SECP256K1_ZKP_VERIF",
            "enable": "no source hooks are needed: every check compiles shim/vshim.c, which #includes /repo/src/secp256k1.c (as upstream tests.c does), straight from /repo's working tree with -DSECP256K1_ZKP_VERIF=1; the define is referenced by no repository source",
            "baseline_off_cmd": "cmake --build /repo/_build && ctest --test-dir /repo/_build -j8 --timeout 900",
            "source_commits": [],
            "add_only": True,
        },
        "engines": [
            {"name": "vshim+ref", "path": "/verif/check", "serves_properties": [c["property_id"] for c in checks],
             "kind_free_text": "runtime monitoring: the real library (built from the working tree under ASan+UBSan+VERIFY, TSan, valgrind or in its small-group configuration) is driven through a stateless command shim by generated hostile workloads; every recorded call is checked by an independent Python reference model and by object-state / callback / allocation monitors"},
        ],
        "checks": checks,
        "not_applicable": sorted(na, key=lambda x: x["property_id"]),
        "notes": "exit 0 = held on everything explored, 1 = VIOLATION line, 2 = harness failure or inconclusive. Known findings: /verif/known_findings.json. VERIF_SEED selects the PRNG stream.",
    }
    with open(os.path.join(V, "MANIFEST.json"), "w") as f:
        json.dump(m, f, indent=1)
    print("wrote MANIFEST.json with %d checks, %d not_applicable" % (len(checks), len(m["not_applicable"])))
if __name__ == "__main__":
    main()
