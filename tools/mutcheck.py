#!/usr/bin/env python3
"""Validation of the checks against known-bad trees (DESIGN section 6).
usage: tools/mutcheck.py [--tier quick] [--patch file.diff | name ...] [--all] [--jobs N]
Each mutant is applied to a scratch copy of /repo's src/include/contrib under /tmp, the named check is run with VERIF_REPO
pointing at the copy, and the copy is removed.  Nothing here is registered in MANIFEST.json."""
import sys, os, subprocess, tempfile, shutil, argparse, json, re
V = os.path.dirname(os.path.dirname(os.path.abspath(__file__)))
sys.path.insert(0, V)
from mutants.mutants import MUTANTS

def prepare(d, mut=None, patch=None):
    os.makedirs(os.path.join(d, "repo"))
    for t in ("src", "include", "contrib"):
        shutil.copytree(os.path.join("/repo", t), os.path.join(d, "repo", t))
    if patch:
        r = subprocess.run(["patch", "-p1", "-s", "-i", os.path.abspath(patch)], cwd=os.path.join(d, "repo"), capture_output=True, text=True)
        if r.returncode: raise SystemExit("patch failed: " + r.stdout + r.stderr)
    if mut:
        for f, old, new in mut["edits"]:
            path = os.path.join(d, "repo", f); s = open(path).read()
            if s.count(old) != 1: raise SystemExit("mutant %s: pattern occurs %d times in %s" % (mut["name"], s.count(old), f))
            open(path, "w").write(s.replace(old, new))

def run_one(name, check, tier, patch=None, keep=False):
    d = tempfile.mkdtemp(prefix="verif-mut-", dir="/tmp")
    try:
        prepare(d, MUTANTS.get(name), patch)
        env = dict(os.environ); env["VERIF_REPO"] = os.path.join(d, "repo"); env["VERIF_EVIDENCE_DIR"] = os.path.join(d, "evidence")
        env["VERIF_CACHE"] = os.path.join(d, "cache")
        r = subprocess.run([os.path.join(V, "check"), check, "--tier", tier], env=env, capture_output=True, text=True, cwd=V)
        keys = re.findall(r"^  key=(\S+)", r.stdout, re.M)
        return r.returncode, keys, r.stdout
    finally:
        shutil.rmtree(d, ignore_errors=True)

def main():
    ap = argparse.ArgumentParser()
    ap.add_argument("names", nargs="*"); ap.add_argument("--tier", default="quick"); ap.add_argument("--patch"); ap.add_argument("--check")
    ap.add_argument("--all", action="store_true"); ap.add_argument("-v", action="store_true")
    a = ap.parse_args()
    if a.patch:
        rc, keys, out = run_one(None, a.check, a.tier, patch=a.patch)
        print("patch=%s check=%s tier=%s rc=%d keys=%s" % (a.patch, a.check, a.tier, rc, keys[:6]))
        if a.v: print(out[-3000:])
        return
    names = list(MUTANTS) if a.all else a.names
    for nm in names:
        m = MUTANTS[nm]
        for chk in ([a.check] if a.check else m["checks"]):
            rc, keys, out = run_one(nm, chk, a.tier)
            print("%-38s %s %-8s rc=%d %s %s" % (nm, chk, a.tier, rc, "CAUGHT" if rc == 1 else ("MISSED" if rc == 0 else "INCONCLUSIVE"), keys[:3]), flush=True)
            if a.v: print(out[-3000:])
if __name__ == "__main__":
    main()
