/* ops over include/secp256k1.h, _recovery.h, _extrakeys.h, _schnorrsig.h */

#define PK 64   /* sizeof(secp256k1_pubkey) */
#define SIG 64
#define KP 96

/* ---- scripted nonce function: script = entries of 33 bytes [flag][nonce32]; flag 0: return 0 */
typedef struct { const unsigned char *script; size_t n; long calls; const unsigned char *expect_data; } nonce_script;
static int scripted_nonce(unsigned char *nonce32, const unsigned char *msg32, const unsigned char *key32, const unsigned char *algo16, void *data, unsigned int counter) {
    nonce_script *s = (nonce_script *)data; (void)msg32; (void)key32; (void)algo16;
    s->calls++;
    if (counter >= s->n) return 0;
    if (s->script[33 * counter] == 0) return 0;
    memcpy(nonce32, s->script + 33 * counter + 1, 32);
    return 1;
}

static void op_pubkey_parse(void) {
    size_t l; unsigned char *in = A_blob(0, &l); secp256k1_pubkey *pk = (secp256k1_pubkey *)O_buf(PK); int r;
    if (g_bad) return;
    CALL(r = secp256k1_ec_pubkey_parse(ctx, pk, in, l)); R_int(r); R_hex((unsigned char *)pk, PK);
}
/* pubkey_serialize pk buflen flags -> ret outlen out */
static void op_pubkey_serialize(void) {
    unsigned char *pk = A_fix(0, PK, 0); size_t bl = (size_t)A_u64(1), ol = bl; unsigned int fl = (unsigned int)A_u64(2);
    unsigned char *out = O_buf(bl); int r;
    if (g_bad) return;
    CALL(r = secp256k1_ec_pubkey_serialize(ctx, out, &ol, (secp256k1_pubkey *)pk, fl)); R_int(r); R_u64(ol); R_hex(out, bl);
}
static void op_pubkey_create(void) {
    unsigned char *sk = A_fix(0, 32, 0); unsigned char *pk = O_buf(PK); int r;
    if (g_bad) return;
    CALL(r = secp256k1_ec_pubkey_create(ctx, (secp256k1_pubkey *)pk, sk)); R_int(r); R_hex(pk, PK);
}
static void op_seckey_verify(void) { unsigned char *sk = A_fix(0, 32, 0); int r; if (g_bad) return; CALL(r = secp256k1_ec_seckey_verify(ctx, sk)); R_int(r); }
static void op_seckey_negate(void) { unsigned char *sk = A_fix(0, 32, 0); int r; if (g_bad) return; CALL(r = secp256k1_ec_seckey_negate(ctx, sk)); R_int(r); R_hex(sk, 32); }
static void op_seckey_tweak_add(void) { unsigned char *sk = A_fix(0, 32, 0), *t = A_fix(1, 32, 0); int r; if (g_bad) return; CALL(r = secp256k1_ec_seckey_tweak_add(ctx, sk, t)); R_int(r); R_hex(sk, 32); }
static void op_seckey_tweak_mul(void) { unsigned char *sk = A_fix(0, 32, 0), *t = A_fix(1, 32, 0); int r; if (g_bad) return; CALL(r = secp256k1_ec_seckey_tweak_mul(ctx, sk, t)); R_int(r); R_hex(sk, 32); }
static void op_pubkey_negate(void) { unsigned char *pk = A_fix(0, PK, 0); int r; if (g_bad) return; CALL(r = secp256k1_ec_pubkey_negate(ctx, (secp256k1_pubkey *)pk)); R_int(r); R_hex(pk, PK); }
static void op_pubkey_tweak_add(void) { unsigned char *pk = A_fix(0, PK, 0), *t = A_fix(1, 32, 0); int r; if (g_bad) return; CALL(r = secp256k1_ec_pubkey_tweak_add(ctx, (secp256k1_pubkey *)pk, t)); R_int(r); R_hex(pk, PK); }
static void op_pubkey_tweak_mul(void) { unsigned char *pk = A_fix(0, PK, 0), *t = A_fix(1, 32, 0); int r; if (g_bad) return; CALL(r = secp256k1_ec_pubkey_tweak_mul(ctx, (secp256k1_pubkey *)pk, t)); R_int(r); R_hex(pk, PK); }
static void op_pubkey_cmp(void) { unsigned char *a = A_fix(0, PK, 0), *b = A_fix(1, PK, 0); int r; if (g_bad) return; CALL(r = secp256k1_ec_pubkey_cmp(ctx, (secp256k1_pubkey *)a, (secp256k1_pubkey *)b)); R_int(r); }
/* pubkey_combine concat(pks) n */
static void op_pubkey_combine(void) {
    size_t l; unsigned char *a = A_blob(0, &l); size_t n = (size_t)A_u64(1); unsigned char *out = O_buf(PK); int r; void **pp;
    if (g_bad) return; if (l != n * PK) { bad("size", 0); return; }
    pp = ptr_array(a, n, PK);
    if (g_alias && n >= 1) out = (unsigned char *)pp[n - 1];      /* accumulate into one of the inputs */
    CALL(r = secp256k1_ec_pubkey_combine(ctx, (secp256k1_pubkey *)out, (const secp256k1_pubkey * const *)pp, n)); R_int(r); R_hex(out, PK);
}
/* pubkey_sort concat(pks) n -> ret, permutation (indices into the input) */
static void op_pubkey_sort(void) {
    size_t l, i; unsigned char *a = A_blob(0, &l); size_t n = (size_t)A_u64(1); int r; void **pp;
    if (g_bad) return; if (l != n * PK) { bad("size", 0); return; }
    pp = ptr_array(a, n, PK);
    CALL(r = secp256k1_ec_pubkey_sort(ctx, (const secp256k1_pubkey **)pp, n)); R_int(r);
    for (i = 0; i < n; i++) { size_t off = (size_t)((unsigned char *)pp[i] - a); R_int((off % PK == 0 && off / PK < n) ? (long long)(off / PK) : -1); }
}
static void op_tagged_sha256(void) {
    size_t tl, ml; unsigned char *t = A_blob(0, &tl), *m = A_blob(1, &ml), *out = O_buf(32); int r;
    if (g_bad) return;
    if (g_alias && ml >= 32) out = m;        /* hash32 overwrites the start of the message buffer */
    CALL(r = secp256k1_tagged_sha256(ctx, out, t, tl, m, ml)); R_int(r); R_hex(out, 32);
}

/* ---- ECDSA */
static void op_sig_parse_compact(void) { unsigned char *in = A_fix(0, 64, 0), *s = O_buf(SIG); int r; if (g_bad) return; CALL(r = secp256k1_ecdsa_signature_parse_compact(ctx, (secp256k1_ecdsa_signature *)s, in)); R_int(r); R_hex(s, SIG); }
/* sig_parse_compact_over prefilled_sig in64: parse over an existing object (failed parse must not leave a verifying object) */
static void op_sig_parse_compact_over(void) { unsigned char *s = A_fix(0, SIG, 0), *in = A_fix(1, 64, 0); int r; if (g_bad) return; CALL(r = secp256k1_ecdsa_signature_parse_compact(ctx, (secp256k1_ecdsa_signature *)s, in)); R_int(r); R_hex(s, SIG); }
static void op_sig_parse_der(void) { size_t l; unsigned char *in = A_blob(0, &l), *s = O_buf(SIG); int r; if (g_bad) return; CALL(r = secp256k1_ecdsa_signature_parse_der(ctx, (secp256k1_ecdsa_signature *)s, in, l)); R_int(r); R_hex(s, SIG); }
static void op_sig_parse_der_over(void) { size_t l; unsigned char *s = A_fix(0, SIG, 0), *in = A_blob(1, &l); int r; if (g_bad) return; CALL(r = secp256k1_ecdsa_signature_parse_der(ctx, (secp256k1_ecdsa_signature *)s, in, l)); R_int(r); R_hex(s, SIG); }
static void op_sig_parse_der_lax(void) { size_t l; unsigned char *in = A_blob(0, &l), *s = O_buf(SIG); int r; if (g_bad) return; CALL(r = ecdsa_signature_parse_der_lax(ctx, (secp256k1_ecdsa_signature *)s, in, l)); R_int(r); R_hex(s, SIG); }
static void op_sig_serialize_compact(void) { unsigned char *s = A_fix(0, SIG, 0), *out = O_buf(64); int r; if (g_bad) return; CALL(r = secp256k1_ecdsa_signature_serialize_compact(ctx, out, (secp256k1_ecdsa_signature *)s)); R_int(r); R_hex(out, 64); }
/* sig_serialize_der sig buflen -> ret outlen out */
static void op_sig_serialize_der(void) {
    unsigned char *s = A_fix(0, SIG, 0); size_t bl = (size_t)A_u64(1), ol = bl; unsigned char *out = O_buf(bl); int r;
    if (g_bad) return; CALL(r = secp256k1_ecdsa_signature_serialize_der(ctx, out, &ol, (secp256k1_ecdsa_signature *)s)); R_int(r); R_u64(ol); R_hex(out, bl);
}
/* sig_normalize sig want_out -> ret out */
static void op_sig_normalize(void) {
    unsigned char *s = A_fix(0, SIG, 0); long want = A_int(1); unsigned char *out = want ? O_buf(SIG) : NULL; int r;
    if (g_bad) return;
    if (g_alias && want) out = s;            /* "sigout ... can be identical to sigin" */
    CALL(r = secp256k1_ecdsa_signature_normalize(ctx, (secp256k1_ecdsa_signature *)out, (secp256k1_ecdsa_signature *)s)); R_int(r); R_hex(out, SIG);
}
static void op_ecdsa_verify(void) { unsigned char *s = A_fix(0, SIG, 0), *m = A_fix(1, 32, 0), *pk = A_fix(2, PK, 0); int r; if (g_bad) return; CALL(r = secp256k1_ecdsa_verify(ctx, (secp256k1_ecdsa_signature *)s, m, (secp256k1_pubkey *)pk)); R_int(r); }
/* ecdsa_sign msg sk mode ndata|script -> ret sig calls ; mode 0: noncefp NULL, 1: rfc6979 explicit, 2: scripted, 3: nonce_function_default */
static void op_ecdsa_sign(void) {
    unsigned char *m = A_fix(0, 32, 0), *sk = A_fix(1, 32, 0); long mode = A_int(2); size_t dl; unsigned char *d = A_blob(3, &dl);
    unsigned char *sig = O_buf(SIG); int r; nonce_script ns; secp256k1_nonce_function fp = NULL; const void *nd = d;
    if (g_bad) return;
    ns.calls = 0;
    if (mode == 1) fp = secp256k1_nonce_function_rfc6979; else if (mode == 3) fp = secp256k1_nonce_function_default;
    else if (mode == 2) { ns.script = d; ns.n = dl / 33; fp = scripted_nonce; nd = &ns; }
    if (mode != 2 && d && dl != 32) { bad("ndata must be 32 bytes", 3); return; }
    CALL(r = secp256k1_ecdsa_sign(ctx, (secp256k1_ecdsa_signature *)sig, m, sk, fp, nd)); R_int(r); R_hex(sig, SIG); R_int(ns.calls);
}
/* nonce_rfc6979 msg key algo16|- data32|- counter -> ret nonce */
static void op_nonce_rfc6979(void) {
    unsigned char *m = A_fix(0, 32, 0), *k = A_fix(1, 32, 0), *algo = A_fix(2, 16, 1), *d = A_fix(3, 32, 1); unsigned int c = (unsigned int)A_u64(4);
    unsigned char *out = O_buf(32); int r; if (g_bad) return;
    CALL(r = secp256k1_nonce_function_rfc6979(out, m, k, algo, d, c)); R_int(r); R_hex(out, 32);
}

/* ---- recovery */
#define RSIG 65
static void op_rsig_parse_compact(void) { unsigned char *in = A_fix(0, 64, 0); int recid = (int)A_int(1); unsigned char *s = O_buf(RSIG); int r; if (g_bad) return; CALL(r = secp256k1_ecdsa_recoverable_signature_parse_compact(ctx, (secp256k1_ecdsa_recoverable_signature *)s, in, recid)); R_int(r); R_hex(s, RSIG); }
static void op_rsig_serialize_compact(void) { unsigned char *s = A_fix(0, RSIG, 0), *out = O_buf(64); int recid = -77, r; if (g_bad) return; CALL(r = secp256k1_ecdsa_recoverable_signature_serialize_compact(ctx, out, &recid, (secp256k1_ecdsa_recoverable_signature *)s)); R_int(r); R_hex(out, 64); R_int(recid); }
static void op_rsig_convert(void) { unsigned char *s = A_fix(0, RSIG, 0), *out = O_buf(SIG); int r; if (g_bad) return; CALL(r = secp256k1_ecdsa_recoverable_signature_convert(ctx, (secp256k1_ecdsa_signature *)out, (secp256k1_ecdsa_recoverable_signature *)s)); R_int(r); R_hex(out, SIG); }
static void op_ecdsa_sign_recoverable(void) {
    unsigned char *m = A_fix(0, 32, 0), *sk = A_fix(1, 32, 0); long mode = A_int(2); size_t dl; unsigned char *d = A_blob(3, &dl);
    unsigned char *sig = O_buf(RSIG); int r; nonce_script ns; secp256k1_nonce_function fp = NULL; const void *nd = d;
    if (g_bad) return;
    ns.calls = 0;
    if (mode == 1) fp = secp256k1_nonce_function_rfc6979;
    else if (mode == 2) { ns.script = d; ns.n = dl / 33; fp = scripted_nonce; nd = &ns; }
    if (mode != 2 && d && dl != 32) { bad("ndata must be 32 bytes", 3); return; }
    CALL(r = secp256k1_ecdsa_sign_recoverable(ctx, (secp256k1_ecdsa_recoverable_signature *)sig, m, sk, fp, nd)); R_int(r); R_hex(sig, RSIG); R_int(ns.calls);
}
static void op_ecdsa_recover(void) { unsigned char *s = A_fix(0, RSIG, 0), *m = A_fix(1, 32, 0), *pk = O_buf(PK); int r; if (g_bad) return; CALL(r = secp256k1_ecdsa_recover(ctx, (secp256k1_pubkey *)pk, (secp256k1_ecdsa_recoverable_signature *)s, m)); R_int(r); R_hex(pk, PK); }

/* ---- extrakeys */
static void op_xonly_parse(void) { unsigned char *in = A_fix(0, 32, 0), *pk = O_buf(PK); int r; if (g_bad) return; CALL(r = secp256k1_xonly_pubkey_parse(ctx, (secp256k1_xonly_pubkey *)pk, in)); R_int(r); R_hex(pk, PK); }
static void op_xonly_serialize(void) { unsigned char *pk = A_fix(0, PK, 0), *out = O_buf(32); int r; if (g_bad) return; CALL(r = secp256k1_xonly_pubkey_serialize(ctx, out, (secp256k1_xonly_pubkey *)pk)); R_int(r); R_hex(out, 32); }
static void op_xonly_cmp(void) { unsigned char *a = A_fix(0, PK, 0), *b = A_fix(1, PK, 0); int r; if (g_bad) return; CALL(r = secp256k1_xonly_pubkey_cmp(ctx, (secp256k1_xonly_pubkey *)a, (secp256k1_xonly_pubkey *)b)); R_int(r); }
/* xonly_from_pubkey pk want_parity -> ret xonly parity */
static void op_xonly_from_pubkey(void) { unsigned char *pk = A_fix(0, PK, 0); long wp = A_int(1); unsigned char *x = O_buf(PK); int par = -77, r; if (g_bad) return; CALL(r = secp256k1_xonly_pubkey_from_pubkey(ctx, (secp256k1_xonly_pubkey *)x, wp ? &par : NULL, (secp256k1_pubkey *)pk)); R_int(r); R_hex(x, PK); R_int(par); }
static void op_xonly_tweak_add(void) { unsigned char *x = A_fix(0, PK, 0), *t = A_fix(1, 32, 0), *out = O_buf(PK); int r; if (g_bad) return; CALL(r = secp256k1_xonly_pubkey_tweak_add(ctx, (secp256k1_pubkey *)out, (secp256k1_xonly_pubkey *)x, t)); R_int(r); R_hex(out, PK); }
/* xonly_tweak_add_check tweaked32 parity internal_xonly tweak32 */
static void op_xonly_tweak_add_check(void) { unsigned char *tw = A_fix(0, 32, 0); int par = (int)A_int(1); unsigned char *x = A_fix(2, PK, 0), *t = A_fix(3, 32, 0); int r; if (g_bad) return; CALL(r = secp256k1_xonly_pubkey_tweak_add_check(ctx, tw, par, (secp256k1_xonly_pubkey *)x, t)); R_int(r); }
static void op_keypair_create(void) { unsigned char *sk = A_fix(0, 32, 0), *kp = O_buf(KP); int r; if (g_bad) return; CALL(r = secp256k1_keypair_create(ctx, (secp256k1_keypair *)kp, sk)); R_int(r); R_hex(kp, KP); }
static void op_keypair_sec(void) { unsigned char *kp = A_fix(0, KP, 0), *out = O_buf(32); int r; if (g_bad) return; CALL(r = secp256k1_keypair_sec(ctx, out, (secp256k1_keypair *)kp)); R_int(r); R_hex(out, 32); }
static void op_keypair_pub(void) { unsigned char *kp = A_fix(0, KP, 0), *out = O_buf(PK); int r; if (g_bad) return; CALL(r = secp256k1_keypair_pub(ctx, (secp256k1_pubkey *)out, (secp256k1_keypair *)kp)); R_int(r); R_hex(out, PK); }
static void op_keypair_xonly_pub(void) { unsigned char *kp = A_fix(0, KP, 0), *out = O_buf(PK); int par = -77, r; if (g_bad) return; CALL(r = secp256k1_keypair_xonly_pub(ctx, (secp256k1_xonly_pubkey *)out, &par, (secp256k1_keypair *)kp)); R_int(r); R_hex(out, PK); R_int(par); }
static void op_keypair_xonly_tweak_add(void) { unsigned char *kp = A_fix(0, KP, 0), *t = A_fix(1, 32, 0); int r; if (g_bad) return; CALL(r = secp256k1_keypair_xonly_tweak_add(ctx, (secp256k1_keypair *)kp, t)); R_int(r); R_hex(kp, KP); }

/* ---- schnorrsig */
static int snonce_fail(unsigned char *n, const unsigned char *m, size_t ml, const unsigned char *k, const unsigned char *x, const unsigned char *a, size_t al, void *d) { (void)n; (void)m; (void)ml; (void)k; (void)x; (void)a; (void)al; (void)d; return 0; }
static int snonce_zero(unsigned char *n, const unsigned char *m, size_t ml, const unsigned char *k, const unsigned char *x, const unsigned char *a, size_t al, void *d) { (void)m; (void)ml; (void)k; (void)x; (void)a; (void)al; (void)d; memset(n, 0, 32); return 1; }
static int snonce_fixed(unsigned char *n, const unsigned char *m, size_t ml, const unsigned char *k, const unsigned char *x, const unsigned char *a, size_t al, void *d) { (void)m; (void)ml; (void)k; (void)x; (void)a; (void)al; memcpy(n, d, 32); return 1; }
/* schnorr_sign32 msg32 keypair aux|- */
static void op_schnorr_sign32(void) { unsigned char *m = A_fix(0, 32, 0), *kp = A_fix(1, KP, 0), *aux = A_fix(2, 32, 1), *sig = O_buf(64); int r; if (g_bad) return; CALL(r = secp256k1_schnorrsig_sign32(ctx, sig, m, (secp256k1_keypair *)kp, aux)); R_int(r); R_hex(sig, 64); }
static void op_schnorr_sign_old(void) { unsigned char *m = A_fix(0, 32, 0), *kp = A_fix(1, KP, 0), *aux = A_fix(2, 32, 1), *sig = O_buf(64); int r; if (g_bad) return; CALL(r = secp256k1_schnorrsig_sign(ctx, sig, m, (secp256k1_keypair *)kp, aux)); R_int(r); R_hex(sig, 64); }
/* schnorr_sign_custom msg keypair mode ndata|- ; mode 0: extraparams NULL; 1: params{noncefp NULL, ndata}; 2: params{bip340 explicit, ndata};
 * 3: noncefp returning 0; 4: noncefp returning the all-zero nonce; 5: noncefp returning ndata as the nonce; 6: params with a wrong magic */
static void op_schnorr_sign_custom(void) {
    size_t ml; unsigned char *m = A_blob(0, &ml), *kp = A_fix(1, KP, 0); long mode = A_int(2); unsigned char *nd = A_fix(3, 32, 1), *sig = O_buf(64); int r;
    secp256k1_schnorrsig_extraparams ep = SECP256K1_SCHNORRSIG_EXTRAPARAMS_INIT;
    if (g_bad) return;
    ep.ndata = nd;
    if (mode == 2) ep.noncefp = secp256k1_nonce_function_bip340; else if (mode == 3) ep.noncefp = snonce_fail; else if (mode == 4) ep.noncefp = snonce_zero; else if (mode == 5) ep.noncefp = snonce_fixed;
    if (mode == 6) ep.magic[0] ^= 1;
    CALL(r = secp256k1_schnorrsig_sign_custom(ctx, sig, m, ml, (secp256k1_keypair *)kp, mode == 0 ? NULL : &ep)); R_int(r); R_hex(sig, 64);
}
static void op_schnorr_verify(void) { size_t ml; unsigned char *sig = A_fix(0, 64, 0), *m = A_blob(1, &ml), *pk = A_fix(2, PK, 0); int r; if (g_bad) return; CALL(r = secp256k1_schnorrsig_verify(ctx, sig, m, ml, (secp256k1_xonly_pubkey *)pk)); R_int(r); }
/* nonce_bip340 msg key32 xonly32 algo|- data|- */
static void op_nonce_bip340(void) { size_t ml, al; unsigned char *m = A_blob(0, &ml), *k = A_fix(1, 32, 0), *x = A_fix(2, 32, 0), *algo = A_blob(3, &al), *d = A_fix(4, 32, 1), *out = O_buf(32); int r; if (g_bad) return; CALL(r = secp256k1_nonce_function_bip340(out, m, ml, k, x, algo, al, d)); R_int(r); R_hex(out, 32); }

#define OPS_CORE \
    { "pubkey_parse", op_pubkey_parse }, { "pubkey_serialize", op_pubkey_serialize }, { "pubkey_create", op_pubkey_create }, \
    { "seckey_verify", op_seckey_verify }, { "seckey_negate", op_seckey_negate }, { "seckey_tweak_add", op_seckey_tweak_add }, \
    { "seckey_tweak_mul", op_seckey_tweak_mul }, { "pubkey_negate", op_pubkey_negate }, { "pubkey_tweak_add", op_pubkey_tweak_add }, \
    { "pubkey_tweak_mul", op_pubkey_tweak_mul }, { "pubkey_cmp", op_pubkey_cmp }, { "pubkey_combine", op_pubkey_combine }, \
    { "pubkey_sort", op_pubkey_sort }, { "tagged_sha256", op_tagged_sha256 }, \
    { "sig_parse_compact", op_sig_parse_compact }, { "sig_parse_compact_over", op_sig_parse_compact_over }, \
    { "sig_parse_der", op_sig_parse_der }, { "sig_parse_der_over", op_sig_parse_der_over }, { "sig_parse_der_lax", op_sig_parse_der_lax }, \
    { "sig_serialize_compact", op_sig_serialize_compact }, { "sig_serialize_der", op_sig_serialize_der }, { "sig_normalize", op_sig_normalize }, \
    { "ecdsa_verify", op_ecdsa_verify }, { "ecdsa_sign", op_ecdsa_sign }, { "nonce_rfc6979", op_nonce_rfc6979 }, \
    { "rsig_parse_compact", op_rsig_parse_compact }, { "rsig_serialize_compact", op_rsig_serialize_compact }, { "rsig_convert", op_rsig_convert }, \
    { "ecdsa_sign_recoverable", op_ecdsa_sign_recoverable }, { "ecdsa_recover", op_ecdsa_recover }, \
    { "xonly_parse", op_xonly_parse }, { "xonly_serialize", op_xonly_serialize }, { "xonly_cmp", op_xonly_cmp }, \
    { "xonly_from_pubkey", op_xonly_from_pubkey }, { "xonly_tweak_add", op_xonly_tweak_add }, { "xonly_tweak_add_check", op_xonly_tweak_add_check }, \
    { "keypair_create", op_keypair_create }, { "keypair_sec", op_keypair_sec }, { "keypair_pub", op_keypair_pub }, \
    { "keypair_xonly_pub", op_keypair_xonly_pub }, { "keypair_xonly_tweak_add", op_keypair_xonly_tweak_add }, \
    { "schnorr_sign32", op_schnorr_sign32 }, { "schnorr_sign_old", op_schnorr_sign_old }, { "schnorr_sign_custom", op_schnorr_sign_custom }, \
    { "schnorr_verify", op_schnorr_verify }, { "nonce_bip340", op_nonce_bip340 },
