/* M-CT: constant-time monitor.  Public-API-only driver linked against the library compiled as its own translation unit with the
 * shipped flags and -DVALGRIND (so secp256k1_declassify is live).  Run under `valgrind --tool=memcheck`: secret arguments are
 * marked undefined before each call, outputs and return values are made defined afterwards (as src/ctime_tests.c does), and
 * the memcheck error counter is sampled around every call, so that a branch or address depending on secret bytes is
 * attributed to the API call that executed it.
 *   output:  CANARY errors=<n>          (must be > 0: proves the monitor is live)
 *            CT op=<name> variant=<k> ctx=<mode> errors=<n> tainted=<bytes>
 *            CTDONE ops=<n> errors=<n>  */
#include <stdio.h>
#include <stdlib.h>
#include <string.h>
#include <valgrind/memcheck.h>
#include "secp256k1.h"
#include "secp256k1_recovery.h"
#include "secp256k1_ecdh.h"
#include "secp256k1_extrakeys.h"
#include "secp256k1_schnorrsig.h"
#include "secp256k1_musig.h"
#include "secp256k1_ellswift.h"
#include "secp256k1_ecdsa_s2c.h"
#include "secp256k1_ecdsa_adaptor.h"

#define SECRET(p, n) do { VALGRIND_MAKE_MEM_UNDEFINED((p), (n)); tainted += (long)(n); } while (0)
#define PUBLIC(p, n) VALGRIND_MAKE_MEM_DEFINED((p), (n))
static long tainted, total_ops, total_errors; static int ctxmode;
static long err_before;
static const char *want_op = NULL;
#define BEGIN(name) do { tainted = 0; err_before = (long)VALGRIND_COUNT_ERRORS; } while (0)
#define END(name, variant) do { long e = (long)VALGRIND_COUNT_ERRORS - err_before; total_ops++; total_errors += e; printf("CT op=%s variant=%d ctx=%d errors=%ld tainted=%ld\n", name, variant, ctxmode, e, tainted); } while (0)
#define REQUIRE(c) do { int rq_ = (c); VALGRIND_MAKE_MEM_DEFINED(&rq_, sizeof rq_); if (!rq_) { printf("CTFAIL %s line %d\n", #c, __LINE__); fflush(stdout); exit(3); } } while (0)

static void fill(unsigned char *p, size_t n, unsigned seed) { size_t i; unsigned x = seed * 2654435761u + 12345u; for (i = 0; i < n; i++) { x = x * 1103515245u + 12345u; p[i] = (unsigned char)(x >> 16); } }
static void mkkey(unsigned char *k, unsigned seed) { fill(k, 32, seed); k[0] &= 0x7f; k[31] |= 1; }

/* nonce functions whose first answer(s) are rejected for a PUBLIC reason (all-zero / the group order), so that the signer's retry path runs
 * with a secret nonce from the second attempt on */
static int retry_nonce_ecdsa(unsigned char *n32, const unsigned char *m, const unsigned char *k, const unsigned char *algo, void *d, unsigned int attempt) {
    static const unsigned char order[32] = {0xFF,0xFF,0xFF,0xFF,0xFF,0xFF,0xFF,0xFF,0xFF,0xFF,0xFF,0xFF,0xFF,0xFF,0xFF,0xFE,0xBA,0xAE,0xDC,0xE6,0xAF,0x48,0xA0,0x3B,0xBF,0xD2,0x5E,0x8C,0xD0,0x36,0x41,0x41};
    if (attempt == 0) { memset(n32, 0, 32); return 1; }
    if (attempt == 1 && d != NULL) { memcpy(n32, order, 32); return 1; }
    return secp256k1_nonce_function_rfc6979(n32, m, k, algo, NULL, attempt);
}
static int ecdh_hash_xy(unsigned char *o, const unsigned char *x, const unsigned char *y, void *d) { (void)d; memcpy(o, x, 32); memcpy(o + 32, y, 32); return 1; }

static void run_all(secp256k1_context *ctx, int nvariants) {
    int v;
    for (v = 0; v < nvariants; v++) {
        unsigned char key[32], key2[32], msg[32], tweak[32], aux[32], out[64], sig64[64], ell[64], ell2[64]; int ret;
        secp256k1_pubkey pk, pk2; secp256k1_ecdsa_signature sig; secp256k1_ecdsa_recoverable_signature rsig; secp256k1_keypair kp;
        mkkey(key, 100 + v); mkkey(key2, 200 + v); fill(msg, 32, 300 + v); mkkey(tweak, 400 + v); fill(aux, 32, 500 + v);
        REQUIRE(secp256k1_ec_pubkey_create(ctx, &pk2, key2)); PUBLIC(&pk2, sizeof pk2);

        BEGIN(); SECRET(key, 32); ret = secp256k1_ec_pubkey_create(ctx, &pk, key); PUBLIC(&pk, sizeof pk); PUBLIC(&ret, sizeof ret); PUBLIC(key, 32); END("ec_pubkey_create", v); REQUIRE(ret);
        BEGIN(); SECRET(key, 32); ret = secp256k1_ecdsa_sign(ctx, &sig, msg, key, NULL, NULL); PUBLIC(&sig, sizeof sig); PUBLIC(&ret, sizeof ret); PUBLIC(key, 32); END("ecdsa_sign", v); REQUIRE(ret);
        BEGIN(); SECRET(key, 32); SECRET(aux, 32); ret = secp256k1_ecdsa_sign(ctx, &sig, msg, key, secp256k1_nonce_function_rfc6979, aux); PUBLIC(&sig, sizeof sig); PUBLIC(&ret, sizeof ret); PUBLIC(key, 32); PUBLIC(aux, 32); END("ecdsa_sign_extra_entropy", v); REQUIRE(ret);
        BEGIN(); SECRET(key, 32); ret = secp256k1_ecdsa_sign(ctx, &sig, msg, key, retry_nonce_ecdsa, (v & 1) ? (void *)msg : NULL); PUBLIC(&sig, sizeof sig); PUBLIC(&ret, sizeof ret); PUBLIC(key, 32); END("ecdsa_sign_nonce_retry", v); REQUIRE(ret);
        BEGIN(); SECRET(key, 32); ret = secp256k1_ecdsa_sign_recoverable(ctx, &rsig, msg, key, retry_nonce_ecdsa, NULL); PUBLIC(&rsig, sizeof rsig); PUBLIC(&ret, sizeof ret); PUBLIC(key, 32); END("ecdsa_sign_recoverable_nonce_retry", v); REQUIRE(ret);
        BEGIN(); SECRET(key, 32); ret = secp256k1_ecdsa_sign_recoverable(ctx, &rsig, msg, key, NULL, NULL); PUBLIC(&rsig, sizeof rsig); PUBLIC(&ret, sizeof ret); PUBLIC(key, 32); END("ecdsa_sign_recoverable", v); REQUIRE(ret);
        BEGIN(); SECRET(key, 32); ret = secp256k1_ecdh(ctx, out, &pk2, key, NULL, NULL); PUBLIC(out, 32); PUBLIC(&ret, sizeof ret); PUBLIC(key, 32); END("ecdh", v); REQUIRE(ret);
        BEGIN(); SECRET(key, 32); ret = secp256k1_ecdh(ctx, out, &pk2, key, ecdh_hash_xy, NULL); PUBLIC(out, 64); PUBLIC(&ret, sizeof ret); PUBLIC(key, 32); END("ecdh_custom_hash", v); REQUIRE(ret);
        BEGIN(); SECRET(key, 32); ret = secp256k1_ec_seckey_verify(ctx, key); PUBLIC(&ret, sizeof ret); PUBLIC(key, 32); END("ec_seckey_verify", v); REQUIRE(ret);
        { unsigned char k[32]; memcpy(k, key, 32); BEGIN(); SECRET(k, 32); ret = secp256k1_ec_seckey_negate(ctx, k); PUBLIC(&ret, sizeof ret); PUBLIC(k, 32); END("ec_seckey_negate", v); REQUIRE(ret); }
        { unsigned char k[32], t[32]; memcpy(k, key, 32); memcpy(t, tweak, 32); BEGIN(); SECRET(k, 32); SECRET(t, 32); ret = secp256k1_ec_seckey_tweak_add(ctx, k, t); PUBLIC(&ret, sizeof ret); PUBLIC(k, 32); END("ec_seckey_tweak_add", v); REQUIRE(ret); }
        { unsigned char k[32], t[32]; memcpy(k, key, 32); memcpy(t, tweak, 32); BEGIN(); SECRET(k, 32); SECRET(t, 32); ret = secp256k1_ec_seckey_tweak_mul(ctx, k, t); PUBLIC(&ret, sizeof ret); PUBLIC(k, 32); END("ec_seckey_tweak_mul", v); REQUIRE(ret); }
        BEGIN(); SECRET(key, 32); ret = secp256k1_keypair_create(ctx, &kp, key); PUBLIC(&ret, sizeof ret); PUBLIC(key, 32); END("keypair_create", v); REQUIRE(ret);
        { secp256k1_keypair k2 = kp; BEGIN(); ret = secp256k1_keypair_xonly_tweak_add(ctx, &k2, msg); PUBLIC(&ret, sizeof ret); PUBLIC(&k2, sizeof k2); END("keypair_xonly_tweak_add", v); REQUIRE(ret); }
        /* public tweaks with special values (0, 1): shortcuts taken for them must not branch on the secret half either */
        { secp256k1_keypair k2 = kp; unsigned char zt[32]; memset(zt, 0, 32); BEGIN(); ret = secp256k1_keypair_xonly_tweak_add(ctx, &k2, zt); PUBLIC(&ret, sizeof ret); PUBLIC(&k2, sizeof k2); END("keypair_xonly_tweak_add_zero_tweak", v); REQUIRE(ret); }
        { secp256k1_keypair k2 = kp; unsigned char zt[32]; memset(zt, 0, 32); zt[31] = 1; BEGIN(); ret = secp256k1_keypair_xonly_tweak_add(ctx, &k2, zt); PUBLIC(&ret, sizeof ret); PUBLIC(&k2, sizeof k2); END("keypair_xonly_tweak_add_tweak_one", v); REQUIRE(ret); }
        { unsigned char k[32], zt[32]; memcpy(k, key, 32); memset(zt, 0, 32); BEGIN(); SECRET(k, 32); ret = secp256k1_ec_seckey_tweak_add(ctx, k, zt); PUBLIC(&ret, sizeof ret); PUBLIC(k, 32); END("ec_seckey_tweak_add_zero_tweak", v); REQUIRE(ret); }
        { unsigned char k[32], zt[32]; memcpy(k, key, 32); memset(zt, 0, 32); zt[31] = 1; BEGIN(); SECRET(k, 32); ret = secp256k1_ec_seckey_tweak_mul(ctx, k, zt); PUBLIC(&ret, sizeof ret); PUBLIC(k, 32); END("ec_seckey_tweak_mul_tweak_one", v); REQUIRE(ret); }
        { unsigned char k[32]; secp256k1_keypair k2 = kp; BEGIN(); SECRET(&k2, sizeof k2); ret = secp256k1_keypair_sec(ctx, k, &k2); PUBLIC(&ret, sizeof ret); PUBLIC(k, 32); END("keypair_sec", v); REQUIRE(ret); }
        BEGIN(); ret = secp256k1_schnorrsig_sign32(ctx, sig64, msg, &kp, NULL); PUBLIC(&ret, sizeof ret); PUBLIC(sig64, 64); END("schnorrsig_sign32", v); REQUIRE(ret);
        BEGIN(); SECRET(aux, 32); ret = secp256k1_schnorrsig_sign32(ctx, sig64, msg, &kp, aux); PUBLIC(&ret, sizeof ret); PUBLIC(sig64, 64); PUBLIC(aux, 32); END("schnorrsig_sign32_aux", v); REQUIRE(ret);
        { unsigned char lm[100]; secp256k1_schnorrsig_extraparams ep = SECP256K1_SCHNORRSIG_EXTRAPARAMS_INIT; fill(lm, sizeof lm, 77 + v); BEGIN(); ret = secp256k1_schnorrsig_sign_custom(ctx, sig64, lm, (size_t)(v * 31 % 100), &kp, v & 1 ? &ep : NULL); PUBLIC(&ret, sizeof ret); PUBLIC(sig64, 64); END("schnorrsig_sign_custom", v); REQUIRE(ret); }
        PUBLIC(&kp, sizeof kp);
        /* ElligatorSwift */
        BEGIN(); SECRET(key, 32); ret = secp256k1_ellswift_create(ctx, ell, key, NULL); PUBLIC(&ret, sizeof ret); PUBLIC(ell, 64); PUBLIC(key, 32); END("ellswift_create", v); REQUIRE(ret);
        /* auxrnd32 is extra entropy, not a secret: the library declassifies its hash state before absorbing it (ctime_tests.c passes a public buffer) */
        BEGIN(); SECRET(key, 32); ret = secp256k1_ellswift_create(ctx, ell2, key, aux); PUBLIC(&ret, sizeof ret); PUBLIC(ell2, 64); PUBLIC(key, 32); END("ellswift_create_aux", v); REQUIRE(ret);
        { int party; static const unsigned char prefix[64] = { 't', 'e', 's', 't' }; REQUIRE(secp256k1_ellswift_create(ctx, ell2, key2, NULL)); PUBLIC(ell2, 64);
          for (party = 0; party < 2; party++) {
            BEGIN(); SECRET(key, 32); ret = secp256k1_ellswift_xdh(ctx, out, ell, ell2, key, party, secp256k1_ellswift_xdh_hash_function_bip324, NULL); PUBLIC(&ret, sizeof ret); PUBLIC(out, 32); PUBLIC(key, 32); END(party ? "ellswift_xdh_bip324_b" : "ellswift_xdh_bip324_a", v); REQUIRE(ret);
            BEGIN(); SECRET(key, 32); ret = secp256k1_ellswift_xdh(ctx, out, ell, ell2, key, party, secp256k1_ellswift_xdh_hash_function_prefix, (void *)prefix); PUBLIC(&ret, sizeof ret); PUBLIC(out, 32); PUBLIC(key, 32); END(party ? "ellswift_xdh_prefix_b" : "ellswift_xdh_prefix_a", v); REQUIRE(ret);
          } }
        /* sign-to-contract / anti-exfil */
        { unsigned char data[32], comm[32]; secp256k1_ecdsa_s2c_opening op; fill(data, 32, 600 + v);
          BEGIN(); SECRET(key, 32); SECRET(data, 32); ret = secp256k1_ecdsa_s2c_sign(ctx, &sig, &op, msg, key, data); PUBLIC(&ret, sizeof ret); PUBLIC(&sig, sizeof sig); PUBLIC(&op, sizeof op); PUBLIC(key, 32); PUBLIC(data, 32); END("ecdsa_s2c_sign", v); REQUIRE(ret);
          BEGIN(); SECRET(data, 32); ret = secp256k1_ecdsa_anti_exfil_host_commit(ctx, comm, data); PUBLIC(&ret, sizeof ret); PUBLIC(comm, 32); PUBLIC(data, 32); END("anti_exfil_host_commit", v); REQUIRE(ret);
          BEGIN(); SECRET(key, 32); SECRET(comm, 32); ret = secp256k1_ecdsa_anti_exfil_signer_commit(ctx, &op, msg, key, comm); PUBLIC(&ret, sizeof ret); PUBLIC(&op, sizeof op); PUBLIC(key, 32); PUBLIC(comm, 32); END("anti_exfil_signer_commit", v); REQUIRE(ret);
          BEGIN(); SECRET(key, 32); SECRET(data, 32); ret = secp256k1_anti_exfil_sign(ctx, &sig, msg, key, data); PUBLIC(&ret, sizeof ret); PUBLIC(&sig, sizeof sig); PUBLIC(key, 32); PUBLIC(data, 32); END("anti_exfil_sign", v); REQUIRE(ret); }
        /* ECDSA adaptor */
        { unsigned char asig[162], dk[32], edk[32]; secp256k1_pubkey ek; mkkey(dk, 700 + v); REQUIRE(secp256k1_ec_pubkey_create(ctx, &ek, dk)); PUBLIC(&ek, sizeof ek);
          BEGIN(); SECRET(key, 32); ret = secp256k1_ecdsa_adaptor_encrypt(ctx, asig, key, &ek, msg, NULL, NULL); PUBLIC(asig, 162); PUBLIC(&ret, sizeof ret); PUBLIC(key, 32); END("ecdsa_adaptor_encrypt", v); REQUIRE(ret);
          BEGIN(); SECRET(key, 32); SECRET(aux, 32); ret = secp256k1_ecdsa_adaptor_encrypt(ctx, asig, key, &ek, msg, secp256k1_nonce_function_ecdsa_adaptor, aux); PUBLIC(asig, 162); PUBLIC(&ret, sizeof ret); PUBLIC(key, 32); PUBLIC(aux, 32); END("ecdsa_adaptor_encrypt_aux", v); REQUIRE(ret);
          BEGIN(); SECRET(dk, 32); ret = secp256k1_ecdsa_adaptor_decrypt(ctx, &sig, dk, asig); PUBLIC(&ret, sizeof ret); PUBLIC(dk, 32); END("ecdsa_adaptor_decrypt", v); REQUIRE(ret);
          BEGIN(); SECRET(&sig, 32); ret = secp256k1_ecdsa_adaptor_recover(ctx, edk, &sig, asig, &ek); PUBLIC(edk, 32); PUBLIC(&ret, sizeof ret); PUBLIC(&sig, sizeof sig); END("ecdsa_adaptor_recover", v); REQUIRE(ret); REQUIRE(memcmp(edk, dk, 32) == 0); }
        /* MuSig2: 1..5 signers, 0..3 tweaks, adaptor present/absent, every optional-argument subset */
        { int N = 1 + v % 5, ntw = v % 4, use_ad = (v >> 1) & 1, i, optmask = v % 8;
          unsigned char sks[5][32], rnds[5][32], extra[32], sad[32], pre[64], fin[64]; secp256k1_pubkey pks[5], adaptor; const secp256k1_pubkey *pkp[5]; secp256k1_keypair kps[5];
          secp256k1_musig_keyagg_cache cache; secp256k1_xonly_pubkey agg; secp256k1_musig_secnonce sn[5]; secp256k1_musig_pubnonce pn[5]; const secp256k1_musig_pubnonce *pnp[5];
          secp256k1_musig_aggnonce an; secp256k1_musig_session se; secp256k1_musig_partial_sig ps[5]; const secp256k1_musig_partial_sig *psp[5]; int par;
          for (i = 0; i < N; i++) { mkkey(sks[i], 800 + 10 * v + i); REQUIRE(secp256k1_keypair_create(ctx, &kps[i], sks[i])); REQUIRE(secp256k1_keypair_pub(ctx, &pks[i], &kps[i])); PUBLIC(&pks[i], sizeof pks[i]); PUBLIC(&kps[i], sizeof kps[i]); pkp[i] = &pks[i]; fill(rnds[i], 32, 900 + 10 * v + i); rnds[i][0] |= 1; }
          fill(extra, 32, 950 + v); mkkey(sad, 960 + v);
          REQUIRE(secp256k1_musig_pubkey_agg(ctx, &agg, &cache, pkp, N)); PUBLIC(&agg, sizeof agg); PUBLIC(&cache, sizeof cache);
          for (i = 0; i < ntw; i++) { unsigned char t[32]; mkkey(t, 970 + 10 * v + i); if (i & 1) REQUIRE(secp256k1_musig_pubkey_xonly_tweak_add(ctx, NULL, &cache, t)); else REQUIRE(secp256k1_musig_pubkey_ec_tweak_add(ctx, NULL, &cache, t)); PUBLIC(&cache, sizeof cache); }
          REQUIRE(secp256k1_ec_pubkey_create(ctx, &adaptor, sad)); PUBLIC(&adaptor, sizeof adaptor);
          for (i = 0; i < N; i++) {
              if ((i + v) & 1) {
                  BEGIN(); SECRET(sks[i], 32); SECRET(rnds[i], 32); SECRET(extra, 32);
                  ret = secp256k1_musig_nonce_gen(ctx, &sn[i], &pn[i], rnds[i], (optmask & 1) ? sks[i] : NULL, &pks[i], (optmask & 2) ? msg : NULL, (optmask & 4) ? &cache : NULL, (optmask & 1) ? extra : NULL);
                  PUBLIC(&ret, sizeof ret); PUBLIC(&pn[i], sizeof pn[i]); PUBLIC(sks[i], 32); PUBLIC(rnds[i], 32); PUBLIC(extra, 32); END("musig_nonce_gen", v); REQUIRE(ret);
              } else {
                  /* as in src/ctime_tests.c the keypair handed to nonce_gen_counter is a defined object: the function branches on the (undeclassified) validity
                   * bit of the key it contains, which is constant for every keypair produced by keypair_create; extra_input stays secret */
                  secp256k1_keypair k2; REQUIRE(secp256k1_keypair_create(ctx, &k2, sks[i])); PUBLIC(&k2, sizeof k2); BEGIN(); SECRET(extra, 32);
                  ret = secp256k1_musig_nonce_gen_counter(ctx, &sn[i], &pn[i], (uint64_t)v * 4294967296ULL + (uint64_t)i, &k2, (optmask & 2) ? msg : NULL, (optmask & 4) ? &cache : NULL, (optmask & 1) ? extra : NULL);
                  PUBLIC(&ret, sizeof ret); PUBLIC(&pn[i], sizeof pn[i]); PUBLIC(sks[i], 32); PUBLIC(extra, 32); END("musig_nonce_gen_counter", v); REQUIRE(ret);
              }
              pnp[i] = &pn[i];
          }
          REQUIRE(secp256k1_musig_nonce_agg(ctx, &an, pnp, N)); PUBLIC(&an, sizeof an); REQUIRE(secp256k1_musig_nonce_process(ctx, &se, &an, msg, &cache, use_ad ? &adaptor : NULL)); PUBLIC(&se, sizeof se);
          for (i = 0; i < N; i++) {
              secp256k1_keypair k2; BEGIN(); SECRET(sks[i], 32); ret = secp256k1_keypair_create(ctx, &k2, sks[i]); PUBLIC(&ret, sizeof ret); REQUIRE(ret);
              ret = secp256k1_musig_partial_sign(ctx, &ps[i], &sn[i], &k2, &cache, &se); PUBLIC(&ret, sizeof ret); PUBLIC(&ps[i], sizeof ps[i]); PUBLIC(sks[i], 32); END("musig_partial_sign", v); REQUIRE(ret); psp[i] = &ps[i];
          }
          REQUIRE(secp256k1_musig_partial_sig_agg(ctx, pre, &se, psp, N)); PUBLIC(pre, 64); REQUIRE(secp256k1_musig_nonce_parity(ctx, &par, &se)); PUBLIC(&par, sizeof par);
          BEGIN(); SECRET(sad, 32); ret = secp256k1_musig_adapt(ctx, fin, pre, sad, par); PUBLIC(&ret, sizeof ret); PUBLIC(fin, 64); PUBLIC(sad, 32); END("musig_adapt", v); REQUIRE(ret);
          { unsigned char got[32]; BEGIN(); ret = secp256k1_musig_extract_adaptor(ctx, got, fin, pre, par); PUBLIC(&ret, sizeof ret); PUBLIC(got, 32); END("musig_extract_adaptor", v); REQUIRE(ret); REQUIRE(memcmp(got, sad, 32) == 0); } }
        (void)want_op;
    }
}

int main(int argc, char **argv) {
    int nvariants = argc > 1 ? atoi(argv[1]) : 2, modes = argc > 2 ? atoi(argv[2]) : 3; unsigned char seed[32], canary[32]; secp256k1_context *ctx; int ret; long e0;
    if (!RUNNING_ON_VALGRIND) { printf("CTFAIL not running under valgrind\n"); return 2; }
    setvbuf(stdout, NULL, _IOLBF, 0);
    /* canary: a branch on undefined data in the driver itself must be reported, otherwise the monitor is not live */
    fill(canary, 32, 1); e0 = (long)VALGRIND_COUNT_ERRORS; VALGRIND_MAKE_MEM_UNDEFINED(canary, 32);
    { volatile int sink = 0; if (canary[0] & 1) sink = 1; else sink = 2; (void)sink; }
    VALGRIND_MAKE_MEM_DEFINED(canary, 32);
    printf("CANARY errors=%ld\n", (long)VALGRIND_COUNT_ERRORS - e0);
    for (ctxmode = 0; ctxmode < modes; ctxmode++) {
        ctx = secp256k1_context_create(SECP256K1_CONTEXT_DECLASSIFY);
        fill(seed, 32, 4242 + ctxmode);
        if (ctxmode == 1) { REQUIRE(secp256k1_context_randomize(ctx, seed)); }
        if (ctxmode == 2) { BEGIN(); SECRET(seed, 32); ret = secp256k1_context_randomize(ctx, seed); PUBLIC(&ret, sizeof ret); PUBLIC(seed, 32); END("context_randomize_secret_seed", 0); REQUIRE(ret); }
        run_all(ctx, nvariants);
        /* as in ctime_tests.c: randomisation with a secret seed last */
        BEGIN(); SECRET(seed, 32); ret = secp256k1_context_randomize(ctx, seed); PUBLIC(&ret, sizeof ret); PUBLIC(seed, 32); END("context_randomize", 0); REQUIRE(ret);
        secp256k1_context_destroy(ctx);
    }
    printf("CTDONE ops=%ld errors=%ld\n", total_ops, total_errors);
    return 0;
}
