/* internal kernel ops for C05: field, scalar, int128, group, scalar multiplication, hashing.
 * Field operands are given as (value32, magnitude m, mode): the element is materialised with magnitude exactly m and
 * large limbs: mode 0: v + (-0 at magnitude m-1);  mode 1 (m >= 4): (v - t) + t with t = fe_get_bounds(m-3). */

static void mk_fe(secp256k1_fe *r, int ai) {
    unsigned char *v = A_fix(ai, 32, 0); long m = A_int(ai + 1), mode = A_int(ai + 2);
    if (g_bad) { secp256k1_fe_set_int(r, 0); return; }
    if (m < 1 || m > 32) { bad("magnitude", ai + 1); secp256k1_fe_set_int(r, 0); return; }
    secp256k1_fe_set_b32_mod(r, v);                       /* magnitude 1 */
    if (m == 1) return;
    if (mode == 1 && m >= 4) {
        secp256k1_fe t, tn;
        secp256k1_fe_get_bounds(&t, (int)m - 3);          /* magnitude m-3, every limb at its bound */
        tn = t; secp256k1_fe_normalize(&tn);
        secp256k1_fe_negate(&tn, &tn, 1);                 /* magnitude 2 */
        secp256k1_fe_add(r, &tn);                         /* 3 */
        secp256k1_fe_add(r, &t);                          /* m */
    } else {
        secp256k1_fe z; secp256k1_fe_set_int(&z, 0);
        secp256k1_fe_negate_unchecked(&z, &z, (int)m - 2);          /* value 0, magnitude m-1 */
        secp256k1_fe_add(r, &z);
    }
}
static void R_fe(const secp256k1_fe *a) { secp256k1_fe t = *a; unsigned char b[32]; secp256k1_fe_normalize(&t); secp256k1_fe_get_b32(b, &t); R_hex(b, 32); }

/* fe1 opname v m mode [k] -> ints..., value */
static void op_fe1(void) {
    const char *op = g_ntok > 0 ? g_tok[0] : ""; secp256k1_fe a, r; long k = g_ntok > 4 ? A_int(4) : 0; int ret = -1;
    mk_fe(&a, 1); if (g_bad) return;
    r = a;
    if (!strcmp(op, "normalize")) { CALL(secp256k1_fe_normalize(&r)); { unsigned char b[32]; secp256k1_fe_get_b32(b, &r); R_int(0); R_hex(b, 32); return; } }
    else if (!strcmp(op, "normalize_var")) { CALL(secp256k1_fe_normalize_var(&r)); { unsigned char b[32]; secp256k1_fe_get_b32(b, &r); R_int(0); R_hex(b, 32); return; } }
    else if (!strcmp(op, "normalize_weak")) { CALL(secp256k1_fe_normalize_weak(&r)); ret = 0; }
    else if (!strcmp(op, "normalizes_to_zero")) { CALL(ret = secp256k1_fe_normalizes_to_zero(&r)); }
    else if (!strcmp(op, "normalizes_to_zero_var")) { CALL(ret = secp256k1_fe_normalizes_to_zero_var(&r)); }
    else if (!strcmp(op, "is_zero")) { secp256k1_fe_normalize(&r); CALL(ret = secp256k1_fe_is_zero(&r)); }
    else if (!strcmp(op, "is_odd")) { secp256k1_fe_normalize(&r); CALL(ret = secp256k1_fe_is_odd(&r)); }
    else if (!strcmp(op, "negate")) { CALL(secp256k1_fe_negate_unchecked(&r, &a, (int)A_int(2))); ret = 0; }
    else if (!strcmp(op, "mul_int")) { CALL(secp256k1_fe_mul_int_unchecked(&r, (int)k)); ret = 0; }
    else if (!strcmp(op, "add_int")) { CALL(secp256k1_fe_add_int(&r, (int)k)); ret = 0; }
    else if (!strcmp(op, "sqr")) { CALL(secp256k1_fe_sqr(&r, &a)); ret = 0; }
    else if (!strcmp(op, "sqr_inplace")) { CALL(secp256k1_fe_sqr(&r, &r)); ret = 0; }
    else if (!strcmp(op, "inv")) { CALL(secp256k1_fe_inv(&r, &a)); ret = 0; }
    else if (!strcmp(op, "inv_var")) { CALL(secp256k1_fe_inv_var(&r, &a)); ret = 0; }
    else if (!strcmp(op, "sqrt")) { CALL(ret = secp256k1_fe_sqrt(&r, &a)); }
    else if (!strcmp(op, "is_square_var")) { CALL(ret = secp256k1_fe_is_square_var(&a)); }
    else if (!strcmp(op, "half")) { CALL(secp256k1_fe_half(&r)); ret = 0; }
    else if (!strcmp(op, "storage")) { secp256k1_fe_storage s; secp256k1_fe_normalize(&r); CALL(secp256k1_fe_to_storage(&s, &r)); CALL(secp256k1_fe_from_storage(&r, &s)); ret = 0; }
    else { bad("unknown fe1 op", 0); return; }
    R_int(ret); R_fe(&r);
}
/* fe_set_b32 bytes -> limit_ret limit_value mod_value */
static void op_fe_set_b32(void) {
    unsigned char *v = A_fix(0, 32, 0); secp256k1_fe a, b; int r;
    if (g_bad) return;
    CALL(r = secp256k1_fe_set_b32_limit(&a, v)); CALL(secp256k1_fe_set_b32_mod(&b, v));
    R_int(r); if (r) R_fe(&a); else R_hex(NULL, 0); R_fe(&b);
}
/* fe2 opname v1 m1 mode1 v2 m2 mode2 [flag] */
static void op_fe2(void) {
    const char *op = g_ntok > 0 ? g_tok[0] : ""; secp256k1_fe a, b, r; int ret = -1; long flag = g_ntok > 7 ? A_int(7) : 0;
    mk_fe(&a, 1); mk_fe(&b, 4); if (g_bad) return;
    r = a;
    if (!strcmp(op, "add")) { CALL(secp256k1_fe_add(&r, &b)); ret = 0; }
    else if (!strcmp(op, "mul")) { CALL(secp256k1_fe_mul(&r, &a, &b)); ret = 0; }
    else if (!strcmp(op, "mul_inplace")) { CALL(secp256k1_fe_mul(&r, &r, &b)); ret = 0; }
    else if (!strcmp(op, "equal")) { CALL(ret = secp256k1_fe_equal(&a, &b)); }
    else if (!strcmp(op, "cmp_var")) { secp256k1_fe_normalize(&a); secp256k1_fe_normalize(&b); CALL(ret = secp256k1_fe_cmp_var(&a, &b)); r = a; }
    else if (!strcmp(op, "cmov")) { CALL(secp256k1_fe_cmov(&r, &b, (int)flag)); ret = 0; }
    else { bad("unknown fe2 op", 0); return; }
    R_int(ret); R_fe(&r);
}

/* ---- scalars */
static void R_sc(const secp256k1_scalar *s) { unsigned char b[32]; secp256k1_scalar_get_b32(b, s); R_hex(b, 32); }
/* sc opname a32 b32 k1 k2 -> ints, scalars */
static void op_sc(void) {
    const char *op = g_ntok > 0 ? g_tok[0] : ""; unsigned char *ab = A_fix(1, 32, 0), *bb = A_fix(2, 32, 0); long k1 = A_int(3), k2 = A_int(4);
    secp256k1_scalar a, b, r, r2; int ov = 0, ret = -1;
    if (g_bad) return;
    secp256k1_scalar_set_b32(&a, ab, &ov); secp256k1_scalar_set_b32(&b, bb, NULL); r = a; secp256k1_scalar_set_int(&r2, 0);
    if (!strcmp(op, "set_b32")) { ret = ov; }
    else if (!strcmp(op, "set_b32_seckey")) { CALL(ret = secp256k1_scalar_set_b32_seckey(&r, ab)); }
    else if (!strcmp(op, "add")) { CALL(ret = secp256k1_scalar_add(&r, &a, &b)); }
    else if (!strcmp(op, "cadd_bit")) { CALL(secp256k1_scalar_cadd_bit(&r, (unsigned)k1, (int)k2)); ret = 0; }
    else if (!strcmp(op, "mul")) { CALL(secp256k1_scalar_mul(&r, &a, &b)); ret = 0; }
    else if (!strcmp(op, "sqr")) { CALL(secp256k1_scalar_sqr(&r, &a)); ret = 0; }
    else if (!strcmp(op, "inverse")) { CALL(secp256k1_scalar_inverse(&r, &a)); ret = 0; }
    else if (!strcmp(op, "inverse_var")) { CALL(secp256k1_scalar_inverse_var(&r, &a)); ret = 0; }
    else if (!strcmp(op, "negate")) { CALL(secp256k1_scalar_negate(&r, &a)); ret = 0; }
    else if (!strcmp(op, "half")) { CALL(secp256k1_scalar_half(&r, &a)); ret = 0; }
    else if (!strcmp(op, "is_high")) { CALL(ret = secp256k1_scalar_is_high(&a)); }
    else if (!strcmp(op, "is_zero")) { CALL(ret = secp256k1_scalar_is_zero(&a)); }
    else if (!strcmp(op, "is_one")) { CALL(ret = secp256k1_scalar_is_one(&a)); }
    else if (!strcmp(op, "is_even")) { CALL(ret = secp256k1_scalar_is_even(&a)); }
    else if (!strcmp(op, "eq")) { CALL(ret = secp256k1_scalar_eq(&a, &b)); }
    else if (!strcmp(op, "cond_negate")) { CALL(ret = secp256k1_scalar_cond_negate(&r, (int)k1)); }
    else if (!strcmp(op, "cmov")) { CALL(secp256k1_scalar_cmov(&r, &b, (int)k1)); ret = 0; }
    else if (!strcmp(op, "split_128")) { CALL(secp256k1_scalar_split_128(&r, &r2, &a)); ret = 0; }
    else if (!strcmp(op, "split_lambda")) { CALL(secp256k1_scalar_split_lambda(&r, &r2, &a)); ret = 0; }
    else if (!strcmp(op, "mul_shift_var")) { CALL(secp256k1_scalar_mul_shift_var(&r, &a, &b, (unsigned)k1)); ret = 0; }
    else if (!strcmp(op, "get_bits_limb32")) { CALL(ret = (int)secp256k1_scalar_get_bits_limb32(&a, (unsigned)k1, (unsigned)k2)); }
    else if (!strcmp(op, "get_bits_var")) { CALL(ret = (int)secp256k1_scalar_get_bits_var(&a, (unsigned)k1, (unsigned)k2)); }
    else if (!strcmp(op, "set_u64")) { CALL(secp256k1_scalar_set_u64(&r, A_u64(3))); ret = 0; }
    else { bad("unknown sc op", 0); return; }
    R_int(ret); R_sc(&r); R_sc(&r2);
}

/* ---- int128: i128 opname a b c d n  (a..d decimal, signed or unsigned per op) -> hi lo / ints */
#if !defined(SECP256K1_WIDEMUL_INT128)
static void op_i128(void) { R_str("unsupported"); }
#else
static void op_i128(void) {
    const char *op = g_ntok > 0 ? g_tok[0] : ""; uint64_t ua = strtoull(g_ntok > 1 ? g_tok[1] : "0", NULL, 10), ub = strtoull(g_ntok > 2 ? g_tok[2] : "0", NULL, 10);
    uint64_t uc = strtoull(g_ntok > 3 ? g_tok[3] : "0", NULL, 10), ud = strtoull(g_ntok > 4 ? g_tok[4] : "0", NULL, 10); unsigned nn = (unsigned)A_int(5);
    int64_t a = (int64_t)ua, b = (int64_t)ub, c = (int64_t)uc, d = (int64_t)ud;
    if (!strcmp(op, "u_mul")) { secp256k1_uint128 r; CALL(secp256k1_u128_mul(&r, ua, ub)); R_u64(secp256k1_u128_hi_u64(&r)); R_u64(secp256k1_u128_to_u64(&r)); }
    else if (!strcmp(op, "u_accum_mul")) { secp256k1_uint128 r; secp256k1_u128_load(&r, uc, ud); CALL(secp256k1_u128_accum_mul(&r, ua, ub)); R_u64(secp256k1_u128_hi_u64(&r)); R_u64(secp256k1_u128_to_u64(&r)); }
    else if (!strcmp(op, "u_accum_u64")) { secp256k1_uint128 r; secp256k1_u128_load(&r, uc, ud); CALL(secp256k1_u128_accum_u64(&r, ua)); R_u64(secp256k1_u128_hi_u64(&r)); R_u64(secp256k1_u128_to_u64(&r)); }
    else if (!strcmp(op, "u_rshift")) { secp256k1_uint128 r; secp256k1_u128_load(&r, uc, ud); CALL(secp256k1_u128_rshift(&r, nn)); R_u64(secp256k1_u128_hi_u64(&r)); R_u64(secp256k1_u128_to_u64(&r)); }
    else if (!strcmp(op, "u_check_bits")) { secp256k1_uint128 r; int x; secp256k1_u128_load(&r, uc, ud); CALL(x = secp256k1_u128_check_bits(&r, nn)); R_int(x); R_int(0); }
    else if (!strcmp(op, "i_mul")) { secp256k1_int128 r; secp256k1_int128 s; CALL(secp256k1_i128_mul(&r, a, b)); s = r; secp256k1_i128_rshift(&s, 64); R_u64((uint64_t)secp256k1_i128_to_i64(&s)); R_u64(secp256k1_i128_to_u64(&r)); }
    else if (!strcmp(op, "i_accum_mul")) { secp256k1_int128 r, s; secp256k1_i128_load(&r, c, ud); CALL(secp256k1_i128_accum_mul(&r, a, b)); s = r; secp256k1_i128_rshift(&s, 64); R_u64((uint64_t)secp256k1_i128_to_i64(&s)); R_u64(secp256k1_i128_to_u64(&r)); }
    else if (!strcmp(op, "i_det")) { secp256k1_int128 r, s; CALL(secp256k1_i128_det(&r, a, b, c, d)); s = r; secp256k1_i128_rshift(&s, 64); R_u64((uint64_t)secp256k1_i128_to_i64(&s)); R_u64(secp256k1_i128_to_u64(&r)); }
    else if (!strcmp(op, "i_rshift")) { secp256k1_int128 r, s; secp256k1_i128_load(&r, c, ud); CALL(secp256k1_i128_rshift(&r, nn)); s = r; secp256k1_i128_rshift(&s, 64); R_u64((uint64_t)secp256k1_i128_to_i64(&s)); R_u64(secp256k1_i128_to_u64(&r)); }
    else if (!strcmp(op, "i_check_pow2")) { secp256k1_int128 r; int x; secp256k1_i128_load(&r, c, ud); CALL(x = secp256k1_i128_check_pow2(&r, nn, (int)a)); R_int(x); R_int(0); }
    else if (!strcmp(op, "i_eq_var")) { secp256k1_int128 r, s; int x; secp256k1_i128_load(&r, a, ub); secp256k1_i128_load(&s, c, ud); CALL(x = secp256k1_i128_eq_var(&r, &s)); R_int(x); R_int(0); }
    else bad("unknown i128 op", 0);
}
#endif

/* ---- group: a point operand is (p33ext, z32): affine point (33 zero bytes = infinity) rescaled by z into Jacobian form */
static int mk_ge(secp256k1_ge *r, int ai) {
    unsigned char *pb = A_fix(ai, 33, 0);
    if (g_bad) return 0;
    if (!secp256k1_ge_parse_ext(r, pb)) { bad("point operand does not parse", ai); return 0; }
    return 1;
}
static void mk_gej(secp256k1_gej *r, int ai) {
    secp256k1_ge g; unsigned char *zb; secp256k1_fe z;
    if (!mk_ge(&g, ai)) { secp256k1_gej_set_infinity(r); return; }
    zb = A_fix(ai + 1, 32, 0); if (g_bad) return;
    secp256k1_gej_set_ge(r, &g);
    secp256k1_fe_set_b32_mod(&z, zb);
    if (!secp256k1_fe_normalizes_to_zero_var(&z) && !g.infinity) secp256k1_gej_rescale(r, &z);
}
static void R_ge(secp256k1_ge *g) { unsigned char b[33]; secp256k1_ge_serialize_ext(b, g); R_hex(b, 33); }
static void R_gej(secp256k1_gej *j) { secp256k1_ge g; secp256k1_gej t = *j; secp256k1_ge_set_gej_var(&g, &t); R_ge(&g); }
/* grp opname A zA B zB [extra32] [k] */
static void op_grp(void) {
    const char *op = g_ntok > 0 ? g_tok[0] : ""; secp256k1_gej a, b, r; secp256k1_ge ga, gb, gr; int ret = -1;
    mk_gej(&a, 1); mk_gej(&b, 3); if (g_bad) return;
    { secp256k1_gej t = a; secp256k1_ge_set_gej_var(&ga, &t); t = b; secp256k1_ge_set_gej_var(&gb, &t); }
    secp256k1_gej_set_infinity(&r);
    if (!strcmp(op, "double")) { if (a.infinity) { r = a; } else CALL(secp256k1_gej_double(&r, &a)); ret = 0; }
    else if (!strcmp(op, "double_var")) { secp256k1_fe rzr; CALL(secp256k1_gej_double_var(&r, &a, (A_int(6) && !a.infinity) ? &rzr : NULL)); ret = 0; }
    else if (!strcmp(op, "add_var")) { secp256k1_fe rzr; CALL(secp256k1_gej_add_var(&r, &a, &b, (A_int(6) && !a.infinity) ? &rzr : NULL)); ret = 0; }
    else if (!strcmp(op, "add_ge")) { CALL(secp256k1_gej_add_ge(&r, &a, &gb)); ret = 0; }
    else if (!strcmp(op, "add_ge_var")) { secp256k1_fe rzr; CALL(secp256k1_gej_add_ge_var(&r, &a, &gb, (A_int(6) && !a.infinity) ? &rzr : NULL)); ret = 0; }
    else if (!strcmp(op, "add_zinv_var")) {
        /* b is supplied in the coordinates of a curve isomorphic by z = zB: b' = (b.x * zB^2, b.y * zB^3) with bzinv = 1/zB */
        unsigned char *zb = A_fix(5, 32, 0); secp256k1_fe z, zi, z2, z3; secp256k1_ge bs = gb;
        secp256k1_fe_set_b32_mod(&z, zb); if (secp256k1_fe_normalizes_to_zero_var(&z)) secp256k1_fe_set_int(&z, 1);
        secp256k1_fe_inv_var(&zi, &z); secp256k1_fe_sqr(&z2, &z); secp256k1_fe_mul(&z3, &z2, &z);
        if (!bs.infinity) { secp256k1_fe_mul(&bs.x, &bs.x, &z2); secp256k1_fe_mul(&bs.y, &bs.y, &z3); }
        CALL(secp256k1_gej_add_zinv_var(&r, &a, &bs, &zi)); ret = 0;
    }
    else if (!strcmp(op, "set_gej")) { secp256k1_gej t = a; CALL(secp256k1_ge_set_gej(&gr, &t)); R_int(0); R_ge(&gr); return; }
    else if (!strcmp(op, "set_gej_var")) { secp256k1_gej t = a; CALL(secp256k1_ge_set_gej_var(&gr, &t)); R_int(0); R_ge(&gr); return; }
    else if (!strcmp(op, "eq_var")) { CALL(ret = secp256k1_gej_eq_var(&a, &b)); }
    else if (!strcmp(op, "eq_ge_var")) { CALL(ret = secp256k1_gej_eq_ge_var(&a, &gb)); }
    else if (!strcmp(op, "ge_eq_var")) { CALL(ret = secp256k1_ge_eq_var(&ga, &gb)); }
    else if (!strcmp(op, "eq_x_var")) { unsigned char *xb = A_fix(5, 32, 0); secp256k1_fe x; if (g_bad) return; if (!secp256k1_fe_set_b32_limit(&x, xb)) { bad("x >= p", 5); return; } if (a.infinity) { bad("infinity", 1); return; } CALL(ret = secp256k1_gej_eq_x_var(&x, &a)); }
    else if (!strcmp(op, "neg")) { CALL(secp256k1_gej_neg(&r, &a)); ret = 0; }
    else if (!strcmp(op, "ge_neg")) { CALL(secp256k1_ge_neg(&gr, &ga)); R_int(0); R_ge(&gr); return; }
    else if (!strcmp(op, "mul_lambda")) { if (ga.infinity) { bad("infinity", 1); return; } CALL(secp256k1_ge_mul_lambda(&gr, &ga)); R_int(0); R_ge(&gr); return; }
    else if (!strcmp(op, "cmov")) { r = a; CALL(secp256k1_gej_cmov(&r, &b, (int)A_int(6))); ret = 0; }
    else if (!strcmp(op, "is_valid_var")) { CALL(ret = secp256k1_ge_is_valid_var(&ga)); }
    else if (!strcmp(op, "is_infinity")) { CALL(ret = secp256k1_gej_is_infinity(&a)); }
    else if (!strcmp(op, "subgroup")) { CALL(ret = secp256k1_ge_is_in_correct_subgroup(&ga)); }
    else if (!strcmp(op, "storage")) { secp256k1_ge_storage s; if (ga.infinity) { bad("infinity", 1); return; } CALL(secp256k1_ge_to_storage(&s, &ga)); CALL(secp256k1_ge_from_storage(&gr, &s)); R_int(0); R_ge(&gr); return; }
    else if (!strcmp(op, "bytes")) { unsigned char buf[64]; if (ga.infinity) { bad("infinity", 1); return; } CALL(secp256k1_ge_to_bytes(buf, &ga)); CALL(secp256k1_ge_from_bytes(&gr, buf)); R_int(0); R_ge(&gr); return; }
    else if (!strcmp(op, "bytes_ext")) { unsigned char buf[64]; CALL(secp256k1_ge_to_bytes_ext(buf, &ga)); CALL(secp256k1_ge_from_bytes_ext(&gr, buf)); R_int(0); R_ge(&gr); return; }
    else { bad("unknown grp op", 0); return; }
    R_int(ret); R_gej(&r);
}
/* ge_set_x x32 mode odd : mode 0 set_xo_var, 1 set_xquad, 2 x_on_curve_var, 3 x_frac_on_curve_var(x = n, d = arg 3 as 32 bytes) */
static void op_ge_set_x(void) {
    unsigned char *xb = A_fix(0, 32, 0); long mode = A_int(1), odd = A_int(2); secp256k1_fe x; secp256k1_ge g; int r;
    if (g_bad) return; secp256k1_fe_set_b32_mod(&x, xb); secp256k1_ge_set_infinity(&g);
    if (mode == 0) { CALL(r = secp256k1_ge_set_xo_var(&g, &x, (int)odd)); R_int(r); if (r) R_ge(&g); else R_hex(NULL, 0); }
    else if (mode == 1) { CALL(r = secp256k1_ge_set_xquad(&g, &x)); R_int(r); if (r) R_ge(&g); else R_hex(NULL, 0); }
    else if (mode == 2) { CALL(r = secp256k1_ge_x_on_curve_var(&x)); R_int(r); R_hex(NULL, 0); }
    else { unsigned char *db = A_fix(3, 32, 0); secp256k1_fe d; if (g_bad) return; secp256k1_fe_set_b32_mod(&d, db); CALL(r = secp256k1_ge_x_frac_on_curve_var(&x, &d)); R_int(r); R_hex(NULL, 0); }
}
/* set_all_gej var? concat(p33) concat(z32) n */
static void op_set_all_gej(void) {
    long var = A_int(0); size_t lp, lz, i; unsigned char *pb = A_blob(1, &lp), *zb = A_blob(2, &lz); size_t n = (size_t)A_u64(3); secp256k1_gej *js; secp256k1_ge *gs;
    if (g_bad) return; if (lp != 33 * n || lz != 32 * n) { bad("size", 1); return; }
    js = (secp256k1_gej *)keep(xmalloc(sizeof(*js) * (n ? n : 1))); gs = (secp256k1_ge *)keep(xmalloc(sizeof(*gs) * (n ? n : 1)));
    for (i = 0; i < n; i++) {
        secp256k1_ge g; secp256k1_fe z;
        if (!secp256k1_ge_parse_ext(&g, pb + 33 * i)) { bad("point", 1); return; }
        secp256k1_gej_set_ge(&js[i], &g); secp256k1_fe_set_b32_mod(&z, zb + 32 * i);
        if (!secp256k1_fe_normalizes_to_zero_var(&z) && !g.infinity) secp256k1_gej_rescale(&js[i], &z);
    }
    if (var) CALL(secp256k1_ge_set_all_gej_var(gs, js, n)); else CALL(secp256k1_ge_set_all_gej(gs, js, n));
    R_int((long long)n);
    for (i = 0; i < n; i++) R_ge(&gs[i]);
}

/* ---- scalar multiplication */
/* ecmult P zP na ng|-  */
static void op_ecmult(void) {
    secp256k1_gej a, r; unsigned char *nab = A_fix(2, 32, 0), *ngb = A_fix(3, 32, 1); secp256k1_scalar na, ng;
    mk_gej(&a, 0); if (g_bad) return;
    secp256k1_scalar_set_b32(&na, nab, NULL); if (ngb) secp256k1_scalar_set_b32(&ng, ngb, NULL);
    CALL(secp256k1_ecmult(&r, &a, &na, ngb ? &ng : NULL)); R_gej(&r);
}
static void op_ecmult_gen(void) {
    unsigned char *kb = A_fix(0, 32, 0); secp256k1_scalar k; secp256k1_gej r;
    if (g_bad) return; secp256k1_scalar_set_b32(&k, kb, NULL);
    CALL(secp256k1_ecmult_gen(&ctx->ecmult_gen_ctx, &r, &k)); R_gej(&r);
}
static void op_ecmult_const(void) {
    secp256k1_ge a; unsigned char *qb = A_fix(1, 32, 0); secp256k1_scalar q; secp256k1_gej r;
    if (!mk_ge(&a, 0)) return; if (g_bad) return; secp256k1_scalar_set_b32(&q, qb, NULL);
    CALL(secp256k1_ecmult_const(&r, &a, &q)); R_gej(&r);
}
/* ecmult_const_xonly n32 d32|- q32 known -> ret x32 */
static void op_ecmult_const_xonly(void) {
    unsigned char *nb = A_fix(0, 32, 0), *db = A_fix(1, 32, 1), *qb = A_fix(2, 32, 0); long known = A_int(3); secp256k1_fe nn, d, r; secp256k1_scalar q; int ret;
    if (g_bad) return; secp256k1_fe_set_b32_mod(&nn, nb); if (db) secp256k1_fe_set_b32_mod(&d, db); secp256k1_scalar_set_b32(&q, qb, NULL);
    if (secp256k1_scalar_is_zero(&q) || (db && secp256k1_fe_normalizes_to_zero_var(&d))) { bad("precondition: q != 0, d != 0", 2); return; }
    secp256k1_fe_set_int(&r, 0);
    CALL(ret = secp256k1_ecmult_const_xonly(&r, &nn, db ? &d : NULL, &q, (int)known)); R_int(ret); if (ret) R_fe(&r); else R_hex(NULL, 0);
}
typedef struct { secp256k1_scalar *sc; secp256k1_ge *pt; } multi_data;
static int multi_cb(secp256k1_scalar *sc, secp256k1_ge *pt, size_t idx, void *data) { multi_data *d = (multi_data *)data; *sc = d->sc[idx]; *pt = d->pt[idx]; return 1; }
/* ecmult_multi algo scratch_size concat(sc32) concat(p33ext) n g_sc|- ; algo 0: multi_var, 1: strauss_batch_single, 2: pippenger_batch_single, 3: simple_var */
static void op_ecmult_multi(void) {
    long algo = A_int(0); size_t ss = (size_t)A_u64(1), ls, lp, i; unsigned char *sb = A_blob(2, &ls), *pb = A_blob(3, &lp); size_t n = (size_t)A_u64(4); unsigned char *gb = A_fix(5, 32, 1);
    multi_data md; secp256k1_scalar gsc; secp256k1_gej r; secp256k1_scratch_space *scratch = NULL; int ret;
    if (g_bad) return; if (ls != 32 * n || lp != 33 * n) { bad("size", 2); return; }
    md.sc = (secp256k1_scalar *)keep(xmalloc(sizeof(secp256k1_scalar) * (n ? n : 1))); md.pt = (secp256k1_ge *)keep(xmalloc(sizeof(secp256k1_ge) * (n ? n : 1)));
    for (i = 0; i < n; i++) { secp256k1_scalar_set_b32(&md.sc[i], sb + 32 * i, NULL); if (!secp256k1_ge_parse_ext(&md.pt[i], pb + 33 * i)) { bad("point", 3); return; } }
    if (gb) secp256k1_scalar_set_b32(&gsc, gb, NULL);
    if (ss) CALL(scratch = secp256k1_scratch_space_create(ctx, ss));
    secp256k1_gej_set_infinity(&r);
    if (algo == 0) CALL(ret = secp256k1_ecmult_multi_var(&ctx->error_callback, scratch, &r, gb ? &gsc : NULL, multi_cb, &md, n));
    else if (algo == 1) { if (!scratch) { bad("strauss needs scratch", 1); return; } CALL(ret = secp256k1_ecmult_strauss_batch_single(&ctx->error_callback, scratch, &r, gb ? &gsc : NULL, multi_cb, &md, n)); }
    else if (algo == 2) { if (!scratch) { bad("pippenger needs scratch", 1); return; } CALL(ret = secp256k1_ecmult_pippenger_batch_single(&ctx->error_callback, scratch, &r, gb ? &gsc : NULL, multi_cb, &md, n)); }
    else CALL(ret = secp256k1_ecmult_multi_simple_var(&r, gb ? &gsc : NULL, multi_cb, &md, n));
    R_int(ret); if (ret) R_gej(&r); else R_hex(NULL, 0);
    if (scratch) CALL(secp256k1_scratch_space_destroy(ctx, scratch));
}

/* ---- hashing: chunk list = decimal sizes separated by ',' (covering the data) */
static size_t next_chunk(const char **p, size_t left) {
    size_t v; char *e; if (!**p) return left; v = strtoul(*p, &e, 10); *p = (*e == ',') ? e + 1 : e; return v > left ? left : v;
}
static void op_sha256(void) {
    size_t l, off = 0; unsigned char *d = A_blob(0, &l); const char *ch = g_ntok > 1 ? g_tok[1] : ""; secp256k1_sha256 h; unsigned char out[32]; const secp256k1_hash_ctx *hc = secp256k1_get_hash_context(ctx);
    if (g_bad) return;
    CALL(secp256k1_sha256_initialize(&h));
    while (off < l || *ch) { size_t c = next_chunk(&ch, l - off); CALL(secp256k1_sha256_write(hc, &h, d + off, c)); off += c; if (off >= l && !*ch) break; }
    CALL(secp256k1_sha256_finalize(hc, &h, out)); R_hex(out, 32);
}
static void op_hmac(void) {
    size_t kl, l, off = 0; unsigned char *k = A_blob(0, &kl), *d = A_blob(1, &l); const char *ch = g_ntok > 2 ? g_tok[2] : ""; secp256k1_hmac_sha256 h; unsigned char out[32]; const secp256k1_hash_ctx *hc = secp256k1_get_hash_context(ctx);
    if (g_bad) return;
    CALL(secp256k1_hmac_sha256_initialize(hc, &h, k, kl));
    while (off < l || *ch) { size_t c = next_chunk(&ch, l - off); CALL(secp256k1_hmac_sha256_write(hc, &h, d + off, c)); off += c; if (off >= l && !*ch) break; }
    CALL(secp256k1_hmac_sha256_finalize(hc, &h, out)); R_hex(out, 32);
}
/* rfc6979 key outlens(comma list) -> outputs */
static void op_rfc6979(void) {
    size_t kl; unsigned char *k = A_blob(0, &kl); const char *ch = g_ntok > 1 ? g_tok[1] : ""; secp256k1_rfc6979_hmac_sha256 rng; const secp256k1_hash_ctx *hc = secp256k1_get_hash_context(ctx);
    if (g_bad) return;
    CALL(secp256k1_rfc6979_hmac_sha256_initialize(hc, &rng, k, kl));
    while (*ch) { size_t c = next_chunk(&ch, 100000); unsigned char *o = O_buf(c); CALL(secp256k1_rfc6979_hmac_sha256_generate(hc, &rng, o, c)); R_hex(o, c); }
    CALL(secp256k1_rfc6979_hmac_sha256_finalize(&rng));
}
/* midstate name msg -> digest of the precomputed tagged midstate continued with msg */
static void op_midstate(void) {
    const char *nm = g_ntok > 0 ? g_tok[0] : ""; size_t l; unsigned char *m = A_blob(1, &l); secp256k1_sha256 h; unsigned char out[32]; const secp256k1_hash_ctx *hc = secp256k1_get_hash_context(ctx);
    if (g_bad) return;
    if (!strcmp(nm, "BIP0340/nonce")) secp256k1_nonce_function_bip340_sha256_tagged(&h);
    else if (!strcmp(nm, "BIP0340/aux")) secp256k1_nonce_function_bip340_sha256_tagged_aux(&h);
    else if (!strcmp(nm, "BIP0340/challenge")) secp256k1_schnorrsig_sha256_tagged(&h);
    else if (!strcmp(nm, "s2c/ecdsa/point")) secp256k1_s2c_ecdsa_point_sha256_tagged(&h);
    else if (!strcmp(nm, "s2c/ecdsa/data")) secp256k1_s2c_ecdsa_data_sha256_tagged(&h);
    else if (!strcmp(nm, "Bulletproofs_pp/v0/commitment")) secp256k1_bppp_sha256_tagged_commitment_init(&h);
    else if (!strcmp(nm, "ECDSAadaptor/non")) secp256k1_nonce_function_ecdsa_adaptor_sha256_tagged(&h);
    else if (!strcmp(nm, "ECDSAadaptor/aux")) secp256k1_nonce_function_ecdsa_adaptor_sha256_tagged_aux(&h);
    else if (!strcmp(nm, "DLEQ")) secp256k1_nonce_function_dleq_sha256_tagged(&h);
    else if (!strcmp(nm, "HalfAgg/randomizer")) secp256k1_schnorrsig_sha256_tagged_aggregation(&h);
    else if (!strcmp(nm, "MuSig/aux")) secp256k1_nonce_function_musig_sha256_tagged_aux(&h);
    else if (!strcmp(nm, "MuSig/nonce")) secp256k1_nonce_function_musig_sha256_tagged(&h);
    else if (!strcmp(nm, "MuSig/noncecoef")) secp256k1_musig_compute_noncehash_sha256_tagged(&h);
    else if (!strcmp(nm, "KeyAgg_list")) secp256k1_musig_keyagglist_sha256(&h);
    else if (!strcmp(nm, "KeyAgg_coefficient")) secp256k1_musig_keyaggcoef_sha256(&h);
    else if (!strcmp(nm, "secp256k1_ellswift_encode")) secp256k1_ellswift_sha256_init_encode(&h);
    else if (!strcmp(nm, "secp256k1_ellswift_create")) secp256k1_ellswift_sha256_init_create(&h);
    else if (!strcmp(nm, "bip324_ellswift_xonly_ecdh")) secp256k1_ellswift_sha256_init_bip324(&h);
    else { /* generic: initialize_tagged with the name as tag */ CALL(secp256k1_sha256_initialize_tagged(hc, &h, (const unsigned char *)nm, strlen(nm))); }
    CALL(secp256k1_sha256_write(hc, &h, m, l)); CALL(secp256k1_sha256_finalize(hc, &h, out)); R_hex(out, 32);
}

#undef OPS_INTERNAL
#define OPS_INTERNAL \
    { "fe1", op_fe1 }, { "fe2", op_fe2 }, { "fe_set_b32", op_fe_set_b32 }, { "sc", op_sc }, { "i128", op_i128 }, { "grp", op_grp }, { "ge_set_x", op_ge_set_x }, \
    { "set_all_gej", op_set_all_gej }, { "ecmult", op_ecmult }, { "ecmult_gen", op_ecmult_gen }, { "ecmult_const", op_ecmult_const }, \
    { "ecmult_const_xonly", op_ecmult_const_xonly }, { "ecmult_multi", op_ecmult_multi }, { "sha256", op_sha256 }, { "hmac", op_hmac }, \
    { "rfc6979", op_rfc6979 }, { "midstate", op_midstate },
