/* internal ops */
#define OPS_INTERNAL
