/* M-GLOBAL: links against libsecp256k1.so built from the working tree (public API only), locates the writable PT_LOAD
 * segment(s) of that shared object with dl_iterate_phdr, and hashes them before and after batches of API calls made
 * from one and from several threads.  Any change means the library keeps mutable global state.
 * Output:  GLOBAL segments=<n> bytes=<n> batches=<n> changed=<n> threads=<n> calls=<n> first_change=<offset|->  */
#define _GNU_SOURCE
#include <link.h>
#include <stdio.h>
#include <stdlib.h>
#include <string.h>
#include <stdint.h>
#include <pthread.h>
#include "secp256k1.h"
#include "secp256k1_preallocated.h"
#include "secp256k1_recovery.h"
#include "secp256k1_ecdh.h"
#include "secp256k1_extrakeys.h"
#include "secp256k1_schnorrsig.h"
#include "secp256k1_schnorrsig_halfagg.h"
#include "secp256k1_musig.h"
#include "secp256k1_ellswift.h"
#include "secp256k1_ecdsa_s2c.h"
#include "secp256k1_ecdsa_adaptor.h"
#include "secp256k1_generator.h"
#include "secp256k1_rangeproof.h"
#include "secp256k1_whitelist.h"
#include "secp256k1_surjectionproof.h"
#include "secp256k1_bppp.h"

typedef struct { unsigned char *base; size_t len; } seg;
static seg segs[8]; static int nsegs = 0;
static int phdr_cb(struct dl_phdr_info *info, size_t size, void *data) {
    int i; (void)size; (void)data;
    if (!info->dlpi_name || !strstr(info->dlpi_name, "libsecp256k1")) return 0;
    for (i = 0; i < info->dlpi_phnum; i++) {
        const ElfW(Phdr) *ph = &info->dlpi_phdr[i];
        if (ph->p_type == PT_LOAD && (ph->p_flags & PF_W) && nsegs < 8) { segs[nsegs].base = (unsigned char *)(info->dlpi_addr + ph->p_vaddr); segs[nsegs].len = ph->p_memsz; nsegs++; }
    }
    return 0;
}
static uint64_t fnv(const unsigned char *p, size_t n, uint64_t h) { size_t i; for (i = 0; i < n; i++) { h ^= p[i]; h *= 1099511628211ULL; } return h; }
static unsigned char *snap = NULL; static size_t snaplen = 0;
static void take_snapshot(void) { int i; size_t off = 0; snaplen = 0; for (i = 0; i < nsegs; i++) snaplen += segs[i].len; snap = (unsigned char *)realloc(snap, snaplen ? snaplen : 1); for (i = 0; i < nsegs; i++) { memcpy(snap + off, segs[i].base, segs[i].len); off += segs[i].len; } }
static long compare_snapshot(void) { int i; size_t off = 0, k; for (i = 0; i < nsegs; i++) { for (k = 0; k < segs[i].len; k++) if (segs[i].base[k] != snap[off + k]) return (long)(off + k); off += segs[i].len; } return -1; }

static long g_calls = 0;
static void cb_count(const char *s, void *d) { (void)s; (void)d; }
#define OK(x) do { if (!(x)) { fprintf(stderr, "sodriver: call failed: %s\n", #x); failed++; } calls++; } while (0)

/* one batch of API calls over every module, on the given context; returns the number of unexpected failures */
static int batch(secp256k1_context *ctx, unsigned salt, long *ncalls) {
    int failed = 0; long calls = 0; unsigned char sk[32], sk2[32], msg[32], rnd[32], out[64], buf[6000]; size_t len; int i;
    secp256k1_pubkey pk, pk2; secp256k1_ecdsa_signature sig; secp256k1_keypair kp; secp256k1_xonly_pubkey xo; unsigned char s64[64];
    for (i = 0; i < 32; i++) { sk[i] = (unsigned char)(i * 7 + 1 + salt); sk2[i] = (unsigned char)(i * 3 + 2 + salt); msg[i] = (unsigned char)(i + salt); rnd[i] = (unsigned char)(255 - i + salt); }
    sk[0] = 1; sk2[0] = 2;
    OK(secp256k1_ec_seckey_verify(ctx, sk)); OK(secp256k1_ec_pubkey_create(ctx, &pk, sk)); OK(secp256k1_ec_pubkey_create(ctx, &pk2, sk2));
    len = 33; OK(secp256k1_ec_pubkey_serialize(ctx, buf, &len, &pk, SECP256K1_EC_COMPRESSED)); OK(secp256k1_ec_pubkey_parse(ctx, &pk, buf, 33));
    OK(secp256k1_ecdsa_sign(ctx, &sig, msg, sk, NULL, NULL)); OK(secp256k1_ecdsa_verify(ctx, &sig, msg, &pk));
    len = 80; OK(secp256k1_ecdsa_signature_serialize_der(ctx, buf, &len, &sig)); OK(secp256k1_ecdsa_signature_parse_der(ctx, &sig, buf, len));
    { secp256k1_ecdsa_recoverable_signature rs; secp256k1_pubkey rp; OK(secp256k1_ecdsa_sign_recoverable(ctx, &rs, msg, sk, NULL, NULL)); OK(secp256k1_ecdsa_recover(ctx, &rp, &rs, msg)); }
    OK(secp256k1_ecdh(ctx, out, &pk2, sk, NULL, NULL));
    OK(secp256k1_keypair_create(ctx, &kp, sk)); OK(secp256k1_keypair_xonly_pub(ctx, &xo, NULL, &kp)); OK(secp256k1_schnorrsig_sign32(ctx, s64, msg, &kp, rnd)); OK(secp256k1_schnorrsig_verify(ctx, s64, msg, 32, &xo));
    { unsigned char agg[64]; size_t al = 64; OK(secp256k1_schnorrsig_aggregate(ctx, agg, &al, &xo, msg, s64, 1)); OK(secp256k1_schnorrsig_aggverify(ctx, &xo, msg, 1, agg, al)); }
    { unsigned char e1[64], e2[64], s1[32], s2[32]; OK(secp256k1_ellswift_create(ctx, e1, sk, rnd)); OK(secp256k1_ellswift_create(ctx, e2, sk2, NULL));
      OK(secp256k1_ellswift_xdh(ctx, s1, e1, e2, sk, 0, secp256k1_ellswift_xdh_hash_function_bip324, NULL)); OK(secp256k1_ellswift_xdh(ctx, s2, e1, e2, sk2, 1, secp256k1_ellswift_xdh_hash_function_bip324, NULL)); OK(memcmp(s1, s2, 32) == 0); }
    { secp256k1_ecdsa_s2c_opening op; secp256k1_ecdsa_signature s2; OK(secp256k1_ecdsa_s2c_sign(ctx, &s2, &op, msg, sk, rnd)); OK(secp256k1_ecdsa_s2c_verify_commit(ctx, &s2, rnd, &op)); }
    { unsigned char a[162], dk[32]; secp256k1_ecdsa_signature s3; OK(secp256k1_ecdsa_adaptor_encrypt(ctx, a, sk, &pk2, msg, NULL, NULL)); OK(secp256k1_ecdsa_adaptor_verify(ctx, a, &pk, msg, &pk2));
      OK(secp256k1_ecdsa_adaptor_decrypt(ctx, &s3, sk2, a)); OK(secp256k1_ecdsa_adaptor_recover(ctx, dk, &s3, a, &pk2)); OK(memcmp(dk, sk2, 32) == 0); }
    { /* musig 2-of-2 */
      const secp256k1_pubkey *pks[2]; secp256k1_musig_keyagg_cache kac; secp256k1_xonly_pubkey aggpk; secp256k1_musig_secnonce sn[2]; secp256k1_musig_pubnonce pn[2]; const secp256k1_musig_pubnonce *pnp[2];
      secp256k1_musig_aggnonce an; secp256k1_musig_session se; secp256k1_musig_partial_sig ps[2]; const secp256k1_musig_partial_sig *psp[2]; secp256k1_keypair kp2; unsigned char r1[32], r2[32], fs[64];
      pks[0] = &pk; pks[1] = &pk2; memcpy(r1, rnd, 32); memcpy(r2, msg, 32); r2[0] |= 1;
      OK(secp256k1_keypair_create(ctx, &kp2, sk2)); OK(secp256k1_musig_pubkey_agg(ctx, &aggpk, &kac, pks, 2)); OK(secp256k1_musig_pubkey_xonly_tweak_add(ctx, NULL, &kac, msg));
      OK(secp256k1_musig_nonce_gen(ctx, &sn[0], &pn[0], r1, sk, &pk, msg, &kac, NULL)); OK(secp256k1_musig_nonce_gen(ctx, &sn[1], &pn[1], r2, sk2, &pk2, msg, &kac, NULL));
      pnp[0] = &pn[0]; pnp[1] = &pn[1]; OK(secp256k1_musig_nonce_agg(ctx, &an, pnp, 2)); OK(secp256k1_musig_nonce_process(ctx, &se, &an, msg, &kac, NULL));
      OK(secp256k1_musig_partial_sign(ctx, &ps[0], &sn[0], &kp, &kac, &se)); OK(secp256k1_musig_partial_sign(ctx, &ps[1], &sn[1], &kp2, &kac, &se));
      OK(secp256k1_musig_partial_sig_verify(ctx, &ps[0], &pn[0], &pk, &kac, &se)); psp[0] = &ps[0]; psp[1] = &ps[1]; OK(secp256k1_musig_partial_sig_agg(ctx, fs, &se, psp, 2));
      { secp256k1_pubkey tp; secp256k1_xonly_pubkey tx; OK(secp256k1_musig_pubkey_get(ctx, &tp, &kac)); OK(secp256k1_xonly_pubkey_from_pubkey(ctx, &tx, NULL, &tp)); OK(secp256k1_schnorrsig_verify(ctx, fs, msg, 32, &tx)); } }
    { /* generators, pedersen, rangeproof */
      secp256k1_generator gen; secp256k1_pedersen_commitment c; const secp256k1_pedersen_commitment *cp[1]; size_t plen = 5134; uint64_t mn, mx, v = 12345 + salt; unsigned char bl[32], vo[32], mo[4096]; size_t ol = 4096; uint64_t vv;
      OK(secp256k1_generator_generate_blinded(ctx, &gen, msg, sk2)); OK(secp256k1_pedersen_commit(ctx, &c, sk, v, &gen)); cp[0] = &c; OK(secp256k1_pedersen_verify_tally(ctx, cp, 1, cp, 1));
      OK(secp256k1_rangeproof_sign(ctx, buf, &plen, 0, &c, sk, rnd, 0, 0, v, (const unsigned char *)"hello", 5, NULL, 0, &gen)); OK(secp256k1_rangeproof_verify(ctx, &mn, &mx, &c, buf, plen, NULL, 0, &gen));
      OK(secp256k1_rangeproof_rewind(ctx, vo, &vv, mo, &ol, rnd, &mn, &mx, &c, buf, plen, NULL, 0, &gen)); (void)bl; }
    { /* surjection */
      secp256k1_surjectionproof sp; secp256k1_fixed_asset_tag tags[3], ot; secp256k1_generator ei[3], eo; size_t idx; unsigned char k[4][32]; int j;
      for (j = 0; j < 3; j++) { memset(tags[j].data, j + 1 + (int)salt, 32); memset(k[j], j + 9, 32); k[j][0] = 1; } ot = tags[1]; memset(k[3], 77, 32); k[3][0] = 1;
      for (j = 0; j < 3; j++) OK(secp256k1_generator_generate_blinded(ctx, &ei[j], tags[j].data, k[j])); OK(secp256k1_generator_generate_blinded(ctx, &eo, ot.data, k[3]));
      OK(secp256k1_surjectionproof_initialize(ctx, &sp, &idx, tags, 3, 3, &ot, 10, rnd) > 0); OK(secp256k1_surjectionproof_generate(ctx, &sp, ei, 3, &eo, idx, k[idx], k[3])); OK(secp256k1_surjectionproof_verify(ctx, &sp, ei, 3, &eo)); }
    { /* whitelist */
      secp256k1_whitelist_signature ws; secp256k1_pubkey on[2], off[2], sub; unsigned char o1[32], f1[32], w[32], sum[32];
      memset(o1, 11, 32); memset(f1, 12, 32); memset(w, 13, 32); o1[0] = f1[0] = w[0] = 1; o1[31] ^= (unsigned char)salt;
      OK(secp256k1_ec_pubkey_create(ctx, &on[0], o1)); OK(secp256k1_ec_pubkey_create(ctx, &off[0], f1)); on[1] = pk; off[1] = pk2; OK(secp256k1_ec_pubkey_create(ctx, &sub, w));
      memcpy(sum, f1, 32); OK(secp256k1_ec_seckey_tweak_add(ctx, sum, w)); OK(secp256k1_whitelist_sign(ctx, &ws, on, off, 2, &sub, o1, sum, 0)); OK(secp256k1_whitelist_verify(ctx, &ws, on, off, 2, &sub)); }
    { secp256k1_bppp_generators *g = secp256k1_bppp_generators_create(ctx, 4); size_t l = 4 * 33; OK(g != NULL); OK(secp256k1_bppp_generators_serialize(ctx, g, buf, &l)); secp256k1_bppp_generators_destroy(ctx, g); }
    OK(secp256k1_tagged_sha256(ctx, out, (const unsigned char *)"tag", 3, msg, 32));
    *ncalls += calls;
    return failed;
}

typedef struct { secp256k1_context *ctx; unsigned salt; int failed; long calls; int reps; } targ;
static void *tmain(void *a) { targ *t = (targ *)a; int i; for (i = 0; i < t->reps; i++) t->failed += batch(t->ctx, t->salt + (unsigned)i, &t->calls); return NULL; }

int main(int argc, char **argv) {
    int nthreads = argc > 1 ? atoi(argv[1]) : 4, reps = argc > 2 ? atoi(argv[2]) : 3, batches = 0, changed = 0, failed = 0, i; long first = -1, off; size_t bytes = 0; long calls = 0;
    secp256k1_context *ctx, *clone; unsigned char seed[32]; pthread_t th[64]; targ ta[64];
    dl_iterate_phdr(phdr_cb, NULL);
    if (nsegs == 0) { printf("GLOBAL segments=0 error=library_segment_not_found\n"); return 2; }
    for (i = 0; i < nsegs; i++) bytes += segs[i].len;
    secp256k1_selftest();
    take_snapshot();
#define CHECKPOINT() do { batches++; off = compare_snapshot(); if (off >= 0) { changed++; if (first < 0) first = off; take_snapshot(); } } while (0)
    ctx = secp256k1_context_create(SECP256K1_CONTEXT_NONE); CHECKPOINT();
    failed += batch(ctx, 0, &calls); CHECKPOINT();
    memset(seed, 42, 32); if (!secp256k1_context_randomize(ctx, seed)) failed++; CHECKPOINT();
    failed += batch(ctx, 1, &calls); CHECKPOINT();
    clone = secp256k1_context_clone(ctx); CHECKPOINT();
    secp256k1_context_set_illegal_callback(clone, cb_count, NULL); secp256k1_context_set_error_callback(clone, cb_count, NULL); CHECKPOINT();
    failed += batch(clone, 2, &calls); CHECKPOINT();
    { size_t sz = secp256k1_context_preallocated_size(SECP256K1_CONTEXT_NONE); void *mem = malloc(sz); secp256k1_context *pc = secp256k1_context_preallocated_create(mem, SECP256K1_CONTEXT_NONE); failed += batch(pc, 3, &calls); secp256k1_context_preallocated_destroy(pc); free(mem); CHECKPOINT(); }
    /* static context: verification only */
    { unsigned char sk[32], msg[32]; secp256k1_pubkey pk; secp256k1_ecdsa_signature sig; memset(sk, 5, 32); memset(msg, 6, 32);
      if (!secp256k1_ec_pubkey_create(ctx, &pk, sk) || !secp256k1_ecdsa_sign(ctx, &sig, msg, sk, NULL, NULL) || !secp256k1_ecdsa_verify(secp256k1_context_static, &sig, msg, &pk)) failed++; CHECKPOINT(); }
    if (nthreads > 64) nthreads = 64;
    for (i = 0; i < nthreads; i++) { ta[i].ctx = ctx; ta[i].salt = 10u + (unsigned)i; ta[i].failed = 0; ta[i].calls = 0; ta[i].reps = reps; pthread_create(&th[i], NULL, tmain, &ta[i]); }
    for (i = 0; i < nthreads; i++) { pthread_join(th[i], NULL); failed += ta[i].failed; calls += ta[i].calls; }
    CHECKPOINT();
    secp256k1_context_destroy(clone); secp256k1_context_destroy(ctx); CHECKPOINT();
    printf("GLOBAL segments=%d bytes=%lu batches=%d changed=%d threads=%d calls=%ld api_failures=%d first_change=%ld\n", nsegs, (unsigned long)bytes, batches, changed, nthreads, calls, failed, first);
    (void)fnv; (void)g_calls;
    return 0;
}
