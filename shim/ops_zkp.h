/* ops over generator / pedersen, rangeproof, surjection, whitelist, bppp */

#define GEN 64
#define COMMIT 64
static void op_sizes(void) {
    R_u64(sizeof(secp256k1_surjectionproof)); R_u64(sizeof(secp256k1_whitelist_signature)); R_u64(sizeof(secp256k1_ecdsa_s2c_opening));
    R_u64(sizeof(secp256k1_context)); R_u64(sizeof(secp256k1_scalar)); R_u64(sizeof(secp256k1_fe));
#ifdef VERIFY
    R_int(1);
#else
    R_int(0);
#endif
}
static void op_generator_h(void) { R_hex((const unsigned char *)secp256k1_generator_h, GEN); }
static void op_generator_parse(void) { unsigned char *in = A_fix(0, 33, 0), *g = O_buf(GEN); int r; if (g_bad) return; CALL(r = secp256k1_generator_parse(ctx, (secp256k1_generator *)g, in)); R_int(r); R_hex(g, GEN); }
static void op_generator_serialize(void) { unsigned char *g = A_fix(0, GEN, 0), *out = O_buf(33); int r; if (g_bad) return; CALL(r = secp256k1_generator_serialize(ctx, out, (secp256k1_generator *)g)); R_int(r); R_hex(out, 33); }
static void op_generator_generate(void) { unsigned char *seed = A_fix(0, 32, 0), *g = O_buf(GEN); int r; if (g_bad) return; CALL(r = secp256k1_generator_generate(ctx, (secp256k1_generator *)g, seed)); R_int(r); R_hex(g, GEN); }
static void op_generator_generate_blinded(void) { unsigned char *seed = A_fix(0, 32, 0), *bl = A_fix(1, 32, 0), *g = O_buf(GEN); int r; if (g_bad) return; CALL(r = secp256k1_generator_generate_blinded(ctx, (secp256k1_generator *)g, seed, bl)); R_int(r); R_hex(g, GEN); }
static void op_commitment_parse(void) { unsigned char *in = A_fix(0, 33, 0), *c = O_buf(COMMIT); int r; if (g_bad) return; CALL(r = secp256k1_pedersen_commitment_parse(ctx, (secp256k1_pedersen_commitment *)c, in)); R_int(r); R_hex(c, COMMIT); }
static void op_commitment_serialize(void) { unsigned char *c = A_fix(0, COMMIT, 0), *out = O_buf(33); int r; if (g_bad) return; CALL(r = secp256k1_pedersen_commitment_serialize(ctx, out, (secp256k1_pedersen_commitment *)c)); R_int(r); R_hex(out, 33); }
static void op_pedersen_commit(void) { unsigned char *bl = A_fix(0, 32, 0); uint64_t v = A_u64(1); unsigned char *g = A_fix(2, GEN, 0), *c = O_buf(COMMIT); int r; if (g_bad) return; CALL(r = secp256k1_pedersen_commit(ctx, (secp256k1_pedersen_commitment *)c, bl, v, (secp256k1_generator *)g)); R_int(r); R_hex(c, COMMIT); }
/* pedersen_blind_sum concat(blinds) n npositive */
static void op_pedersen_blind_sum(void) {
    size_t l; unsigned char *b = A_blob(0, &l); size_t n = (size_t)A_u64(1), np = (size_t)A_u64(2); unsigned char *out = O_buf(32); int r; void **pp;
    if (g_bad) return; if (l != 32 * n) { bad("size", 0); return; }
    pp = ptr_array(b, n, 32);
    CALL(r = secp256k1_pedersen_blind_sum(ctx, out, (const unsigned char * const *)pp, n, np)); R_int(r); R_hex(out, 32);
}
/* pedersen_verify_tally concat(pos) npos concat(neg) nneg */
static void op_pedersen_verify_tally(void) {
    size_t lp, ln; unsigned char *pc = A_blob(0, &lp); size_t np = (size_t)A_u64(1); unsigned char *nc = A_blob(2, &ln); size_t nn = (size_t)A_u64(3); int r; void **pp, **qq;
    if (g_bad) return; if (lp != COMMIT * np || ln != COMMIT * nn) { bad("size", 0); return; }
    pp = ptr_array(pc, np, COMMIT); qq = ptr_array(nc, nn, COMMIT);
    CALL(r = secp256k1_pedersen_verify_tally(ctx, (const secp256k1_pedersen_commitment * const *)pp, np, (const secp256k1_pedersen_commitment * const *)qq, nn)); R_int(r);
}
/* pedersen_bgbs values(8 bytes BE each) concat(generator_blinds) concat(blinding_factors) n_total n_inputs -> ret last_blinding_factor all_factors */
static void op_pedersen_bgbs(void) {
    size_t lv, lg, lb, i; unsigned char *vb = A_blob(0, &lv), *gb = A_blob(1, &lg), *bf = A_blob(2, &lb); size_t nt = (size_t)A_u64(3), ni = (size_t)A_u64(4); int r; void **pg, **pb; uint64_t *vals;
    if (g_bad) return; if (lv != 8 * nt || lg != 32 * nt || lb != 32 * nt) { bad("size", 0); return; }
    vals = (uint64_t *)keep(xmalloc(8 * nt));
    for (i = 0; i < nt; i++) { int k; uint64_t v = 0; for (k = 0; k < 8; k++) v = (v << 8) | vb[8 * i + k]; vals[i] = v; }
    pg = ptr_array(gb, nt, 32); pb = ptr_array(bf, nt, 32);
    CALL(r = secp256k1_pedersen_blind_generator_blind_sum(ctx, vals, (const unsigned char * const *)pg, (unsigned char * const *)pb, nt, ni)); R_int(r);
    R_hex(nt ? bf + 32 * (nt - 1) : NULL, 32); R_hex(bf, lb);
}

/* ---- rangeproof */
/* rangeproof_sign buflen min_value commit blind nonce exp min_bits value message|- extra|- gen -> ret plen proof */
static void op_rangeproof_sign(void) {
    size_t bl = (size_t)A_u64(0), pl = bl, ml, el; uint64_t minv = A_u64(1); unsigned char *c = A_fix(2, COMMIT, 0), *bd = A_fix(3, 32, 0), *nonce = A_fix(4, 32, 0);
    int exp = (int)A_int(5), minbits = (int)A_int(6); uint64_t val = A_u64(7); unsigned char *msg = A_blob(8, &ml), *ex = A_blob(9, &el), *g = A_fix(10, GEN, 0), *out = O_buf(bl); int r;
    if (g_bad) return;
    CALL(r = secp256k1_rangeproof_sign(ctx, out, &pl, minv, (secp256k1_pedersen_commitment *)c, bd, nonce, exp, minbits, val, msg, ml, ex, el, (secp256k1_generator *)g));
    R_int(r); R_u64(pl); R_hex(out, bl);
}
/* rangeproof_verify commit proof extra|- gen -> ret min max */
static void op_rangeproof_verify(void) {
    size_t pl, el; unsigned char *c = A_fix(0, COMMIT, 0), *pf = A_blob(1, &pl), *ex = A_blob(2, &el), *g = A_fix(3, GEN, 0); uint64_t mn = 0x5a5a5a5a5a5a5a5aULL, mx = 0x5a5a5a5a5a5a5a5aULL; int r;
    if (g_bad) return;
    CALL(r = secp256k1_rangeproof_verify(ctx, &mn, &mx, (secp256k1_pedersen_commitment *)c, pf, pl, ex, el, (secp256k1_generator *)g)); R_int(r); R_u64(mn); R_u64(mx);
}
/* rangeproof_rewind flags msgbuflen nonce commit proof extra|- gen -> ret blind value msglen msg min max ; flags: 1 want blind, 2 want value, 4 want message */
static void op_rangeproof_rewind(void) {
    long fl = A_int(0); size_t mbl = (size_t)A_u64(1), ol = mbl, pl, el; unsigned char *nonce = A_fix(2, 32, 0), *c = A_fix(3, COMMIT, 0), *pf = A_blob(4, &pl), *ex = A_blob(5, &el), *g = A_fix(6, GEN, 0);
    unsigned char *bo = (fl & 1) ? O_buf(32) : NULL, *mo = (fl & 4) ? O_buf(mbl) : NULL; uint64_t vo = 0x5a5a5a5a5a5a5a5aULL, mn = 0x5a5a5a5a5a5a5a5aULL, mx = 0x5a5a5a5a5a5a5a5aULL; int r;
    if (g_bad) return;
    CALL(r = secp256k1_rangeproof_rewind(ctx, bo, (fl & 2) ? &vo : NULL, mo, (fl & 4) ? &ol : NULL, nonce, &mn, &mx, (secp256k1_pedersen_commitment *)c, pf, pl, ex, el, (secp256k1_generator *)g));
    R_int(r); R_hex(bo, 32); R_u64(vo); R_u64(ol); R_hex(mo, mbl); R_u64(mn); R_u64(mx);
}
static void op_rangeproof_info(void) {
    size_t pl; unsigned char *pf = A_blob(0, &pl); int exp = -77, mant = -77, r; uint64_t mn = 0x5a5a5a5a5a5a5a5aULL, mx = 0x5a5a5a5a5a5a5a5aULL;
    if (g_bad) return; CALL(r = secp256k1_rangeproof_info(ctx, &exp, &mant, &mn, &mx, pf, pl)); R_int(r); R_int(exp); R_int(mant); R_u64(mn); R_u64(mx);
}
static void op_rangeproof_max_size(void) { uint64_t mv = A_u64(0); int mb = (int)A_int(1); size_t s; CALL(s = secp256k1_rangeproof_max_size(ctx, mv, mb)); R_u64(s); }

/* ---- surjection proofs */
#define SURJ sizeof(secp256k1_surjectionproof)
static void op_surj_parse(void) { size_t l; unsigned char *in = A_blob(0, &l), *p = O_buf(SURJ); int r; if (g_bad) return; CALL(r = secp256k1_surjectionproof_parse(ctx, (secp256k1_surjectionproof *)p, in, l)); R_int(r); R_hex(p, SURJ); }
/* surj_serialize proof buflen -> ret outlen out */
static void op_surj_serialize(void) { unsigned char *p = A_fix(0, SURJ, 0); size_t bl = (size_t)A_u64(1), ol = bl; unsigned char *out = O_buf(bl); int r; if (g_bad) return; CALL(r = secp256k1_surjectionproof_serialize(ctx, out, &ol, (secp256k1_surjectionproof *)p)); R_int(r); R_u64(ol); R_hex(out, bl); }
static void op_surj_counts(void) { unsigned char *p = A_fix(0, SURJ, 0); size_t a, b, c; if (g_bad) return; CALL(a = secp256k1_surjectionproof_n_total_inputs(ctx, (secp256k1_surjectionproof *)p)); CALL(b = secp256k1_surjectionproof_n_used_inputs(ctx, (secp256k1_surjectionproof *)p)); CALL(c = secp256k1_surjectionproof_serialized_size(ctx, (secp256k1_surjectionproof *)p)); R_u64(a); R_u64(b); R_u64(c); }
/* surj_initialize concat(tags32) n n_to_use output_tag32 max_iter seed32 alloc? -> ret input_index proof */
static void op_surj_initialize(void) {
    size_t l; unsigned char *tags = A_blob(0, &l); size_t n = (size_t)A_u64(1), use = (size_t)A_u64(2); unsigned char *ot = A_fix(3, 32, 0); size_t it = (size_t)A_u64(4); unsigned char *seed = A_fix(5, 32, 0); long alloc = A_int(6);
    size_t idx = (size_t)-77; int r;
    if (g_bad) return; if (l != 32 * n) { bad("size", 0); return; }
    if (!alloc) {
        unsigned char *p = O_buf(SURJ);
        CALL(r = secp256k1_surjectionproof_initialize(ctx, (secp256k1_surjectionproof *)p, &idx, (secp256k1_fixed_asset_tag *)tags, n, use, (secp256k1_fixed_asset_tag *)ot, it, seed));
        R_int(r); R_int((long long)idx); R_hex(p, SURJ);
    } else {
        secp256k1_surjectionproof *pp = NULL;
        CALL(r = secp256k1_surjectionproof_allocate_initialized(ctx, &pp, &idx, (secp256k1_fixed_asset_tag *)tags, n, use, (secp256k1_fixed_asset_tag *)ot, it, seed));
        R_int(r); R_int((long long)idx);
        if (pp) { R_hex((unsigned char *)pp, SURJ); CALL(secp256k1_surjectionproof_destroy(pp)); } else R_hex(NULL, 0);
    }
}
/* surj_generate proof concat(eph_inputs) n eph_output input_index in_key out_key -> ret proof */
static void op_surj_generate(void) {
    size_t l; unsigned char *p = A_fix(0, SURJ, 0), *ei = A_blob(1, &l); size_t n = (size_t)A_u64(2); unsigned char *eo = A_fix(3, GEN, 0); size_t idx = (size_t)A_u64(4); unsigned char *ik = A_fix(5, 32, 0), *ok = A_fix(6, 32, 0); int r;
    if (g_bad) return; if (l != GEN * n) { bad("size", 1); return; }
    CALL(r = secp256k1_surjectionproof_generate(ctx, (secp256k1_surjectionproof *)p, (secp256k1_generator *)ei, n, (secp256k1_generator *)eo, idx, ik, ok)); R_int(r); R_hex(p, SURJ);
}
static void op_surj_verify(void) {
    size_t l; unsigned char *p = A_fix(0, SURJ, 0), *ei = A_blob(1, &l); size_t n = (size_t)A_u64(2); unsigned char *eo = A_fix(3, GEN, 0); int r;
    if (g_bad) return; if (l != GEN * n) { bad("size", 1); return; }
    CALL(r = secp256k1_surjectionproof_verify(ctx, (secp256k1_surjectionproof *)p, (secp256k1_generator *)ei, n, (secp256k1_generator *)eo)); R_int(r);
}

/* ---- whitelist */
#define WL sizeof(secp256k1_whitelist_signature)
static void op_wl_parse(void) { size_t l; unsigned char *in = A_blob(0, &l), *s = O_buf(WL); int r; if (g_bad) return; memset(s, 0, WL); CALL(r = secp256k1_whitelist_signature_parse(ctx, (secp256k1_whitelist_signature *)s, in, l)); R_int(r); R_hex(s, WL); }
static void op_wl_serialize(void) { unsigned char *s = A_fix(0, WL, 0); size_t bl = (size_t)A_u64(1), ol = bl; unsigned char *out = O_buf(bl); int r; if (g_bad) return; CALL(r = secp256k1_whitelist_signature_serialize(ctx, out, &ol, (secp256k1_whitelist_signature *)s)); R_int(r); R_u64(ol); R_hex(out, bl); }
static void op_wl_n_keys(void) { unsigned char *s = A_fix(0, WL, 0); size_t n; if (g_bad) return; CALL(n = secp256k1_whitelist_signature_n_keys((secp256k1_whitelist_signature *)s)); R_u64(n); }
/* wl_sign concat(online) concat(offline) n sub online_sk summed_sk index -> ret sig */
static void op_wl_sign(void) {
    size_t lo, lf; unsigned char *on = A_blob(0, &lo), *off = A_blob(1, &lf); size_t n = (size_t)A_u64(2); unsigned char *sub = A_fix(3, PK, 0), *osk = A_fix(4, 32, 0), *ssk = A_fix(5, 32, 0); size_t idx = (size_t)A_u64(6);
    unsigned char *s = O_buf(WL); int r;
    if (g_bad) return; if (lo != PK * n || lf != PK * n) { bad("size", 0); return; }
    memset(s, 0, WL);
    CALL(r = secp256k1_whitelist_sign(ctx, (secp256k1_whitelist_signature *)s, (secp256k1_pubkey *)on, (secp256k1_pubkey *)off, n, (secp256k1_pubkey *)sub, osk, ssk, idx)); R_int(r); R_hex(s, WL);
}
static void op_wl_verify(void) {
    size_t lo, lf; unsigned char *s = A_fix(0, WL, 0), *on = A_blob(1, &lo), *off = A_blob(2, &lf); size_t n = (size_t)A_u64(3); unsigned char *sub = A_fix(4, PK, 0); int r;
    if (g_bad) return; if (lo != PK * n || lf != PK * n) { bad("size", 1); return; }
    CALL(r = secp256k1_whitelist_verify(ctx, (secp256k1_whitelist_signature *)s, (secp256k1_pubkey *)on, (secp256k1_pubkey *)off, n, (secp256k1_pubkey *)sub)); R_int(r);
}
/* wl_verify_n: n_keys is passed as given, independent of the array sizes (n must not exceed the arrays) */
static void op_wl_verify_n(void) {
    size_t lo, lf; unsigned char *s = A_fix(0, WL, 0), *on = A_blob(1, &lo), *off = A_blob(2, &lf); size_t n = (size_t)A_u64(3); unsigned char *sub = A_fix(4, PK, 0); int r;
    if (g_bad) return; if (lo < PK * n || lf < PK * n) { bad("size", 1); return; }
    CALL(r = secp256k1_whitelist_verify(ctx, (secp256k1_whitelist_signature *)s, (secp256k1_pubkey *)on, (secp256k1_pubkey *)off, n, (secp256k1_pubkey *)sub)); R_int(r);
}

/* ---- BP++ */
/* bppp_gens_create n -> nonnull serialized */
static void op_bppp_gens_create(void) {
    size_t n = (size_t)A_u64(0); secp256k1_bppp_generators *g; size_t l = 33 * n; unsigned char *out = O_buf(l); int r = 0;
    CALL(g = secp256k1_bppp_generators_create(ctx, n));
    if (!g) { R_int(0); return; }
    CALL(r = secp256k1_bppp_generators_serialize(ctx, g, out, &l)); CALL(secp256k1_bppp_generators_destroy(ctx, g));
    R_int(1); R_int(r); R_u64(l); R_hex(out, 33 * n);
}
/* bppp_gens_parse data buflen -> nonnull ser_ret outlen reserialized */
static void op_bppp_gens_parse(void) {
    size_t dl; unsigned char *d = A_blob(0, &dl); size_t bl = (size_t)A_u64(1), ol = bl; secp256k1_bppp_generators *g; unsigned char *out = O_buf(bl); int r;
    if (g_bad) return;
    CALL(g = secp256k1_bppp_generators_parse(ctx, d, dl));
    if (!g) { R_int(0); return; }
    CALL(r = secp256k1_bppp_generators_serialize(ctx, g, out, &ol)); CALL(secp256k1_bppp_generators_destroy(ctx, g));
    R_int(1); R_int(r); R_u64(ol); R_hex(out, bl);
}
static void load_scalars(secp256k1_scalar *out, const unsigned char *b, size_t n) { size_t i; for (i = 0; i < n; i++) secp256k1_scalar_set_b32(&out[i], b + 32 * i, NULL); }
/* bppp_norm_prove scratch_size(0 = NULL) prefix rho32 gens_ser n_vec l_vec c_vec -> ret proof commit33 */
static void op_bppp_norm_prove(void) {
    size_t ss = (size_t)A_u64(0), pl, gl, nl, ll, cl; unsigned char *pre = A_blob(1, &pl), *rho32 = A_fix(2, 32, 0), *gs = A_blob(3, &gl), *nb = A_blob(4, &nl), *lb = A_blob(5, &ll), *cb = A_blob(6, &cl);
    secp256k1_scratch_space *scratch = NULL; secp256k1_bppp_generators *gens; secp256k1_scalar rho, mu, *nv, *lv, *cv; secp256k1_ge commit; secp256k1_sha256 tr; unsigned char *proof; size_t prl; int r, rc; size_t nn, ln, rounds, a, b2; unsigned char c33[33];
    if (g_bad) return;
    nn = nl / 32; ln = ll / 32;
    if (cl != ll || nn == 0 || ln == 0 || (nn & (nn - 1)) || (ln & (ln - 1)) || gl != 33 * (nn + ln)) { bad("prover preconditions (caller bug)", 4); return; }
    CALL(gens = secp256k1_bppp_generators_parse(ctx, gs, gl));
    if (!gens) { bad("generator list does not parse", 3); return; }
    if (ss) CALL(scratch = secp256k1_scratch_space_create(ctx, ss));
    nv = (secp256k1_scalar *)keep(xmalloc(sizeof(*nv) * nn)); lv = (secp256k1_scalar *)keep(xmalloc(sizeof(*lv) * ln)); cv = (secp256k1_scalar *)keep(xmalloc(sizeof(*cv) * ln));
    load_scalars(nv, nb, nn); load_scalars(lv, lb, ln); load_scalars(cv, cb, ln);
    secp256k1_scalar_set_b32(&rho, rho32, NULL); secp256k1_scalar_sqr(&mu, &rho);
    a = secp256k1_bppp_log2(nn); b2 = secp256k1_bppp_log2(ln); rounds = a > b2 ? a : b2; prl = 65 * rounds + 64; proof = O_buf(prl);
    CALL(rc = secp256k1_bppp_commit(ctx, scratch, &commit, gens, nv, nn, lv, ln, cv, ln, &mu));
    secp256k1_ge_serialize_ext(c33, &commit);
    secp256k1_sha256_initialize(&tr); secp256k1_sha256_write(secp256k1_get_hash_context(ctx), &tr, pre, pl);
    CALL(r = secp256k1_bppp_rangeproof_norm_product_prove(ctx, scratch, proof, &prl, &tr, &rho, gens->gens, gens->n, nv, nn, lv, ln, cv, ln));
    R_int(r); R_int(rc); R_u64(prl); R_hex(proof, 65 * rounds + 64); R_hex(c33, 33);
    if (scratch) CALL(secp256k1_scratch_space_destroy(ctx, scratch));
    CALL(secp256k1_bppp_generators_destroy(ctx, gens));
}
/* bppp_norm_verify scratch_size prefix rho32 gens_ser g_len c_vec commit33 proof -> ret */
static void op_bppp_norm_verify(void) {
    size_t ss = (size_t)A_u64(0), pl, gl, cl, prl; unsigned char *pre = A_blob(1, &pl), *rho32 = A_fix(2, 32, 0), *gs = A_blob(3, &gl); size_t g_len = (size_t)A_u64(4);
    unsigned char *cb = A_blob(5, &cl), *c33 = A_fix(6, 33, 0), *proof = A_blob(7, &prl);
    secp256k1_scratch_space *scratch = NULL; secp256k1_bppp_generators *gens; secp256k1_scalar rho, *cv; secp256k1_ge commit; secp256k1_sha256 tr; int r; size_t cn;
    if (g_bad) return;
    cn = cl / 32;
    CALL(gens = secp256k1_bppp_generators_parse(ctx, gs, gl));
    if (!gens) { bad("generator list does not parse", 3); return; }
    if (!secp256k1_ge_parse_ext(&commit, c33)) { bad("commit does not parse", 6); CALL(secp256k1_bppp_generators_destroy(ctx, gens)); return; }
    CALL(scratch = secp256k1_scratch_space_create(ctx, ss));
    cv = (secp256k1_scalar *)keep(xmalloc(sizeof(*cv) * (cn ? cn : 1))); load_scalars(cv, cb, cn);
    secp256k1_scalar_set_b32(&rho, rho32, NULL);
    secp256k1_sha256_initialize(&tr); secp256k1_sha256_write(secp256k1_get_hash_context(ctx), &tr, pre, pl);
    CALL(r = secp256k1_bppp_rangeproof_norm_product_verify(ctx, scratch, proof, prl, &tr, &rho, gens, g_len, cv, cn, &commit));
    R_int(r);
    CALL(secp256k1_scratch_space_destroy(ctx, scratch));
    CALL(secp256k1_bppp_generators_destroy(ctx, gens));
}

#undef OPS_ZKP
#define OPS_ZKP \
    { "sizes", op_sizes }, { "generator_h", op_generator_h }, { "generator_parse", op_generator_parse }, { "generator_serialize", op_generator_serialize }, \
    { "generator_generate", op_generator_generate }, { "generator_generate_blinded", op_generator_generate_blinded }, \
    { "commitment_parse", op_commitment_parse }, { "commitment_serialize", op_commitment_serialize }, { "pedersen_commit", op_pedersen_commit }, \
    { "pedersen_blind_sum", op_pedersen_blind_sum }, { "pedersen_verify_tally", op_pedersen_verify_tally }, { "pedersen_bgbs", op_pedersen_bgbs }, \
    { "rangeproof_sign", op_rangeproof_sign }, { "rangeproof_verify", op_rangeproof_verify }, { "rangeproof_rewind", op_rangeproof_rewind }, \
    { "rangeproof_info", op_rangeproof_info }, { "rangeproof_max_size", op_rangeproof_max_size }, \
    { "surj_parse", op_surj_parse }, { "surj_serialize", op_surj_serialize }, { "surj_counts", op_surj_counts }, { "surj_initialize", op_surj_initialize }, \
    { "surj_generate", op_surj_generate }, { "surj_verify", op_surj_verify }, \
    { "wl_parse", op_wl_parse }, { "wl_serialize", op_wl_serialize }, { "wl_n_keys", op_wl_n_keys }, { "wl_sign", op_wl_sign }, { "wl_verify", op_wl_verify }, { "wl_verify_n", op_wl_verify_n }, \
    { "bppp_gens_create", op_bppp_gens_create }, { "bppp_gens_parse", op_bppp_gens_parse }, { "bppp_norm_prove", op_bppp_norm_prove }, { "bppp_norm_verify", op_bppp_norm_verify },
