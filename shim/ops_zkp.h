/* zkp ops */
#define OPS_ZKP
