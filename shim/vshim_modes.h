/* extra execution modes of the shim: static-context child, threads mode */
#include <sys/wait.h>
#include <pthread.h>
#include <sched.h>
#include <time.h>

/* fork_static <op> <args>: runs the op with ctx = secp256k1_context_static (default callbacks: they print and abort) in a child.
 * reply: the child's normal reply, or "ok ABORTED <illegal|error|other> sig=<n>" */
static void fork_static(char *line) {
    int pfd[2], efd[2]; pid_t pid; char *buf = NULL; size_t len = 0, cap = 0; char ebuf[512]; ssize_t k; int status; size_t el = 0;
    fflush(stdout);
    if (pipe(pfd) || pipe(efd)) { reply("ERR pipe%s", "", 0, 0, 0, 0); return; }
    pid = fork();
    if (pid == 0) {
        close(pfd[0]); close(efd[0]); dup2(efd[1], 2);
        alarm(60);
        vshim_exec_line(line, 1);
        if (write(pfd[1], g_reply, strlen(g_reply)) < 0) {}
        _exit(0);
    }
    close(pfd[1]); close(efd[1]);
    for (;;) {
        if (len + 4096 > cap) { cap = (cap + 4096) * 2; buf = (char *)realloc(buf, cap); }
        k = read(pfd[0], buf + len, 4095);
        if (k <= 0) break;
        len += (size_t)k;
    }
    while ((k = read(efd[0], ebuf + el, sizeof(ebuf) - 1 - el)) > 0) { el += (size_t)k; if (el >= sizeof(ebuf) - 1) break; }
    ebuf[el] = 0;
    { char drain[256]; while (read(efd[0], drain, sizeof drain) > 0) {} }
    close(pfd[0]); close(efd[0]);
    waitpid(pid, &status, 0);
    if (buf) buf[len] = 0;
    if (WIFEXITED(status) && WEXITSTATUS(status) == 0 && len > 0) {
        if (len + 8 > g_replycap) { g_replycap = len + 64; g_reply = (char *)realloc(g_reply, g_replycap); }
        memcpy(g_reply, buf, len + 1);
    } else {
        const char *kind = strstr(ebuf, "illegal argument") ? "illegal" : (strstr(ebuf, "internal consistency") || strstr(ebuf, "Internal") ? "error" : "other");
        reply("ok ABORTED %s sig=%ld | ill=0 err=0 m=0 live=0", kind, WIFSIGNALED(status) ? (long)WTERMSIG(status) : -(long)WEXITSTATUS(status), 0, 0, 0);
    }
    free(buf);
}

/* ---------------------------------------------------------------- threads mode
 * vshim --threads N seed yield_mode script_file [setup_file]
 * setup lines are executed first (single-threaded; context ops allowed); script lines must be const-context ops.
 * Every thread executes every script line (in a per-thread seed-permuted order) on the shared context table and
 * compares the reply with the golden reply computed single-threaded before the threads start. */
typedef struct { double t0, t1; int thread; int line; } call_rec;
static char **thr_lines; static char **thr_golden; static int thr_nlines; static int thr_n; static unsigned thr_seed; static int thr_yield;
static pthread_barrier_t thr_barrier;
static call_rec *thr_recs;    /* [thread][line] */
static int *thr_mismatch;     /* per thread */
static char thr_first_mismatch[600];
static pthread_mutex_t thr_mu = PTHREAD_MUTEX_INITIALIZER;
static double now_s(void) { struct timespec ts; clock_gettime(CLOCK_MONOTONIC, &ts); return ts.tv_sec + ts.tv_nsec * 1e-9; }
static unsigned xs(unsigned *s) { unsigned x = *s; x ^= x << 13; x ^= x >> 17; x ^= x << 5; *s = x ? x : 1; return *s; }

static void *thr_body(void *arg) {
    int me = (int)(size_t)arg; unsigned s = thr_seed * 2654435761u + (unsigned)me * 40503u + 1u; int *perm = (int *)malloc(sizeof(int) * (size_t)thr_nlines); int i;
    for (i = 0; i < thr_nlines; i++) perm[i] = i;
    for (i = thr_nlines - 1; i > 0; i--) { int j = (int)(xs(&s) % (unsigned)(i + 1)); int t = perm[i]; perm[i] = perm[j]; perm[j] = t; }
    pthread_barrier_wait(&thr_barrier);
    for (i = 0; i < thr_nlines; i++) {
        int li = perm[i]; char *copy = strdup(thr_lines[li]); call_rec *r = &thr_recs[(size_t)me * (size_t)thr_nlines + (size_t)li];
        r->thread = me; r->line = li; r->t0 = now_s();
        vshim_exec_line(copy, 0);
        r->t1 = now_s();
        if (strcmp(g_reply, thr_golden[li]) != 0) {
            thr_mismatch[me]++;
            pthread_mutex_lock(&thr_mu);
            if (!thr_first_mismatch[0]) snprintf(thr_first_mismatch, sizeof thr_first_mismatch, "line %d thread %d: %.200s != %.200s", li, me, g_reply, thr_golden[li]);
            pthread_mutex_unlock(&thr_mu);
        }
        free(copy);
        if (thr_yield == 1) sched_yield();
        else if (thr_yield == 2 && (xs(&s) & 7) == 0) { struct timespec ts; ts.tv_sec = 0; ts.tv_nsec = (long)(xs(&s) % 20000); nanosleep(&ts, NULL); }
    }
    free(perm);
    return NULL;
}
static int cmp_rec(const void *a, const void *b) { double x = ((const call_rec *)a)->t0, y = ((const call_rec *)b)->t0; return (x > y) - (x < y); }

static char **read_lines(const char *path, int *n) {
    FILE *f = fopen(path, "r"); char *line = NULL; size_t cap = 0; ssize_t k; char **out = NULL; int cnt = 0, c2 = 0;
    *n = 0; if (!f) return NULL;
    while ((k = getline(&line, &cap, f)) > 0) {
        if (k <= 1) continue;
        if (cnt == c2) { c2 = c2 * 2 + 64; out = (char **)realloc(out, sizeof(char *) * (size_t)c2); }
        out[cnt++] = strdup(line);
    }
    free(line); fclose(f); *n = cnt; return out;
}

static int threads_main(int argc, char **argv) {
    int i, nset = 0; char **setup = NULL; pthread_t *th; long overlaps = 0, total_mis = 0; size_t nrec, a;
    if (argc < 6) { fprintf(stderr, "usage: --threads N seed yield script [setup]\n"); return 2; }
    thr_n = atoi(argv[2]); thr_seed = (unsigned)strtoul(argv[3], NULL, 10); thr_yield = atoi(argv[4]);
    thr_lines = read_lines(argv[5], &thr_nlines);
    if (argc > 6) setup = read_lines(argv[6], &nset);
    if (!thr_lines || thr_nlines == 0 || thr_n < 1) { fprintf(stderr, "bad arguments\n"); return 2; }
    for (i = 0; i < nset; i++) { vshim_exec_line(setup[i], 0); if (strncmp(g_reply, "ok", 2)) { printf("SETUPFAIL %s\n", g_reply); return 2; } }
    thr_golden = (char **)malloc(sizeof(char *) * (size_t)thr_nlines);
    for (i = 0; i < thr_nlines; i++) { char *c = strdup(thr_lines[i]); vshim_exec_line(c, 0); thr_golden[i] = strdup(g_reply); free(c); if (strncmp(g_reply, "ok", 2)) { printf("SCRIPTFAIL line %d: %s\n", i, g_reply); return 2; } }
    th = (pthread_t *)malloc(sizeof(pthread_t) * (size_t)thr_n); thr_mismatch = (int *)calloc((size_t)thr_n, sizeof(int));
    nrec = (size_t)thr_n * (size_t)thr_nlines; thr_recs = (call_rec *)calloc(nrec, sizeof(call_rec));
    pthread_barrier_init(&thr_barrier, NULL, (unsigned)thr_n);
    for (i = 0; i < thr_n; i++) pthread_create(&th[i], NULL, thr_body, (void *)(size_t)i);
    for (i = 0; i < thr_n; i++) pthread_join(th[i], NULL);
    for (i = 0; i < thr_n; i++) total_mis += thr_mismatch[i];
    /* count pairs of calls on different threads whose [t0,t1] intervals overlap: sweep over start times */
    qsort(thr_recs, nrec, sizeof(call_rec), cmp_rec);
    for (a = 0; a < nrec; a++) {
        size_t b;
        for (b = a + 1; b < nrec && thr_recs[b].t0 < thr_recs[a].t1; b++) if (thr_recs[b].thread != thr_recs[a].thread) overlaps++;
    }
    printf("THREADS n=%d lines=%d calls=%lu mismatches=%ld overlaps=%ld first=%s\n", thr_n, thr_nlines, (unsigned long)nrec, total_mis, overlaps, thr_first_mismatch[0] ? thr_first_mismatch : "-");
    return 0;
}
