/* ops over ecdh, ellswift, ecdsa_s2c, ecdsa_adaptor, musig, schnorrsig_halfagg */

/* ---- ECDH */
static int ecdh_hash_fail(unsigned char *o, const unsigned char *x, const unsigned char *y, void *d) { (void)o; (void)x; (void)y; (void)d; return 0; }
static int ecdh_hash_xy(unsigned char *o, const unsigned char *x, const unsigned char *y, void *d) { (void)d; memcpy(o, x, 32); memcpy(o + 32, y, 32); return 1; }
/* ecdh pubkey seckey mode [data|-] ; mode 0: NULL (default), 1: sha256 explicit, 2: failing callback, 3: raw x||y (64 bytes); data: passed through as the callback's data pointer (all four ignore it) */
static void op_ecdh(void) {
    unsigned char *pk = A_fix(0, PK, 0), *sk = A_fix(1, 32, 0); long mode = A_int(2); unsigned char *out = O_buf(mode == 3 ? 64 : 32); int r;
    unsigned char *dat = A_isnull(3) ? NULL : A_blob(3, NULL);
    secp256k1_ecdh_hash_function fp = NULL;
    if (g_bad) return;
    if (mode == 1) fp = secp256k1_ecdh_hash_function_sha256; else if (mode == 2) fp = ecdh_hash_fail; else if (mode == 3) fp = ecdh_hash_xy;
    if (g_alias && mode != 3) out = sk;      /* in place: the shared secret overwrites the secret key buffer */
    CALL(r = secp256k1_ecdh(ctx, out, (secp256k1_pubkey *)pk, sk, fp, dat)); R_int(r); R_hex(out, mode == 3 ? 64 : 32);
}

/* ---- ElligatorSwift */
static int xdh_hash_fail(unsigned char *o, const unsigned char *x, const unsigned char *a, const unsigned char *b, void *d) { (void)o; (void)x; (void)a; (void)b; (void)d; return 0; }
static int xdh_hash_raw(unsigned char *o, const unsigned char *x, const unsigned char *a, const unsigned char *b, void *d) { (void)a; (void)b; (void)d; memcpy(o, x, 32); return 1; }
static void op_ellswift_encode(void) { unsigned char *pk = A_fix(0, PK, 0), *rnd = A_fix(1, 32, 0), *out = O_buf(64); int r; if (g_bad) return; CALL(r = secp256k1_ellswift_encode(ctx, out, (secp256k1_pubkey *)pk, rnd)); R_int(r); R_hex(out, 64); }
static void op_ellswift_decode(void) { unsigned char *e = A_fix(0, 64, 0), *pk = O_buf(PK); int r; if (g_bad) return; CALL(r = secp256k1_ellswift_decode(ctx, (secp256k1_pubkey *)pk, e)); R_int(r); R_hex(pk, PK); }
static void op_ellswift_create(void) { unsigned char *sk = A_fix(0, 32, 0), *aux = A_fix(1, 32, 1), *out = O_buf(64); int r; if (g_bad) return; CALL(r = secp256k1_ellswift_create(ctx, out, sk, aux)); R_int(r); R_hex(out, 64); }
/* ellswift_xdh ell_a ell_b seckey party mode prefix64|- ; mode 0: bip324, 1: prefix (data = 64 bytes), 2: failing, 3: raw x */
static void op_ellswift_xdh(void) {
    unsigned char *a = A_fix(0, 64, 0), *b = A_fix(1, 64, 0), *sk = A_fix(2, 32, 0); int party = (int)A_int(3); long mode = A_int(4);
    unsigned char *pre = A_fix(5, 64, 1), *out = O_buf(32); int r; secp256k1_ellswift_xdh_hash_function fp = secp256k1_ellswift_xdh_hash_function_bip324;
    if (g_bad) return;
    if (mode == 1) fp = secp256k1_ellswift_xdh_hash_function_prefix; else if (mode == 2) fp = xdh_hash_fail; else if (mode == 3) fp = xdh_hash_raw;
    if (g_alias) out = sk;
    CALL(r = secp256k1_ellswift_xdh(ctx, out, a, b, sk, party, fp, pre)); R_int(r); R_hex(out, 32);
}

/* ---- sign-to-contract / anti-exfil */
#define OPENING sizeof(secp256k1_ecdsa_s2c_opening)
static void op_s2c_opening_parse(void) { unsigned char *in = A_fix(0, 33, 0), *o = O_buf(OPENING); int r; if (g_bad) return; CALL(r = secp256k1_ecdsa_s2c_opening_parse(ctx, (secp256k1_ecdsa_s2c_opening *)o, in)); R_int(r); R_hex(o, OPENING); }
static void op_s2c_opening_serialize(void) { unsigned char *o = A_fix(0, OPENING, 0), *out = O_buf(33); int r; if (g_bad) return; CALL(r = secp256k1_ecdsa_s2c_opening_serialize(ctx, out, (secp256k1_ecdsa_s2c_opening *)o)); R_int(r); R_hex(out, 33); }
/* s2c_sign msg seckey data want_opening -> ret sig opening */
static void op_s2c_sign(void) {
    unsigned char *m = A_fix(0, 32, 0), *sk = A_fix(1, 32, 0), *d = A_fix(2, 32, 0); long wo = A_int(3); unsigned char *sig = O_buf(SIG), *op = wo ? O_buf(OPENING) : NULL; int r;
    if (g_bad) return; CALL(r = secp256k1_ecdsa_s2c_sign(ctx, (secp256k1_ecdsa_signature *)sig, (secp256k1_ecdsa_s2c_opening *)op, m, sk, d)); R_int(r); R_hex(sig, SIG); R_hex(op, OPENING);
}
static void op_s2c_verify_commit(void) { unsigned char *sig = A_fix(0, SIG, 0), *d = A_fix(1, 32, 0), *o = A_fix(2, OPENING, 0); int r; if (g_bad) return; CALL(r = secp256k1_ecdsa_s2c_verify_commit(ctx, (secp256k1_ecdsa_signature *)sig, d, (secp256k1_ecdsa_s2c_opening *)o)); R_int(r); }
static void op_ae_host_commit(void) { unsigned char *rnd = A_fix(0, 32, 0), *out = O_buf(32); int r; if (g_bad) return; CALL(r = secp256k1_ecdsa_anti_exfil_host_commit(ctx, out, rnd)); R_int(r); R_hex(out, 32); }
static void op_ae_signer_commit(void) { unsigned char *m = A_fix(0, 32, 0), *sk = A_fix(1, 32, 0), *c = A_fix(2, 32, 0), *o = O_buf(OPENING); int r; if (g_bad) return; CALL(r = secp256k1_ecdsa_anti_exfil_signer_commit(ctx, (secp256k1_ecdsa_s2c_opening *)o, m, sk, c)); R_int(r); R_hex(o, OPENING); }
static void op_ae_sign(void) { unsigned char *m = A_fix(0, 32, 0), *sk = A_fix(1, 32, 0), *h = A_fix(2, 32, 0), *sig = O_buf(SIG); int r; if (g_bad) return; CALL(r = secp256k1_anti_exfil_sign(ctx, (secp256k1_ecdsa_signature *)sig, m, sk, h)); R_int(r); R_hex(sig, SIG); }
static void op_ae_host_verify(void) { unsigned char *sig = A_fix(0, SIG, 0), *m = A_fix(1, 32, 0), *pk = A_fix(2, PK, 0), *h = A_fix(3, 32, 0), *o = A_fix(4, OPENING, 0); int r; if (g_bad) return; CALL(r = secp256k1_anti_exfil_host_verify(ctx, (secp256k1_ecdsa_signature *)sig, m, (secp256k1_pubkey *)pk, h, (secp256k1_ecdsa_s2c_opening *)o)); R_int(r); }

/* ---- ECDSA adaptor */
static int anonce_fail(unsigned char *n, const unsigned char *m, const unsigned char *k, const unsigned char *pk, const unsigned char *a, size_t al, void *d) { (void)n; (void)m; (void)k; (void)pk; (void)a; (void)al; (void)d; return 0; }
static int anonce_zero(unsigned char *n, const unsigned char *m, const unsigned char *k, const unsigned char *pk, const unsigned char *a, size_t al, void *d) { (void)m; (void)k; (void)pk; (void)a; (void)al; (void)d; memset(n, 0, 32); return 1; }
/* scripted nonce function: separate 32-byte answers for the main ("ECDSAadaptor/non") and the "DLEQ" nonce request; absent = default function */
static TLS struct { int have_main, have_dleq; unsigned char main32[32], dleq32[32]; } g_ascript;
static int anonce_script(unsigned char *n, const unsigned char *m, const unsigned char *k, const unsigned char *pk, const unsigned char *a, size_t al, void *d) {
    int is_dleq = (al >= 4 && memcmp(a, "DLEQ", 4) == 0);
    if (is_dleq && g_ascript.have_dleq) { memcpy(n, g_ascript.dleq32, 32); return 1; }
    if (!is_dleq && g_ascript.have_main) { memcpy(n, g_ascript.main32, 32); return 1; }
    return secp256k1_nonce_function_ecdsa_adaptor(n, m, k, pk, a, al, d);
}
/* adaptor_encrypt seckey enckey msg mode ndata|- [main32|- dleq32|-] ; mode 0: NULL fp, 1: default explicit, 2: failing, 3: zero nonce, 4: scripted */
static void op_adaptor_encrypt(void) {
    unsigned char *sk = A_fix(0, 32, 0), *ek = A_fix(1, PK, 0), *m = A_fix(2, 32, 0); long mode = A_int(3); unsigned char *nd = A_fix(4, 32, 1), *out = O_buf(162); int r;
    secp256k1_nonce_function_hardened_ecdsa_adaptor fp = NULL;
    if (g_bad) return;
    if (mode == 1) fp = secp256k1_nonce_function_ecdsa_adaptor; else if (mode == 2) fp = anonce_fail; else if (mode == 3) fp = anonce_zero;
    else if (mode == 4) {
        unsigned char *mn = A_fix(5, 32, 1), *dn = A_fix(6, 32, 1);
        if (g_bad) return;
        g_ascript.have_main = mn != NULL; g_ascript.have_dleq = dn != NULL;
        if (mn) memcpy(g_ascript.main32, mn, 32);
        if (dn) memcpy(g_ascript.dleq32, dn, 32);
        fp = anonce_script;
    }
    CALL(r = secp256k1_ecdsa_adaptor_encrypt(ctx, out, sk, (secp256k1_pubkey *)ek, m, fp, nd)); R_int(r); R_hex(out, 162);
}
static void op_adaptor_verify(void) { unsigned char *a = A_fix(0, 162, 0), *pk = A_fix(1, PK, 0), *m = A_fix(2, 32, 0), *ek = A_fix(3, PK, 0); int r; if (g_bad) return; CALL(r = secp256k1_ecdsa_adaptor_verify(ctx, a, (secp256k1_pubkey *)pk, m, (secp256k1_pubkey *)ek)); R_int(r); }
static void op_adaptor_decrypt(void) { unsigned char *dk = A_fix(0, 32, 0), *a = A_fix(1, 162, 0), *sig = O_buf(SIG); int r; if (g_bad) return; CALL(r = secp256k1_ecdsa_adaptor_decrypt(ctx, (secp256k1_ecdsa_signature *)sig, dk, a)); R_int(r); R_hex(sig, SIG); }
static void op_adaptor_recover(void) { unsigned char *sig = A_fix(0, SIG, 0), *a = A_fix(1, 162, 0), *ek = A_fix(2, PK, 0), *out = O_buf(32); int r; if (g_bad) return; CALL(r = secp256k1_ecdsa_adaptor_recover(ctx, out, (secp256k1_ecdsa_signature *)sig, a, (secp256k1_pubkey *)ek)); R_int(r); R_hex(out, 32); }

/* ---- MuSig2 */
#define KAC 197
#define NONCE 132
#define SESS 133
#define PSIG 36
static void op_musig_pubnonce_parse(void) { unsigned char *in = A_fix(0, 66, 0), *o = O_buf(NONCE); int r; if (g_bad) return; CALL(r = secp256k1_musig_pubnonce_parse(ctx, (secp256k1_musig_pubnonce *)o, in)); R_int(r); R_hex(o, NONCE); }
static void op_musig_pubnonce_serialize(void) { unsigned char *o = A_fix(0, NONCE, 0), *out = O_buf(66); int r; if (g_bad) return; CALL(r = secp256k1_musig_pubnonce_serialize(ctx, out, (secp256k1_musig_pubnonce *)o)); R_int(r); R_hex(out, 66); }
static void op_musig_aggnonce_parse(void) { unsigned char *in = A_fix(0, 66, 0), *o = O_buf(NONCE); int r; if (g_bad) return; CALL(r = secp256k1_musig_aggnonce_parse(ctx, (secp256k1_musig_aggnonce *)o, in)); R_int(r); R_hex(o, NONCE); }
static void op_musig_aggnonce_serialize(void) { unsigned char *o = A_fix(0, NONCE, 0), *out = O_buf(66); int r; if (g_bad) return; CALL(r = secp256k1_musig_aggnonce_serialize(ctx, out, (secp256k1_musig_aggnonce *)o)); R_int(r); R_hex(out, 66); }
static void op_musig_partial_sig_parse(void) { unsigned char *in = A_fix(0, 32, 0), *o = O_buf(PSIG); int r; if (g_bad) return; CALL(r = secp256k1_musig_partial_sig_parse(ctx, (secp256k1_musig_partial_sig *)o, in)); R_int(r); R_hex(o, PSIG); }
static void op_musig_partial_sig_serialize(void) { unsigned char *o = A_fix(0, PSIG, 0), *out = O_buf(32); int r; if (g_bad) return; CALL(r = secp256k1_musig_partial_sig_serialize(ctx, out, (secp256k1_musig_partial_sig *)o)); R_int(r); R_hex(out, 32); }
/* musig_pubkey_agg concat(pks) n want_aggpk want_cache -> ret aggpk(xonly obj) cache */
static void op_musig_pubkey_agg(void) {
    size_t l; unsigned char *a = A_blob(0, &l); size_t n = (size_t)A_u64(1); long wa = A_int(2), wc = A_int(3);
    unsigned char *agg = wa ? O_buf(PK) : NULL, *kac = wc ? O_buf(KAC) : NULL; int r; void **pp;
    if (g_bad) return; if (l != n * PK) { bad("size", 0); return; }
    pp = ptr_array(a, n, PK);
    CALL(r = secp256k1_musig_pubkey_agg(ctx, (secp256k1_xonly_pubkey *)agg, (secp256k1_musig_keyagg_cache *)kac, (const secp256k1_pubkey * const *)pp, n)); R_int(r); R_hex(agg, PK); R_hex(kac, KAC);
}
static void op_musig_pubkey_get(void) { unsigned char *kac = A_fix(0, KAC, 0), *pk = O_buf(PK); int r; if (g_bad) return; CALL(r = secp256k1_musig_pubkey_get(ctx, (secp256k1_pubkey *)pk, (secp256k1_musig_keyagg_cache *)kac)); R_int(r); R_hex(pk, PK); }
/* musig_tweak_add cache tweak xonly? want_out -> ret out cache */
static void op_musig_tweak_add(void) {
    unsigned char *kac = A_fix(0, KAC, 0), *t = A_fix(1, 32, 0); long xo = A_int(2), wo = A_int(3); unsigned char *out = wo ? O_buf(PK) : NULL; int r;
    if (g_bad) return;
    if (xo) CALL(r = secp256k1_musig_pubkey_xonly_tweak_add(ctx, (secp256k1_pubkey *)out, (secp256k1_musig_keyagg_cache *)kac, t));
    else CALL(r = secp256k1_musig_pubkey_ec_tweak_add(ctx, (secp256k1_pubkey *)out, (secp256k1_musig_keyagg_cache *)kac, t));
    R_int(r); R_hex(out, PK); R_hex(kac, KAC);
}
/* decoded view of a keyagg cache: ret pk33 second_pk33|- pks_hash tweak parity_acc */
static void op_musig_cache_view(void) {
    unsigned char *kac = A_fix(0, KAC, 0); secp256k1_keyagg_cache_internal ci; int r; unsigned char b[33], t[32];
    if (g_bad) return;
    CALL(r = secp256k1_keyagg_cache_load(ctx, &ci, (secp256k1_musig_keyagg_cache *)kac)); R_int(r);
    if (!r) return;
    secp256k1_ge_serialize_ext(b, &ci.pk); R_hex(b, 33);
    secp256k1_ge_serialize_ext(b, &ci.second_pk); R_hex(b, 33);
    R_hex(ci.pks_hash, 32); secp256k1_scalar_get_b32(t, &ci.tweak); R_hex(t, 32); R_int(ci.parity_acc);
}
/* decoded view of a session: ret fin_nonce_parity fin_nonce noncecoef challenge s_part */
static void op_musig_session_view(void) {
    unsigned char *s = A_fix(0, SESS, 0); secp256k1_musig_session_internal si; int r; unsigned char t[32];
    if (g_bad) return;
    CALL(r = secp256k1_musig_session_load(ctx, &si, (secp256k1_musig_session *)s)); R_int(r);
    if (!r) return;
    R_int(si.fin_nonce_parity); R_hex(si.fin_nonce, 32);
    secp256k1_scalar_get_b32(t, &si.noncecoef); R_hex(t, 32); secp256k1_scalar_get_b32(t, &si.challenge); R_hex(t, 32); secp256k1_scalar_get_b32(t, &si.s_part); R_hex(t, 32);
}
/* decoded view of a secnonce (for the single-use ledger): ret k1 k2 pk33 ; ret 0 if magic/zero check fails (no callback raised here) */
static void op_musig_secnonce_view(void) {
    unsigned char *sn = A_fix(0, NONCE, 0); secp256k1_scalar k[2]; secp256k1_ge pk; unsigned char t[33]; static const unsigned char zero[NONCE] = {0};
    if (g_bad) return;
    if (memcmp(sn, zero, NONCE) == 0 || memcmp(sn, secp256k1_musig_secnonce_magic, 4) != 0) { R_int(0); return; }
    secp256k1_scalar_set_b32(&k[0], sn + 4, NULL); secp256k1_scalar_set_b32(&k[1], sn + 36, NULL);
    R_int(1); secp256k1_scalar_get_b32(t, &k[0]); R_hex(t, 32); secp256k1_scalar_get_b32(t, &k[1]); R_hex(t, 32);
    secp256k1_ge_from_bytes(&pk, sn + 68); secp256k1_ge_serialize_ext(t, &pk); R_hex(t, 33);
}
/* musig_nonce_gen secnonce_in|- want_pubnonce secrand|- seckey|- pubkey|- msg|- cache|- extra|-  -> ret secnonce pubnonce secrand_after */
static void op_musig_nonce_gen(void) {
    unsigned char *sn_in = A_fix(0, NONCE, 1); long wp = A_int(1); unsigned char *rnd = A_fix(2, 32, 1), *sk = A_fix(3, 32, 1), *pk = A_fix(4, PK, 1), *m = A_fix(5, 32, 1), *kac = A_fix(6, KAC, 1), *ex = A_fix(7, 32, 1);
    unsigned char *sn = O_buf(NONCE), *pn = wp ? O_buf(NONCE) : NULL; int r;
    if (g_bad) return;
    if (sn_in) memcpy(sn, sn_in, NONCE);
    CALL(r = secp256k1_musig_nonce_gen(ctx, (secp256k1_musig_secnonce *)sn, (secp256k1_musig_pubnonce *)pn, rnd, sk, (secp256k1_pubkey *)pk, m, (secp256k1_musig_keyagg_cache *)kac, ex));
    R_int(r); R_hex(sn, NONCE); R_hex(pn, NONCE); R_hex(rnd, 32);
}
/* musig_nonce_gen_counter secnonce_in|- want_pubnonce counter keypair|- msg|- cache|- extra|- -> ret secnonce pubnonce */
static void op_musig_nonce_gen_counter(void) {
    unsigned char *sn_in = A_fix(0, NONCE, 1); long wp = A_int(1); uint64_t cnt = A_u64(2); unsigned char *kp = A_fix(3, KP, 1), *m = A_fix(4, 32, 1), *kac = A_fix(5, KAC, 1), *ex = A_fix(6, 32, 1);
    unsigned char *sn = O_buf(NONCE), *pn = wp ? O_buf(NONCE) : NULL; int r;
    if (g_bad) return;
    if (sn_in) memcpy(sn, sn_in, NONCE);
    CALL(r = secp256k1_musig_nonce_gen_counter(ctx, (secp256k1_musig_secnonce *)sn, (secp256k1_musig_pubnonce *)pn, cnt, (secp256k1_keypair *)kp, m, (secp256k1_musig_keyagg_cache *)kac, ex));
    R_int(r); R_hex(sn, NONCE); R_hex(pn, NONCE);
}
static void op_musig_nonce_agg(void) {
    size_t l; unsigned char *a = A_blob(0, &l); size_t n = (size_t)A_u64(1); unsigned char *out = O_buf(NONCE); int r; void **pp;
    if (g_bad) return; if (l != n * NONCE) { bad("size", 0); return; }
    pp = ptr_array(a, n, NONCE);
    CALL(r = secp256k1_musig_nonce_agg(ctx, (secp256k1_musig_aggnonce *)out, (const secp256k1_musig_pubnonce * const *)pp, n)); R_int(r); R_hex(out, NONCE);
}
/* musig_nonce_process aggnonce msg cache adaptor|- */
static void op_musig_nonce_process(void) {
    unsigned char *an = A_fix(0, NONCE, 0), *m = A_fix(1, 32, 0), *kac = A_fix(2, KAC, 0), *ad = A_fix(3, PK, 1), *s = O_buf(SESS); int r;
    if (g_bad) return;
    CALL(r = secp256k1_musig_nonce_process(ctx, (secp256k1_musig_session *)s, (secp256k1_musig_aggnonce *)an, m, (secp256k1_musig_keyagg_cache *)kac, (secp256k1_pubkey *)ad)); R_int(r); R_hex(s, SESS);
}
/* musig_partial_sign want_out secnonce|- keypair|- cache|- session|- -> ret psig secnonce_after */
static void op_musig_partial_sign(void) {
    long wo = A_int(0); unsigned char *sn = A_fix(1, NONCE, 1), *kp = A_fix(2, KP, 1), *kac = A_fix(3, KAC, 1), *s = A_fix(4, SESS, 1), *out = wo ? O_buf(PSIG) : NULL; int r;
    if (g_bad) return;
    CALL(r = secp256k1_musig_partial_sign(ctx, (secp256k1_musig_partial_sig *)out, (secp256k1_musig_secnonce *)sn, (secp256k1_keypair *)kp, (secp256k1_musig_keyagg_cache *)kac, (secp256k1_musig_session *)s));
    R_int(r); R_hex(out, PSIG); R_hex(sn, NONCE);
}
static void op_musig_partial_sig_verify(void) {
    unsigned char *ps = A_fix(0, PSIG, 0), *pn = A_fix(1, NONCE, 0), *pk = A_fix(2, PK, 0), *kac = A_fix(3, KAC, 0), *s = A_fix(4, SESS, 0); int r;
    if (g_bad) return;
    CALL(r = secp256k1_musig_partial_sig_verify(ctx, (secp256k1_musig_partial_sig *)ps, (secp256k1_musig_pubnonce *)pn, (secp256k1_pubkey *)pk, (secp256k1_musig_keyagg_cache *)kac, (secp256k1_musig_session *)s)); R_int(r);
}
static void op_musig_partial_sig_agg(void) {
    unsigned char *s = A_fix(0, SESS, 0); size_t l; unsigned char *a = A_blob(1, &l); size_t n = (size_t)A_u64(2); unsigned char *out = O_buf(64); int r; void **pp;
    if (g_bad) return; if (l != n * PSIG) { bad("size", 1); return; }
    pp = ptr_array(a, n, PSIG);
    CALL(r = secp256k1_musig_partial_sig_agg(ctx, out, (secp256k1_musig_session *)s, (const secp256k1_musig_partial_sig * const *)pp, n)); R_int(r); R_hex(out, 64);
}
static void op_musig_nonce_parity(void) { unsigned char *s = A_fix(0, SESS, 0); int par = -77, r; if (g_bad) return; CALL(r = secp256k1_musig_nonce_parity(ctx, &par, (secp256k1_musig_session *)s)); R_int(r); R_int(par); }
static void op_musig_adapt(void) { unsigned char *pre = A_fix(0, 64, 0), *t = A_fix(1, 32, 0); int par = (int)A_int(2); unsigned char *out = O_buf(64); int r; if (g_bad) return; CALL(r = secp256k1_musig_adapt(ctx, out, pre, t, par)); R_int(r); R_hex(out, 64); }
static void op_musig_extract_adaptor(void) { unsigned char *sig = A_fix(0, 64, 0), *pre = A_fix(1, 64, 0); int par = (int)A_int(2); unsigned char *out = O_buf(32); int r; if (g_bad) return; CALL(r = secp256k1_musig_extract_adaptor(ctx, out, sig, pre, par)); R_int(r); R_hex(out, 32); }

/* ---- half-aggregation */
/* halfagg_aggregate pubkeys(xonly objs) msgs sigs n buflen -> ret outlen agg */
static void op_halfagg_aggregate(void) {
    size_t lp, lm, ls; unsigned char *pks = A_blob(0, &lp), *ms = A_blob(1, &lm), *sg = A_blob(2, &ls); size_t n = (size_t)A_u64(3), bl = (size_t)A_u64(4), ol = bl;
    unsigned char *out = O_buf(bl); int r;
    if (g_bad) return;
    CALL(r = secp256k1_schnorrsig_aggregate(ctx, out, &ol, (secp256k1_xonly_pubkey *)pks, ms, sg, n)); R_int(r); R_u64(ol); R_hex(out, bl);
}
/* halfagg_inc aggsig_in(bytes placed at start of a buffer of buflen) buflen aggsig_len all_pubkeys all_msgs new_sigs n_before n_new -> ret outlen agg */
static void op_halfagg_inc(void) {
    size_t la, lp, lm, ls; unsigned char *ain = A_blob(0, &la); size_t bl = (size_t)A_u64(1), ol = (size_t)A_u64(2);
    unsigned char *pks = A_blob(3, &lp), *ms = A_blob(4, &lm), *sg = A_blob(5, &ls); size_t nb = (size_t)A_u64(6), nn = (size_t)A_u64(7); unsigned char *buf = O_buf(bl); int r;
    if (g_bad) return; if (la > bl) { bad("aggsig longer than buffer", 0); return; }
    if (la) memcpy(buf, ain, la);
    CALL(r = secp256k1_schnorrsig_inc_aggregate(ctx, buf, &ol, (secp256k1_xonly_pubkey *)pks, ms, sg, nb, nn)); R_int(r); R_u64(ol); R_hex(buf, bl);
}
static void op_halfagg_verify(void) {
    size_t lp, lm, la; unsigned char *pks = A_blob(0, &lp), *ms = A_blob(1, &lm); size_t n = (size_t)A_u64(2); unsigned char *agg = A_blob(3, &la); int r;
    if (g_bad) return;
    CALL(r = secp256k1_schnorrsig_aggverify(ctx, (secp256k1_xonly_pubkey *)pks, ms, n, agg, la)); R_int(r);
}

#undef OPS_MODULES
#define OPS_MODULES \
    { "ecdh", op_ecdh }, { "ellswift_encode", op_ellswift_encode }, { "ellswift_decode", op_ellswift_decode }, \
    { "ellswift_create", op_ellswift_create }, { "ellswift_xdh", op_ellswift_xdh }, \
    { "s2c_opening_parse", op_s2c_opening_parse }, { "s2c_opening_serialize", op_s2c_opening_serialize }, { "s2c_sign", op_s2c_sign }, \
    { "s2c_verify_commit", op_s2c_verify_commit }, { "ae_host_commit", op_ae_host_commit }, { "ae_signer_commit", op_ae_signer_commit }, \
    { "ae_sign", op_ae_sign }, { "ae_host_verify", op_ae_host_verify }, \
    { "adaptor_encrypt", op_adaptor_encrypt }, { "adaptor_verify", op_adaptor_verify }, { "adaptor_decrypt", op_adaptor_decrypt }, { "adaptor_recover", op_adaptor_recover }, \
    { "musig_pubnonce_parse", op_musig_pubnonce_parse }, { "musig_pubnonce_serialize", op_musig_pubnonce_serialize }, \
    { "musig_aggnonce_parse", op_musig_aggnonce_parse }, { "musig_aggnonce_serialize", op_musig_aggnonce_serialize }, \
    { "musig_partial_sig_parse", op_musig_partial_sig_parse }, { "musig_partial_sig_serialize", op_musig_partial_sig_serialize }, \
    { "musig_pubkey_agg", op_musig_pubkey_agg }, { "musig_pubkey_get", op_musig_pubkey_get }, { "musig_tweak_add", op_musig_tweak_add }, \
    { "musig_cache_view", op_musig_cache_view }, { "musig_session_view", op_musig_session_view }, { "musig_secnonce_view", op_musig_secnonce_view }, \
    { "musig_nonce_gen", op_musig_nonce_gen }, { "musig_nonce_gen_counter", op_musig_nonce_gen_counter }, { "musig_nonce_agg", op_musig_nonce_agg }, \
    { "musig_nonce_process", op_musig_nonce_process }, { "musig_partial_sign", op_musig_partial_sign }, { "musig_partial_sig_verify", op_musig_partial_sig_verify }, \
    { "musig_partial_sig_agg", op_musig_partial_sig_agg }, { "musig_nonce_parity", op_musig_nonce_parity }, { "musig_adapt", op_musig_adapt }, \
    { "musig_extract_adaptor", op_musig_extract_adaptor }, \
    { "halfagg_aggregate", op_halfagg_aggregate }, { "halfagg_inc", op_halfagg_inc }, { "halfagg_verify", op_halfagg_verify },
