/* modules ops */
#define OPS_MODULES
