/* Small-group driver: the library compiled in its EXHAUSTIVE_TEST_ORDER configuration (a real upstream
 * configuration: the same code over a curve whose subgroup has order 13 / 199), where every scalar has many 32-byte
 * re-encodings value + k*order.  For every VALID artifact produced by the library's own signers (and confirmed by its
 * verifier) each re-encoding of each scalar must be rejected.  Output: one line per family
 *     FAM <name> valid=<n> tried=<n> accepted=<n> witness=<hex|->
 * accepted > 0 is a violation of the property that owns the family.
 */
#ifndef EXHAUSTIVE_TEST_ORDER
#define EXHAUSTIVE_TEST_ORDER 13
#endif
#include <stdio.h>
#include <stdlib.h>
#include <string.h>
#include "secp256k1.c"
#include "../include/secp256k1_recovery.h"
#include "../include/secp256k1_extrakeys.h"
#include "../include/secp256k1_schnorrsig.h"
#include "../include/secp256k1_schnorrsig_halfagg.h"
#include "../include/secp256k1_ecdsa_adaptor.h"
#include "../include/secp256k1_musig.h"
#include "ecmult_compute_table_impl.h"
#include "ecmult_gen_compute_table_impl.h"

#if EXHAUSTIVE_TEST_ORDER > 20
#define ST1 13
#define ST2 17
#define ST3 37
#else
#define ST1 1
#define ST2 1
#define ST3 1
#endif
static secp256k1_context *ctx;
static long g_ill = 0;
static void cb_ill(const char *s, void *d) { (void)s; (void)d; g_ill++; }

typedef struct { const char *name; long valid, tried, accepted; char witness[700]; } fam;
static void fam_print(fam *f) { printf("FAM %s valid=%ld tried=%ld accepted=%ld witness=%s\n", f->name, f->valid, f->tried, f->accepted, f->witness[0] ? f->witness : "-"); }
static void wit(fam *f, const unsigned char *p, size_t n) { size_t i; if (f->witness[0]) return; for (i = 0; i < n && 2 * i + 2 < sizeof(f->witness); i++) sprintf(f->witness + 2 * i, "%02x", p[i]); }

/* add k*order (as a 256-bit big-endian integer) to the 32-byte value at p; returns 0 if it does not fit */
static int add_order(unsigned char *p, unsigned long k, int shift_bytes) {
    /* value += (k * ORDER) << (8*shift_bytes) */
    unsigned long long add = (unsigned long long)k * EXHAUSTIVE_TEST_ORDER; int i = 31 - shift_bytes; unsigned long long carry = 0;
    while (i >= 0 && (add || carry)) {
        unsigned long long v = p[i] + (add & 0xff) + carry; p[i] = (unsigned char)(v & 0xff); carry = v >> 8; add >>= 8; i--;
    }
    return !(add || carry);
}
/* the re-encodings tried for one scalar: +order, +2 order, +3 order, +order<<8, +order<<64, +order<<200, (largest multiple) */
static int reenc(unsigned char *dst, const unsigned char *src, int which) {
    static const unsigned long ks[] = { 1, 2, 3, 7, 1, 1, 1, 5 }; static const int sh[] = { 0, 0, 0, 0, 1, 8, 25, 30 };
    memcpy(dst, src, 32);
    if (which >= 8) return 0;
    return add_order(dst, ks[which], sh[which]);
}
#define NRE 8

/* the RFC 6979 nonce is a 256-bit value and (almost) never below the tiny order: sign with small explicit nonces as
 * upstream's exhaustive tests do */
static int smallint_nonce(unsigned char *nonce32, const unsigned char *msg32, const unsigned char *key32, const unsigned char *algo16, void *data, unsigned int counter) {
    unsigned k0 = *(unsigned *)data; (void)msg32; (void)key32; (void)algo16;
    if (counter > 2 * EXHAUSTIVE_TEST_ORDER) return 0;
    memset(nonce32, 0, 32); nonce32[31] = (unsigned char)(1 + (k0 + counter) % (EXHAUSTIVE_TEST_ORDER - 1));
    return 1;
}
static void fam_ecdsa(void) {
    fam f = { "ecdsa_compact_reenc", 0, 0, 0, "" }; fam g = { "ecdsa_seckey_reenc", 0, 0, 0, "" };
    unsigned sk, m, e;
    for (sk = 1; sk < EXHAUSTIVE_TEST_ORDER; sk += ST1) for (m = 0; m < EXHAUSTIVE_TEST_ORDER; m += ST2) for (e = 0; e < EXHAUSTIVE_TEST_ORDER - 1; e += ST3) {
        unsigned char sk32[32] = {0}, msg[32] = {0}, extra[32] = {0}, c64[64], t64[64]; secp256k1_ecdsa_signature sig, s2; secp256k1_pubkey pk; int w, half;
        sk32[31] = (unsigned char)sk; msg[31] = (unsigned char)m; extra[0] = (unsigned char)e;
        if (!secp256k1_ec_pubkey_create(ctx, &pk, sk32)) continue;
        if (!secp256k1_ecdsa_sign(ctx, &sig, msg, sk32, smallint_nonce, &e)) continue;
        if (!secp256k1_ecdsa_verify(ctx, &sig, msg, &pk)) { printf("SGFAIL ecdsa self-verify\n"); continue; }
        f.valid++;
        secp256k1_ecdsa_signature_serialize_compact(ctx, c64, &sig);
        for (half = 0; half < 2; half++) for (w = 0; w < NRE; w++) {
            memcpy(t64, c64, 64);
            if (!reenc(t64 + 32 * half, c64 + 32 * half, w)) continue;
            f.tried++;
            /* the parser must refuse; if it does not, the resulting object must at least not verify */
            if (secp256k1_ecdsa_signature_parse_compact(ctx, &s2, t64) && secp256k1_ecdsa_verify(ctx, &s2, msg, &pk)) { f.accepted++; wit(&f, t64, 64); }
        }
        /* secret keys: d + k*order must be refused everywhere */
        for (w = 0; w < NRE; w++) {
            unsigned char t[32]; secp256k1_pubkey p2; secp256k1_ecdsa_signature s3;
            if (!reenc(t, sk32, w)) continue;
            g.tried++; if (w == 0) g.valid++;
            if (secp256k1_ec_seckey_verify(ctx, t) || secp256k1_ec_pubkey_create(ctx, &p2, t) || secp256k1_ecdsa_sign(ctx, &s3, msg, t, smallint_nonce, &e)) { g.accepted++; wit(&g, t, 32); }
        }
    }
    fam_print(&f); fam_print(&g);
}

static void fam_schnorr(void) {
    fam f = { "schnorr_s_reenc", 0, 0, 0, "" }; unsigned sk, m, a;
    for (sk = 1; sk < EXHAUSTIVE_TEST_ORDER; sk += (ST1 > 1 ? 3 : 1)) for (m = 0; m < 6; m++) for (a = 0; a < 3; a++) {
        unsigned char sk32[32] = {0}, msg[40] = {0}, aux[32] = {0}, sig[64], t[64]; secp256k1_keypair kp; secp256k1_xonly_pubkey pk; int w; size_t ml = (m & 1) ? 32 : (m * 7);
        sk32[31] = (unsigned char)sk; msg[0] = (unsigned char)m; aux[5] = (unsigned char)a;
        if (!secp256k1_keypair_create(ctx, &kp, sk32)) continue;
        secp256k1_keypair_xonly_pub(ctx, &pk, NULL, &kp);
        if (ml == 32) { if (!secp256k1_schnorrsig_sign32(ctx, sig, msg, &kp, a ? aux : NULL)) continue; }
        else { secp256k1_schnorrsig_extraparams ep = SECP256K1_SCHNORRSIG_EXTRAPARAMS_INIT; ep.ndata = a ? aux : NULL; if (!secp256k1_schnorrsig_sign_custom(ctx, sig, msg, ml, &kp, &ep)) continue; }
        if (!secp256k1_schnorrsig_verify(ctx, sig, msg, ml, &pk)) { printf("SGFAIL schnorr self-verify\n"); continue; }
        f.valid++;
        for (w = 0; w < NRE; w++) {
            memcpy(t, sig, 64);
            if (!reenc(t + 32, sig + 32, w)) continue;
            f.tried++;
            if (secp256k1_schnorrsig_verify(ctx, t, msg, ml, &pk)) { f.accepted++; wit(&f, t, 64); }
        }
    }
    fam_print(&f);
}

static void fam_halfagg(void) {
    fam f = { "halfagg_s_reenc", 0, 0, 0, "" }; fam g = { "halfagg_incremental_eq", 0, 0, 0, "" }; unsigned i, j, k, nn;
    for (nn = 1; nn <= 3; nn++) for (i = 1; i < EXHAUSTIVE_TEST_ORDER; i += ST1) for (j = 1; j < EXHAUSTIVE_TEST_ORDER; j += (nn >= 2 ? ST2 : EXHAUSTIVE_TEST_ORDER)) for (k = 1; k < EXHAUSTIVE_TEST_ORDER; k += (nn >= 3 ? 3 * ST3 : EXHAUSTIVE_TEST_ORDER)) {
        unsigned char sk[3][32], msgs[96] = {0}, sigs[192], agg[128], t[128], inc[128]; size_t al = 32 * (nn + 1), il; secp256k1_keypair kp; secp256k1_xonly_pubkey pks[3]; unsigned q; int ok = 1, w;
        memset(sk, 0, sizeof sk); sk[0][31] = (unsigned char)i; sk[1][31] = (unsigned char)j; sk[2][31] = (unsigned char)k; msgs[0] = (unsigned char)i; msgs[32] = (unsigned char)(j + 40); msgs[64] = (unsigned char)(k + 80);
        for (q = 0; q < nn && ok; q++) {
            ok = secp256k1_keypair_create(ctx, &kp, sk[q]) && secp256k1_keypair_xonly_pub(ctx, &pks[q], NULL, &kp) && secp256k1_schnorrsig_sign32(ctx, sigs + 64 * q, msgs + 32 * q, &kp, NULL)
                 && secp256k1_schnorrsig_verify(ctx, sigs + 64 * q, msgs + 32 * q, 32, &pks[q]);
        }
        if (!ok) continue;
        if (!secp256k1_schnorrsig_aggregate(ctx, agg, &al, pks, msgs, sigs, nn) || al != 32 * (nn + 1)) { printf("SGFAIL aggregate\n"); continue; }
        if (!secp256k1_schnorrsig_aggverify(ctx, pks, msgs, nn, agg, al)) { f.accepted++; wit(&f, agg, al); printf("SGFAIL aggverify of honest aggregate n=%u\n", nn); continue; }
        f.valid++;
        for (w = 0; w < NRE; w++) {
            memcpy(t, agg, al);
            if (!reenc(t + 32 * nn, agg + 32 * nn, w)) continue;
            f.tried++;
            if (secp256k1_schnorrsig_aggverify(ctx, pks, msgs, nn, t, al)) { f.accepted++; wit(&f, t, al); }
        }
        /* incremental one-by-one equals one-shot */
        il = sizeof inc; ok = secp256k1_schnorrsig_inc_aggregate(ctx, inc, &il, pks, msgs, sigs, 0, 1);
        for (q = 1; q < nn && ok; q++) { il = sizeof inc; ok = secp256k1_schnorrsig_inc_aggregate(ctx, inc, &il, pks, msgs, sigs + 64 * q, q, 1); }
        g.valid++; g.tried++;
        if (!ok || il != al || memcmp(inc, agg, al) != 0) { g.accepted++; wit(&g, agg, al); }
    }
    fam_print(&f); fam_print(&g);
}

static void fam_adaptor(void) {
    fam f = { "adaptor_sp_reenc", 0, 0, 0, "" }; fam g = { "adaptor_dleq_s_reenc", 0, 0, 0, "" }; fam h = { "adaptor_decrypt_sp_reenc", 0, 0, 0, "" }; unsigned sk, dk, m;
    for (sk = 1; sk < EXHAUSTIVE_TEST_ORDER; sk += ST1) for (dk = 1; dk < EXHAUSTIVE_TEST_ORDER; dk += 2 * ST2) for (m = 0; m < 5; m++) {
        unsigned char sk32[32] = {0}, dk32[32] = {0}, msg[32] = {0}, a[162], t[162]; secp256k1_pubkey pk, ek; secp256k1_ecdsa_signature sig; int w;
        sk32[31] = (unsigned char)sk; dk32[31] = (unsigned char)dk; msg[31] = (unsigned char)m; msg[0] = (unsigned char)(sk ^ dk);
        if (!secp256k1_ec_pubkey_create(ctx, &pk, sk32) || !secp256k1_ec_pubkey_create(ctx, &ek, dk32)) continue;
        if (!secp256k1_ecdsa_adaptor_encrypt(ctx, a, sk32, &ek, msg, NULL, NULL)) continue;
        if (!secp256k1_ecdsa_adaptor_verify(ctx, a, &pk, msg, &ek)) continue; /* in a tiny group honest proofs may degenerate; only confirmed-valid ones are used */
        f.valid++; g.valid++;
        for (w = 0; w < NRE; w++) {
            memcpy(t, a, 162);
            if (reenc(t + 66, a + 66, w)) {
                f.tried++; if (secp256k1_ecdsa_adaptor_verify(ctx, t, &pk, msg, &ek)) { f.accepted++; wit(&f, t, 162); }
                h.tried++; if (w == 0) h.valid++;
                if (secp256k1_ecdsa_adaptor_decrypt(ctx, &sig, dk32, t)) { h.accepted++; wit(&h, t, 162); }
            }
            memcpy(t, a, 162);
            if (reenc(t + 130, a + 130, w)) { g.tried++; if (secp256k1_ecdsa_adaptor_verify(ctx, t, &pk, msg, &ek)) { g.accepted++; wit(&g, t, 162); } }
        }
    }
    fam_print(&f); fam_print(&g); fam_print(&h);
}

static void fam_misc(void) {
    fam f = { "musig_partial_sig_reenc", 0, 0, 0, "" }; fam g = { "tweak_reenc", 0, 0, 0, "" }; unsigned s;
    for (s = 0; s < EXHAUSTIVE_TEST_ORDER; s++) {
        unsigned char b[32] = {0}, t[32]; secp256k1_musig_partial_sig ps; int w;
        b[31] = (unsigned char)s;
        if (!secp256k1_musig_partial_sig_parse(ctx, &ps, b)) { printf("SGFAIL partial_sig_parse in range\n"); continue; }
        f.valid++;
        for (w = 0; w < NRE; w++) { if (!reenc(t, b, w)) continue; f.tried++; if (secp256k1_musig_partial_sig_parse(ctx, &ps, t)) { f.accepted++; wit(&f, t, 32); } }
        for (w = 0; w < NRE; w++) {
            unsigned char sk[32] = {0}, sk2[32]; secp256k1_pubkey pk;
            sk[31] = 1 + (unsigned char)(s % (EXHAUSTIVE_TEST_ORDER - 1));
            if (!reenc(t, b, w)) continue;
            g.tried++; if (w == 0) g.valid++;
            memcpy(sk2, sk, 32);
            if (secp256k1_ec_seckey_tweak_add(ctx, sk2, t)) { g.accepted++; wit(&g, t, 32); }
            memcpy(sk2, sk, 32);
            if (secp256k1_ec_seckey_tweak_mul(ctx, sk2, t)) { g.accepted++; wit(&g, t, 32); }
            if (secp256k1_ec_pubkey_create(ctx, &pk, sk) && secp256k1_ec_pubkey_tweak_add(ctx, &pk, t)) { g.accepted++; wit(&g, t, 32); }
        }
    }
    fam_print(&f); fam_print(&g);
}

int main(int argc, char **argv) {
    const char *which = argc > 1 ? argv[1] : "all";
    secp256k1_ecmult_gen_compute_table(&secp256k1_ecmult_gen_prec_table[0][0], &secp256k1_ge_const_g, COMB_BLOCKS, COMB_TEETH, COMB_SPACING);
    secp256k1_ecmult_compute_two_tables(secp256k1_pre_g, secp256k1_pre_g_128, WINDOW_G, &secp256k1_ge_const_g);
    ctx = secp256k1_context_create(SECP256K1_CONTEXT_NONE);
    secp256k1_context_set_illegal_callback(ctx, cb_ill, NULL);
    if (argc > 2) { unsigned char seed[32] = {0}; strncpy((char *)seed, argv[2], 31); if (!secp256k1_context_randomize(ctx, seed)) return 2; }
    printf("SG order=%d\n", EXHAUSTIVE_TEST_ORDER);
    if (!strcmp(which, "all") || !strcmp(which, "ecdsa")) fam_ecdsa();
    if (!strcmp(which, "all") || !strcmp(which, "schnorr")) fam_schnorr();
    if (!strcmp(which, "all") || !strcmp(which, "halfagg")) fam_halfagg();
    if (!strcmp(which, "all") || !strcmp(which, "adaptor")) fam_adaptor();
    if (!strcmp(which, "all") || !strcmp(which, "misc")) fam_misc();
    printf("SGDONE ill=%ld\n", g_ill);
    secp256k1_context_destroy(ctx);
    return 0;
}
