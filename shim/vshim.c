/* vshim: a stateless command interpreter over the library, compiled together
 * with the library sources (like upstream's tests.c) so that static internals
 * are reachable without any source hook.
 *
 * protocol (one command per line on stdin, one reply per line on stdout):
 *   [@ctx] op arg arg ...
 *   arg:  '-' NULL pointer | '.' empty non-NULL blob | hex bytes | decimal integer
 *   reply: "ok <tok> <tok> ... | ill=<n> err=<n> m=<mallocs> live=<delta>"
 *          or "ERR <message>" for harness-level problems (unknown op, bad args)
 *
 * Every input blob lives in its own heap block of exactly its length and every
 * output in a block of exactly its documented size, so that one byte of
 * over-read / over-write lands in an ASan red zone.
 */
#ifndef _GNU_SOURCE
#define _GNU_SOURCE
#endif
#include <stdio.h>
#include <stdlib.h>
#include <string.h>
#include <stdint.h>
#include <signal.h>
#include <unistd.h>

#include "secp256k1.c"
#include "../include/secp256k1_recovery.h"
#include "../include/secp256k1_ecdh.h"
#include "../include/secp256k1_extrakeys.h"
#include "../include/secp256k1_schnorrsig.h"
#include "../include/secp256k1_schnorrsig_halfagg.h"
#include "../include/secp256k1_musig.h"
#include "../include/secp256k1_ellswift.h"
#include "../include/secp256k1_ecdsa_s2c.h"
#include "../include/secp256k1_ecdsa_adaptor.h"
#include "../include/secp256k1_generator.h"
#include "../include/secp256k1_rangeproof.h"
#include "../include/secp256k1_whitelist.h"
#include "../include/secp256k1_surjectionproof.h"
#include "../include/secp256k1_bppp.h"
#include "lax_der_parsing.c"

/* ---------------------------------------------------------------- alloc tracking */
#define TLS __thread
static TLS volatile int g_track = 0;   /* volatile: the compiler knows malloc/free do not read globals and would drop the stores around an inlined free() */
static TLS long g_mallocs = 0, g_live = 0;
#ifndef VSHIM_NO_WRAP
void *__real_malloc(size_t);
void __real_free(void *);
void *__real_calloc(size_t, size_t);
void *__real_realloc(void *, size_t);
void *__wrap_malloc(size_t n) { void *p = __real_malloc(n); if (g_track && p) { g_mallocs++; g_live++; } return p; }
void *__wrap_calloc(size_t a, size_t b) { void *p = __real_calloc(a, b); if (g_track && p) { g_mallocs++; g_live++; } return p; }
void *__wrap_realloc(void *q, size_t n) { void *p = __real_realloc(q, n); if (g_track && !q && p) { g_mallocs++; g_live++; } return p; }
void __wrap_free(void *p) { if (g_track && p) g_live--; __real_free(p); }
#endif
#define CALL(stmt) do { g_track = 1; __asm__ __volatile__("" ::: "memory"); stmt; __asm__ __volatile__("" ::: "memory"); g_track = 0; } while (0)

/* ---------------------------------------------------------------- callbacks */
static TLS long g_ill = 0, g_err = 0;
static TLS char g_ill_msg[160];
static void cb_ill(const char *s, void *d) { (void)d; g_ill++; strncpy(g_ill_msg, s ? s : "", sizeof(g_ill_msg) - 1); }
static void cb_err(const char *s, void *d) { (void)d; g_err++; strncpy(g_ill_msg, s ? s : "", sizeof(g_ill_msg) - 1); }

/* ---------------------------------------------------------------- contexts */
#define NCTX 16
static secp256k1_context *g_ctx[NCTX];
static void *g_ctx_mem[NCTX];   /* non-NULL: preallocated memory owned by the shim */
static TLS secp256k1_context *ctx; /* current */
static void ctx_install(secp256k1_context *c) {
    secp256k1_context_set_illegal_callback(c, cb_ill, NULL);
    secp256k1_context_set_error_callback(c, cb_err, NULL);
}

/* ---------------------------------------------------------------- argument access */
#define MAXTOK 4096
static TLS char *g_tok[MAXTOK];
static TLS int g_ntok;
static TLS int g_misalign;  /* trailing token "!misalign=K" (K = 1..15): every argument / output block of this call starts K bytes past a 16-byte boundary (its END still coincides with the end of the heap block) */
static TLS unsigned char *g_in_ptr[MAXTOK], *g_in_copy[MAXTOK]; static TLS size_t g_in_len[MAXTOK]; static TLS int g_in_idx[MAXTOK], g_nin; /* input-immutability monitor: every parsed input block and a private copy of it */
static TLS int g_alias;     /* trailing token "!alias": the op passes its output pointer equal to one of its inputs (in-place use) */
static TLS void *g_tmp[MAXTOK * 2];
static TLS int g_ntmp;
static TLS char *g_out; static TLS size_t g_outlen, g_outcap;
static TLS int g_bad; static TLS char g_badmsg[200];
static TLS char *g_reply; static TLS size_t g_replycap;

static void bad(const char *m, int i) { if (!g_bad) { g_bad = 1; snprintf(g_badmsg, sizeof g_badmsg, "%s (arg %d)", m, i); } }
static void *keep(void *p) { if (g_ntmp < MAXTOK * 2) g_tmp[g_ntmp++] = p; return p; }
static void *xmalloc(size_t n) { void *p = malloc(n); if (!p && n) { fprintf(stderr, "shim: out of memory\n"); _exit(4); } return p; }
static int hexv(int c) { if (c >= '0' && c <= '9') return c - '0'; if (c >= 'a' && c <= 'f') return c - 'a' + 10; if (c >= 'A' && c <= 'F') return c - 'A' + 10; return -1; }

static int A_isnull(int i) { return i >= g_ntok || (g_tok[i][0] == '-' && g_tok[i][1] == 0); }
/* blob in an exact-size heap block; NULL for '-' */
static unsigned char *A_blob(int i, size_t *len) {
    const char *s; size_t n, k; unsigned char *p;
    if (len) *len = 0;
    if (i >= g_ntok) { bad("missing arg", i); return NULL; }
    s = g_tok[i];
    if (s[0] == '-' && s[1] == 0) return NULL;
    if (s[0] == '.' && s[1] == 0) { if (len) *len = 0; return (unsigned char *)keep(xmalloc(0)); }
    n = strlen(s);
    if (n & 1) { bad("odd hex", i); return NULL; }
    p = (unsigned char *)keep(xmalloc(n / 2 + (size_t)g_misalign)) + g_misalign;
    for (k = 0; k < n / 2; k++) {
        int a = hexv(s[2 * k]), b = hexv(s[2 * k + 1]);
        if (a < 0 || b < 0) { bad("bad hex", i); return p; }
        p[k] = (unsigned char)(a * 16 + b);
    }
    if (len) *len = n / 2;
    if (n / 2 > 0 && g_nin < MAXTOK) { g_in_ptr[g_nin] = p; g_in_len[g_nin] = n / 2; g_in_idx[g_nin] = i; g_in_copy[g_nin] = (unsigned char *)xmalloc(n / 2); memcpy(g_in_copy[g_nin], p, n / 2); g_nin++; }
    return p;
}
/* blob that must have exactly n bytes (or be NULL when nullable) */
static unsigned char *A_fix(int i, size_t n, int nullable) {
    size_t l; unsigned char *p = A_blob(i, &l);
    if (!p) { if (!nullable) bad("NULL not allowed", i); return NULL; }
    if (l != n) bad("wrong blob size", i);
    return p;
}
static uint64_t A_u64(int i) {
    if (i >= g_ntok) { bad("missing arg", i); return 0; }
    return strtoull(g_tok[i], NULL, 10);
}
static long A_int(int i) {
    if (i >= g_ntok) { bad("missing arg", i); return 0; }
    return strtol(g_tok[i], NULL, 10);
}
/* exact-size output block filled with a pattern */
static unsigned char *O_buf(size_t n) { unsigned char *p = (unsigned char *)keep(xmalloc(n + (size_t)g_misalign)) + g_misalign; memset(p, 0xC5, n); return p; }

static void out_raw(const char *s, size_t n) {
    if (g_outlen + n + 2 > g_outcap) { g_outcap = (g_outlen + n + 2) * 2; g_out = (char *)realloc(g_out, g_outcap); }
    memcpy(g_out + g_outlen, s, n); g_outlen += n; g_out[g_outlen] = 0;
}
static void R_int(long long v) { char b[40]; int n = snprintf(b, sizeof b, " %lld", v); out_raw(b, n); }
static void R_u64(uint64_t v) { char b[40]; int n = snprintf(b, sizeof b, " %llu", (unsigned long long)v); out_raw(b, n); }
static void R_hex(const unsigned char *p, size_t n) {
    static const char hx[] = "0123456789abcdef"; size_t i; char *b;
    if (!p) { out_raw(" -", 2); return; }
    if (n == 0) { out_raw(" .", 2); return; }
    b = (char *)xmalloc(2 * n + 1); b[0] = ' ';
    for (i = 0; i < n; i++) { b[1 + 2 * i] = hx[p[i] >> 4]; b[2 + 2 * i] = hx[p[i] & 15]; }
    out_raw(b, 2 * n + 1); free(b);
}
static void R_str(const char *s) { out_raw(" ", 1); out_raw(s, strlen(s)); }

/* array of fixed-size objects given as one concatenated blob -> array + pointer array */
static void **ptr_array(unsigned char *base, size_t n, size_t stride) {
    size_t i; void **pp = (void **)keep(xmalloc(n * sizeof(void *)));
    for (i = 0; i < n; i++) pp[i] = base + i * stride;
    return pp;
}

typedef void (*opfn)(void);
typedef struct { const char *name; opfn fn; } opent;

#include "ops_ctx.h"
#include "ops_core.h"
#include "ops_internal.h"
#include "ops_modules.h"
#include "ops_zkp.h"

static const opent OPS[] = {
    OPS_CTX
    OPS_CORE
    OPS_INTERNAL
    OPS_MODULES
    OPS_ZKP
    { NULL, NULL }
};

static void on_alarm(int sig) { (void)sig; { static const char m[] = "TIMEOUT\n"; if (write(1, m, sizeof m - 1)) {} } _exit(3); }

static void reply(const char *fmt, const char *a, long i1, long i2, long i3, long i4) {
    size_t need = (g_out ? g_outlen : 0) + strlen(a) + 512;
    if (need > g_replycap) { g_replycap = need * 2; g_reply = (char *)realloc(g_reply, g_replycap); }
    snprintf(g_reply, g_replycap, fmt, a, i1, i2, i3, i4);
}
/* executes one command line; the reply (without newline) is left in g_reply. use_static: run with secp256k1_context_static */
static void vshim_exec_line(char *line, int use_static) {
    int i; const opent *o; char *p = line; long ill0, err0, m0, l0; char modbuf[256]; int modlen;
    g_ntok = 0; g_ntmp = 0; g_outlen = 0; g_bad = 0; if (g_out) g_out[0] = 0;
    while (*p) {
        while (*p == ' ' || *p == '\t' || *p == '\n' || *p == '\r') *p++ = 0;
        if (!*p) break;
        if (g_ntok < MAXTOK) g_tok[g_ntok++] = p;
        while (*p && *p != ' ' && *p != '\t' && *p != '\n' && *p != '\r') p++;
    }
    if (g_ntok == 0) { reply("ERR empty%s", "", 0, 0, 0, 0); return; }
    g_alias = 0; g_misalign = 0;
    if (g_ntok > 1 && strncmp(g_tok[g_ntok - 1], "!misalign=", 10) == 0) { g_misalign = atoi(g_tok[g_ntok - 1] + 10) & 15; g_ntok--; }
    if (g_ntok > 1 && strcmp(g_tok[g_ntok - 1], "!alias") == 0) { g_alias = 1; g_ntok--; }
    ctx = g_ctx[0];
    if (g_tok[0][0] == '@') {
        int k = atoi(g_tok[0] + 1);
        if (k < 0 || k >= NCTX || !g_ctx[k]) { reply("ERR no such context%s", "", 0, 0, 0, 0); return; }
        ctx = g_ctx[k];
        for (i = 1; i < g_ntok; i++) g_tok[i - 1] = g_tok[i];
        g_ntok--;
        if (g_ntok == 0) { reply("ERR empty%s", "", 0, 0, 0, 0); return; }
    }
    if (use_static) ctx = (secp256k1_context *)secp256k1_context_static;
    for (o = OPS; o->name; o++) if (strcmp(o->name, g_tok[0]) == 0) break;
    if (!o->name) { reply("ERR unknown op %s", g_tok[0], 0, 0, 0, 0); return; }
    for (i = 1; i < g_ntok; i++) g_tok[i - 1] = g_tok[i];
    g_ntok--;
    ill0 = g_ill; err0 = g_err; m0 = g_mallocs; l0 = g_live; g_ill_msg[0] = 0; g_nin = 0;
    o->fn();
    /* which input blocks did the call change? (reported as mod=i,j,..; the runner knows the documented in/out arguments) */
    modlen = 0; modbuf[0] = 0;
    for (i = 0; i < g_nin; i++) {
        if (!g_alias && memcmp(g_in_ptr[i], g_in_copy[i], g_in_len[i]) != 0 && modlen < (int)sizeof modbuf - 16) modlen += snprintf(modbuf + modlen, sizeof modbuf - modlen, "%s%d", modlen ? "," : " mod=", g_in_idx[i]);
        free(g_in_copy[i]);
    }
    g_nin = 0;
    for (i = 0; i < g_ntmp; i++) free(g_tmp[i]);
    g_ntmp = 0;
    if (g_bad) { reply("ERR %s", g_badmsg, 0, 0, 0, 0); return; }
    reply("ok%s | ill=%ld err=%ld m=%ld live=%ld", g_out ? g_out : "", g_ill - ill0, g_err - err0, g_mallocs - m0, g_live - l0);
    if (modlen) strcat(g_reply, modbuf);
}

#include "vshim_modes.h"

#ifndef VSHIM_NO_MAIN
int main(int argc, char **argv) {
    char *line = NULL; size_t cap = 0; ssize_t n;
    signal(SIGALRM, on_alarm);
    setvbuf(stdout, NULL, _IOFBF, 1 << 16);
    CALL(g_ctx[0] = secp256k1_context_create(SECP256K1_CONTEXT_NONE));
    ctx_install(g_ctx[0]);
    g_mallocs = 0; g_live = 0;
    if (argc > 1 && strcmp(argv[1], "--threads") == 0) return threads_main(argc, argv);
    while ((n = getline(&line, &cap, stdin)) > 0) {
        if (strncmp(line, "fork_static ", 12) == 0) { fork_static(line + 12); }
        else { alarm(60); vshim_exec_line(line, 0); alarm(0); }
        fputs(g_reply, stdout); fputc('\n', stdout);
        fflush(stdout);
    }
    return 0;
}
#endif
