#include "secp256k1.c"
#include "lax_der_parsing.c"
#include <stdint.h>
#include <stdio.h>
static secp256k1_context *ctx;
static int ncb;
static void cb(const char *m, void *d){(void)d; fprintf(stderr,"CALLBACK: %s\n", m); ncb++;}
static unsigned char *dup(const uint8_t *d, size_t n){ unsigned char *p = malloc(n?n:1); if(n) memcpy(p,d,n); return p; }
#define RET01(x) do{ int r_=(x); if(r_!=0&&r_!=1){fprintf(stderr,"RET %d at %d\n",r_,__LINE__);abort();} }while(0)

static void gen_seed(const char *dir);

int LLVMFuzzerInitialize(int *argc, char ***argv){
  ctx=secp256k1_context_create(SECP256K1_CONTEXT_NONE);
  secp256k1_context_set_illegal_callback(ctx,cb,0); secp256k1_context_set_error_callback(ctx,cb,0);
  if (getenv("SEEDDIR")) gen_seed(getenv("SEEDDIR"));
  (void)argc;(void)argv; return 0; }

static void use_pubkey(const secp256k1_pubkey *pk, const uint8_t *d, size_t n){
  unsigned char o[65]; size_t l=65; secp256k1_pubkey p2=*pk; secp256k1_xonly_pubkey xo; int par; unsigned char tw[32]={0}, out[64]; const secp256k1_pubkey *pp[2];
  memcpy(tw,d,n<32?n:32);
  RET01(secp256k1_ec_pubkey_serialize(ctx,o,&l,pk,SECP256K1_EC_UNCOMPRESSED));
  RET01(secp256k1_ec_pubkey_negate(ctx,&p2)); RET01(secp256k1_ec_pubkey_tweak_add(ctx,&p2,tw)); p2=*pk; RET01(secp256k1_ec_pubkey_tweak_mul(ctx,&p2,tw));
  RET01(secp256k1_xonly_pubkey_from_pubkey(ctx,&xo,&par,pk)); p2=*pk; secp256k1_ec_pubkey_negate(ctx,&p2); pp[0]=pk; pp[1]=&p2; { secp256k1_pubkey c; RET01(secp256k1_ec_pubkey_combine(ctx,&c,pp,2)); }
  RET01(secp256k1_ecdh(ctx,out,pk,tw,NULL,NULL)); RET01(secp256k1_ellswift_encode(ctx,out,pk,tw));
  { secp256k1_musig_keyagg_cache cache; secp256k1_xonly_pubkey agg; pp[1]=pk; RET01(secp256k1_musig_pubkey_agg(ctx,&agg,&cache,pp,2)); RET01(secp256k1_musig_pubkey_xonly_tweak_add(ctx,NULL,&cache,tw)); }
}
static void use_sig(const secp256k1_ecdsa_signature *sig, const uint8_t *d, size_t n){
  unsigned char o[80], m[32]={0}, k[32]={0}, as[162], dk[32]; size_t l=80; secp256k1_ecdsa_signature s2; secp256k1_pubkey pk;
  k[31]=3; memcpy(m,d,n<32?n:32);
  RET01(secp256k1_ecdsa_signature_serialize_der(ctx,o,&l,sig)); RET01(secp256k1_ecdsa_signature_serialize_compact(ctx,o,sig)); RET01(secp256k1_ecdsa_signature_normalize(ctx,&s2,sig));
  if(!secp256k1_ec_pubkey_create(ctx,&pk,k)) abort(); RET01(secp256k1_ecdsa_verify(ctx,sig,m,&pk));
  if (n>=162){ memcpy(as,d,162); RET01(secp256k1_ecdsa_adaptor_recover(ctx,dk,sig,as,&pk)); }
  { secp256k1_ecdsa_s2c_opening op; if(n>=33 && secp256k1_ecdsa_s2c_opening_parse(ctx,&op,d)) { RET01(secp256k1_ecdsa_s2c_verify_commit(ctx,sig,m,&op)); RET01(secp256k1_anti_exfil_host_verify(ctx,sig,m,&pk,m,&op)); } }
}
int LLVMFuzzerTestOneInput(const uint8_t *data, size_t size){
  unsigned char *d; uint8_t op; size_t n;
  if (size<1) return 0; op=data[0]; n=size-1; d=dup(data+1,n);
  switch(op%20){
  case 0: { secp256k1_pubkey pk; if(secp256k1_ec_pubkey_parse(ctx,&pk,d,n)) use_pubkey(&pk,d,n); break; }
  case 1: { secp256k1_ecdsa_signature s; if(secp256k1_ecdsa_signature_parse_der(ctx,&s,d,n)) use_sig(&s,d,n); if(ecdsa_signature_parse_der_lax(ctx,&s,d,n)) use_sig(&s,d,n); break; }
  case 2: { secp256k1_ecdsa_signature s; if(n>=64 && secp256k1_ecdsa_signature_parse_compact(ctx,&s,d)) use_sig(&s,d+64>d+n?d:d,n); if(n>=64){ secp256k1_ecdsa_recoverable_signature rs; int rid=d[0]&3; if(secp256k1_ecdsa_recoverable_signature_parse_compact(ctx,&rs,d,rid)){ secp256k1_pubkey pk; unsigned char m[32]={7}; RET01(secp256k1_ecdsa_recover(ctx,&pk,&rs,m)); } } break; }
  case 3: { secp256k1_xonly_pubkey xo; if(n>=32+64 && secp256k1_xonly_pubkey_parse(ctx,&xo,d)){ unsigned char o[32]; secp256k1_pubkey tp; RET01(secp256k1_schnorrsig_verify(ctx,d+32,d+96,n-96,&xo)); RET01(secp256k1_xonly_pubkey_serialize(ctx,o,&xo)); RET01(secp256k1_xonly_pubkey_tweak_add(ctx,&tp,&xo,d+32)); RET01(secp256k1_xonly_pubkey_tweak_add_check(ctx,d+64,d[0]&1,&xo,d+32)); } break; }
  case 4: { /* musig nonces */ secp256k1_musig_pubnonce pn[2]; secp256k1_musig_aggnonce an; const secp256k1_musig_pubnonce *pp[2]; unsigned char o[66];
     if(n>=66 && secp256k1_musig_aggnonce_parse(ctx,&an,d)){ RET01(secp256k1_musig_aggnonce_serialize(ctx,o,&an));
        { unsigned char k[32]={0}; secp256k1_pubkey pk, ad; const secp256k1_pubkey *pks[1]; secp256k1_musig_keyagg_cache cache; secp256k1_musig_session ses; unsigned char m[32]={1}; k[31]=9; if(!secp256k1_ec_pubkey_create(ctx,&pk,k)) abort(); ad=pk; pks[0]=&pk; if(!secp256k1_musig_pubkey_agg(ctx,NULL,&cache,pks,1)) abort();
          if(secp256k1_musig_nonce_process(ctx,&ses,&an,m,&cache,(d[0]&1)?&ad:NULL)){ secp256k1_musig_partial_sig ps; const secp256k1_musig_partial_sig *psp[1]; unsigned char sig64[64]; int par; if(n>=98 && secp256k1_musig_partial_sig_parse(ctx,&ps,d+66)){ psp[0]=&ps; RET01(secp256k1_musig_partial_sig_agg(ctx,sig64,&ses,psp,1)); RET01(secp256k1_musig_partial_sig_serialize(ctx,sig64,&ps)); if(n>=164 && secp256k1_musig_pubnonce_parse(ctx,&pn[0],d+98)) RET01(secp256k1_musig_partial_sig_verify(ctx,&ps,&pn[0],&pk,&cache,&ses)); } RET01(secp256k1_musig_nonce_parity(ctx,&par,&ses)); } } }
     if(n>=132 && secp256k1_musig_pubnonce_parse(ctx,&pn[0],d) && secp256k1_musig_pubnonce_parse(ctx,&pn[1],d+66)){ pp[0]=&pn[0];pp[1]=&pn[1]; RET01(secp256k1_musig_nonce_agg(ctx,&an,pp,2)); RET01(secp256k1_musig_aggnonce_serialize(ctx,o,&an)); RET01(secp256k1_musig_pubnonce_serialize(ctx,o,&pn[1])); }
     break; }
  case 5: { /* rangeproof: commit33 gen33 proof */ secp256k1_pedersen_commitment c; secp256k1_generator g; uint64_t mn,mx,v; int e,ma; unsigned char bl[32], msg[4096]; size_t ml=4096; unsigned char nonce[32]={5};
     if(n>=66 && secp256k1_pedersen_commitment_parse(ctx,&c,d) && secp256k1_generator_parse(ctx,&g,d+33)){ unsigned char o[33]; const secp256k1_pedersen_commitment *cp[2];
        RET01(secp256k1_rangeproof_info(ctx,&e,&ma,&mn,&mx,d+66,n-66)); RET01(secp256k1_rangeproof_verify(ctx,&mn,&mx,&c,d+66,n-66,d,n>70?5:0,&g)); RET01(secp256k1_rangeproof_rewind(ctx,bl,&v,msg,&ml,nonce,&mn,&mx,&c,d+66,n-66,NULL,0,&g));
        RET01(secp256k1_pedersen_commitment_serialize(ctx,o,&c)); RET01(secp256k1_generator_serialize(ctx,o,&g)); cp[0]=&c;cp[1]=&c; RET01(secp256k1_pedersen_verify_tally(ctx,cp,2,cp,1)); RET01(secp256k1_pedersen_commit(ctx,&c,nonce,d[0],&g)); }
     break; }
  case 6: { secp256k1_surjectionproof *sp = malloc(sizeof(*sp)); if(secp256k1_surjectionproof_parse(ctx,sp,d,n)){ unsigned char *o=malloc(SECP256K1_SURJECTIONPROOF_SERIALIZATION_BYTES_MAX); size_t ol=SECP256K1_SURJECTIONPROOF_SERIALIZATION_BYTES_MAX; size_t ni=secp256k1_surjectionproof_n_total_inputs(ctx,sp), i; secp256k1_generator *gs=malloc((ni+1)*sizeof(*gs)); unsigned char seed[32]={0};
       RET01(secp256k1_surjectionproof_serialize(ctx,o,&ol,sp)); if(ol!=n||memcmp(o,d,n)) abort(); if(secp256k1_surjectionproof_serialized_size(ctx,sp)!=n) abort();
       for(i=0;i<=ni;i++){ seed[0]=i; seed[1]=i>>8; seed[2]=d[2+ (i%((ni+7)/8 ? (ni+7)/8:1))]; if(!secp256k1_generator_generate(ctx,&gs[i],seed)) abort(); }
       RET01(secp256k1_surjectionproof_verify(ctx,sp,gs,ni,&gs[ni])); if(ni) RET01(secp256k1_surjectionproof_verify(ctx,sp,gs,ni-1,&gs[ni])); free(gs); free(o);} free(sp); break; }
  case 7: { secp256k1_whitelist_signature *ws=malloc(sizeof(*ws)); if(secp256k1_whitelist_signature_parse(ctx,ws,d,n)){ size_t nk=secp256k1_whitelist_signature_n_keys(ws), i, ol=n+5; unsigned char *o=malloc(ol); secp256k1_pubkey *on=malloc((nk+1)*sizeof(*on)), *off=malloc((nk+1)*sizeof(*off)); unsigned char k[32]={0};
       RET01(secp256k1_whitelist_signature_serialize(ctx,o,&ol,ws)); if(ol!=n||memcmp(o,d,n)) abort();
       for(i=0;i<=nk;i++){ k[31]=1+i; k[30]=1; if(!secp256k1_ec_pubkey_create(ctx,&on[i],k)) abort(); k[30]=2; if(!secp256k1_ec_pubkey_create(ctx,&off[i],k)) abort(); }
       RET01(secp256k1_whitelist_verify(ctx,ws,on,off,nk,&on[nk])); RET01(secp256k1_whitelist_verify(ctx,ws,on,off,nk+1,&on[nk])); free(o);free(on);free(off);} free(ws); break; }
  case 8: { secp256k1_bppp_generators *g=secp256k1_bppp_generators_parse(ctx,d,n); if(g){ size_t ol=n; unsigned char *o=malloc(n?n:1); RET01(secp256k1_bppp_generators_serialize(ctx,g,o,&ol)); if(ol!=n||memcmp(o,d,n)) abort(); free(o); secp256k1_bppp_generators_destroy(ctx,g);} break; }
  case 9: { if(n>=162+32){ unsigned char k[32]={0}; secp256k1_pubkey pk,ek; secp256k1_ecdsa_signature s; k[31]=3; if(!secp256k1_ec_pubkey_create(ctx,&pk,k)) abort(); k[31]=4; if(!secp256k1_ec_pubkey_create(ctx,&ek,k)) abort(); RET01(secp256k1_ecdsa_adaptor_verify(ctx,d,&pk,d+162,&ek)); RET01(secp256k1_ecdsa_adaptor_decrypt(ctx,&s,d+162,d)); } break; }
  case 10: { if(n>=64+32){ secp256k1_pubkey pk; unsigned char out[32]; RET01(secp256k1_ellswift_decode(ctx,&pk,d)); use_pubkey(&pk,d,n); RET01(secp256k1_ellswift_xdh(ctx,out,d,d+32 > d+n-64 ? d : d,d+64,d[0]&1,secp256k1_ellswift_xdh_hash_function_bip324,NULL)); } break; }
  case 11: { /* halfagg: k keys derived, msgs+agg from data */ size_t k=d&&n? d[0]%5:0; size_t need=1+k*32; if(n>=need){ secp256k1_xonly_pubkey pks[5]; size_t i; unsigned char sk[32]={0}; for(i=0;i<k;i++){ secp256k1_keypair kp; sk[31]=i+1; if(!secp256k1_keypair_create(ctx,&kp,sk)) abort(); if(!secp256k1_keypair_xonly_pub(ctx,&pks[i],NULL,&kp)) abort(); } RET01(secp256k1_schnorrsig_aggverify(ctx,pks,d+1,k,d+need>d+n?d:d+ (need<n?need:n-0),n-need)); } break; }
  case 12: { /* bppp norm arg verify */ if(n>=1+32){ size_t gl=1u<<(d[0]&3), hl=1u<<((d[0]>>2)&3); secp256k1_bppp_generators *gens=secp256k1_bppp_generators_create(ctx,gl+hl); secp256k1_scalar rho, c[8]; secp256k1_sha256 tr; secp256k1_scratch *scr=secp256k1_scratch_space_create(ctx, 1000*(d[0]>>4)); secp256k1_ge commit; size_t i; int ov;
       secp256k1_scalar_set_b32(&rho,d+1,&ov); for(i=0;i<8;i++) secp256k1_scalar_set_int(&c[i],i+1); commit=secp256k1_ge_const_g; secp256k1_sha256_initialize(&tr);
       RET01(secp256k1_bppp_rangeproof_norm_product_verify(ctx,scr,d+33,n-33,&tr,&rho,gens,gl,c,hl,&commit)); secp256k1_scratch_space_destroy(ctx,scr); secp256k1_bppp_generators_destroy(ctx,gens);} break; }
  default: break;
  }
  free(d);
  if(ncb){ fprintf(stderr,"callback fired op=%d\n",op%20); abort(); }
  return 0;
}
/* seeds */
static void wr(const char *dir, const char *name, unsigned char op, const unsigned char *p, size_t n){ char path[512]; FILE *f; snprintf(path,sizeof path,"%s/%s",dir,name); f=fopen(path,"wb"); fputc(op,f); fwrite(p,1,n,f); fclose(f);} 
static void gen_seed(const char *dir){
  unsigned char buf[8000]; unsigned char k[32]={0}, m[32]={2}, bl[32]={0}, nonce[32]={5}; secp256k1_pubkey pk; size_t l;
  k[31]=3; secp256k1_ec_pubkey_create(ctx,&pk,k); l=65; secp256k1_ec_pubkey_serialize(ctx,buf,&l,&pk,SECP256K1_EC_UNCOMPRESSED); wr(dir,"pk65",0,buf,65); l=33; secp256k1_ec_pubkey_serialize(ctx,buf,&l,&pk,SECP256K1_EC_COMPRESSED); wr(dir,"pk33",0,buf,33);
  { secp256k1_ecdsa_signature s; secp256k1_ecdsa_sign(ctx,&s,m,k,NULL,NULL); l=80; secp256k1_ecdsa_signature_serialize_der(ctx,buf,&l,&s); wr(dir,"der",1,buf,l); secp256k1_ecdsa_signature_serialize_compact(ctx,buf,&s); wr(dir,"compact",2,buf,64); }
  { secp256k1_keypair kp; secp256k1_xonly_pubkey xo; secp256k1_keypair_create(ctx,&kp,k); secp256k1_keypair_xonly_pub(ctx,&xo,NULL,&kp); secp256k1_xonly_pubkey_serialize(ctx,buf,&xo); secp256k1_schnorrsig_sign32(ctx,buf+32,m,&kp,NULL); memcpy(buf+96,m,32); wr(dir,"schnorr",3,buf,128); }
  { secp256k1_pedersen_commitment c; secp256k1_generator g; size_t pl; int e; for(e=-1;e<4;e+=2){ char nm[32]; bl[31]=7; secp256k1_generator_generate(ctx,&g,m); secp256k1_pedersen_commit(ctx,&c,bl,1234567,&g); secp256k1_pedersen_commitment_serialize(ctx,buf,&c); secp256k1_generator_serialize(ctx,buf+33,&g); pl=5134; if(secp256k1_rangeproof_sign(ctx,buf+66,&pl,e<0?0:100,&c,bl,nonce,e,e<0?0:8,1234567,(const unsigned char*)"hello",e<0?0:5,buf,5,&g)){ snprintf(nm,sizeof nm,"rp%d",e); wr(dir,nm,5,buf,66+pl);} } }
  { secp256k1_surjectionproof sp; secp256k1_fixed_asset_tag tags[4]; secp256k1_generator gs[5]; unsigned char bk[5][32]; size_t idx, i; memset(tags,0,sizeof tags); memset(bk,0,sizeof bk); for(i=0;i<4;i++){ tags[i].data[0]=i; bk[i][31]=i+1; secp256k1_generator_generate_blinded(ctx,&gs[i],tags[i].data,bk[i]); } bk[4][31]=9; secp256k1_generator_generate_blinded(ctx,&gs[4],tags[2].data,bk[4]);
    if(secp256k1_surjectionproof_initialize(ctx,&sp,&idx,tags,4,3,&tags[2],100,m) && secp256k1_surjectionproof_generate(ctx,&sp,gs,4,&gs[4],idx,bk[idx],bk[4])){ l=sizeof buf; secp256k1_surjectionproof_serialize(ctx,buf,&l,&sp); wr(dir,"surj",6,buf,l);} }
  { secp256k1_whitelist_signature ws; secp256k1_pubkey on[4], off[4], sub; unsigned char ok[32]={0}, sk[32]={0}, sum[32]; int i; for(i=0;i<=3;i++){ ok[31]=1+i; ok[30]=1; secp256k1_ec_pubkey_create(ctx,&on[i],ok); ok[30]=2; secp256k1_ec_pubkey_create(ctx,&off[i],ok);} sub=on[3]; /* sub = key(1,4) */
    ok[31]=2; ok[30]=1; /* online sec idx1 */ memset(sum,0,32); sum[30]=2+1; sum[31]=2+4; /* offline(2,2)+sub(1,4) */ if(secp256k1_whitelist_sign(ctx,&ws,on,off,3,&sub,ok,sum,1)){ l=sizeof buf; secp256k1_whitelist_signature_serialize(ctx,buf,&l,&ws); wr(dir,"wl",7,buf,l);} (void)sk; }
  { secp256k1_bppp_generators *g=secp256k1_bppp_generators_create(ctx,4); l=33*4; secp256k1_bppp_generators_serialize(ctx,g,buf,&l); wr(dir,"gens",8,buf,l); secp256k1_bppp_generators_destroy(ctx,g); }
  { unsigned char ek[32]={0}; secp256k1_pubkey epk; ek[31]=4; secp256k1_ec_pubkey_create(ctx,&epk,ek); if(secp256k1_ecdsa_adaptor_encrypt(ctx,buf,k,&epk,m,NULL,NULL)){ memcpy(buf+162,m,32); wr(dir,"adaptor",9,buf,194);} }
  { secp256k1_ellswift_create(ctx,buf,k,NULL); memcpy(buf+64,k,32); wr(dir,"ells",10,buf,96); }
}
