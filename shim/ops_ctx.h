/* context table ops (C20) */

/* an independent, correct SHA-256 compression function (written from FIPS 180-4) */
static const uint32_t vs_K[64] = {
0x428a2f98,0x71374491,0xb5c0fbcf,0xe9b5dba5,0x3956c25b,0x59f111f1,0x923f82a4,0xab1c5ed5,0xd807aa98,0x12835b01,0x243185be,0x550c7dc3,0x72be5d74,0x80deb1fe,0x9bdc06a7,0xc19bf174,
0xe49b69c1,0xefbe4786,0x0fc19dc6,0x240ca1cc,0x2de92c6f,0x4a7484aa,0x5cb0a9dc,0x76f988da,0x983e5152,0xa831c66d,0xb00327c8,0xbf597fc7,0xc6e00bf3,0xd5a79147,0x06ca6351,0x14292967,
0x27b70a85,0x2e1b2138,0x4d2c6dfc,0x53380d13,0x650a7354,0x766a0abb,0x81c2c92e,0x92722c85,0xa2bfe8a1,0xa81a664b,0xc24b8b70,0xc76c51a3,0xd192e819,0xd6990624,0xf40e3585,0x106aa070,
0x19a4c116,0x1e376c08,0x2748774c,0x34b0bcb5,0x391c0cb3,0x4ed8aa4a,0x5b9cca4f,0x682e6ff3,0x748f82ee,0x78a5636f,0x84c87814,0x8cc70208,0x90befffa,0xa4506ceb,0xbef9a3f7,0xc67178f2};
static long g_alt_compress_calls = 0;
static long g_alt_zero_block_calls = 0;     /* the callback contract says "one or more" blocks: an invocation with n_blocks == 0 is counted */
#define VS_ROR(x,n) (((x) >> (n)) | ((x) << (32 - (n))))
static void vs_sha256_compress(uint32_t *st, const unsigned char *blk, size_t nb) {
    if (nb == 0) __atomic_add_fetch(&g_alt_zero_block_calls, 1, __ATOMIC_RELAXED);
    while (nb--) {
        uint32_t w[64], a, b, c, d, e, f, g, h, t1, t2; int i;
        for (i = 0; i < 16; i++) w[i] = ((uint32_t)blk[4*i] << 24) | ((uint32_t)blk[4*i+1] << 16) | ((uint32_t)blk[4*i+2] << 8) | blk[4*i+3];
        for (i = 16; i < 64; i++) {
            uint32_t s0 = VS_ROR(w[i-15],7) ^ VS_ROR(w[i-15],18) ^ (w[i-15] >> 3);
            uint32_t s1 = VS_ROR(w[i-2],17) ^ VS_ROR(w[i-2],19) ^ (w[i-2] >> 10);
            w[i] = w[i-16] + s0 + w[i-7] + s1;
        }
        a=st[0]; b=st[1]; c=st[2]; d=st[3]; e=st[4]; f=st[5]; g=st[6]; h=st[7];
        for (i = 0; i < 64; i++) {
            t1 = h + (VS_ROR(e,6) ^ VS_ROR(e,11) ^ VS_ROR(e,25)) + ((e & f) ^ (~e & g)) + vs_K[i] + w[i];
            t2 = (VS_ROR(a,2) ^ VS_ROR(a,13) ^ VS_ROR(a,22)) + ((a & b) ^ (a & c) ^ (b & c));
            h=g; g=f; f=e; e=d+t1; d=c; c=b; b=a; a=t1+t2;
        }
        st[0]+=a; st[1]+=b; st[2]+=c; st[3]+=d; st[4]+=e; st[5]+=f; st[6]+=g; st[7]+=h;
        blk += 64;
        __atomic_add_fetch(&g_alt_compress_calls, 1, __ATOMIC_RELAXED);
    }
}
/* an incorrect one: the library's self-test on installation must refuse it */
static void vs_sha256_compress_bad(uint32_t *st, const unsigned char *blk, size_t nb) {
    vs_sha256_compress(st, blk, nb); st[3] ^= 1;
}

static int free_slot(void) { int i; for (i = 1; i < NCTX; i++) if (!g_ctx[i]) return i; return -1; }

/* ctx_create flags -> slot */
static void op_ctx_create(void) {
    int s = free_slot(); unsigned int flags = (unsigned int)A_u64(0);
    if (s < 0) { bad("no free ctx slot", 0); return; }
    CALL(g_ctx[s] = secp256k1_context_create(flags));
    if (g_ctx[s]) { g_ctx_mem[s] = NULL; ctx_install(g_ctx[s]); R_int(s); } else R_int(-1);
}
/* ctx_prealloc_create flags -> slot size */
static void op_ctx_prealloc_create(void) {
    int s = free_slot(); unsigned int flags = (unsigned int)A_u64(0); size_t sz; void *mem;
    if (s < 0) { bad("no free ctx slot", 0); return; }
    CALL(sz = secp256k1_context_preallocated_size(flags));
    mem = xmalloc(sz);
    CALL(g_ctx[s] = secp256k1_context_preallocated_create(mem, flags));
    if (g_ctx[s]) { g_ctx_mem[s] = mem; ctx_install(g_ctx[s]); R_int(s); } else { free(mem); R_int(-1); }
    R_u64(sz);
}
static void op_ctx_clone(void) {
    int s = free_slot();
    if (s < 0) { bad("no free ctx slot", 0); return; }
    CALL(g_ctx[s] = secp256k1_context_clone(ctx));
    if (g_ctx[s]) { g_ctx_mem[s] = NULL; R_int(s); } else R_int(-1);
}
static void op_ctx_prealloc_clone(void) {
    int s = free_slot(); size_t sz; void *mem;
    if (s < 0) { bad("no free ctx slot", 0); return; }
    CALL(sz = secp256k1_context_preallocated_clone_size(ctx));
    mem = xmalloc(sz);
    CALL(g_ctx[s] = secp256k1_context_preallocated_clone(ctx, mem));
    if (g_ctx[s]) { g_ctx_mem[s] = mem; R_int(s); } else { free(mem); R_int(-1); }
    R_u64(sz);
}
/* ctx_destroy slot */
static void op_ctx_destroy(void) {
    int s = (int)A_int(0);
    if (s <= 0 || s >= NCTX || !g_ctx[s]) { bad("bad slot", 0); return; }
    if (g_ctx_mem[s]) { CALL(secp256k1_context_preallocated_destroy(g_ctx[s])); free(g_ctx_mem[s]); g_ctx_mem[s] = NULL; }
    else CALL(secp256k1_context_destroy(g_ctx[s]));
    g_ctx[s] = NULL; R_int(1);
}
static void op_ctx_randomize(void) {
    unsigned char *seed = A_fix(0, 32, 1); int r;
    if (g_bad) return;
    CALL(r = secp256k1_context_randomize(ctx, seed)); R_int(r);
}
/* ctx_set_compress mode: 0 = reset (NULL), 1 = independent correct implementation, 2 = incorrect implementation */
static void op_ctx_set_compress(void) {
    long m = A_int(0);
    CALL(secp256k1_context_set_sha256_compression(ctx, m == 0 ? NULL : (m == 1 ? vs_sha256_compress : vs_sha256_compress_bad)));
    R_int(ctx->hash_ctx.fn_sha256_compression == vs_sha256_compress ? 1 : (ctx->hash_ctx.fn_sha256_compression == vs_sha256_compress_bad ? 2 : 0));
}
static void op_ctx_alt_calls(void) { R_int(g_alt_compress_calls); R_int(g_alt_zero_block_calls); }
/* blinding state of the current context as bytes (for evidence: distinct states seen) */
static void op_ctx_state(void) {
    unsigned char b[32]; secp256k1_scalar_get_b32(b, &ctx->ecmult_gen_ctx.scalar_offset);
    R_int(ctx->ecmult_gen_ctx.built); R_hex(b, 32);
    R_int(ctx->hash_ctx.fn_sha256_compression == secp256k1_sha256_transform ? 0 : 1);
}
/* ctx_static_copy -> slot holding a byte copy of secp256k1_context_static with counting callbacks */
static void op_ctx_static_copy(void) {
    int s = free_slot(); secp256k1_context *c;
    if (s < 0) { bad("no free ctx slot", 0); return; }
    c = (secp256k1_context *)xmalloc(sizeof(*c)); memcpy(c, secp256k1_context_static, sizeof(*c));
    c->illegal_callback.fn = cb_ill; c->illegal_callback.data = NULL; c->error_callback.fn = cb_err; c->error_callback.data = NULL;
    g_ctx[s] = c; g_ctx_mem[s] = c; R_int(s);
}
/* ctx_free_copy slot */
static void op_ctx_free_copy(void) { int s = (int)A_int(0); if (s <= 0 || s >= NCTX || !g_ctx[s] || g_ctx_mem[s] != (void *)g_ctx[s]) { bad("bad slot", 0); return; } free(g_ctx[s]); g_ctx[s] = NULL; g_ctx_mem[s] = NULL; R_int(1); }
static void op_ctx_list(void) { int i; for (i = 0; i < NCTX; i++) if (g_ctx[i]) R_int(i); }
static void op_ill_msg(void) { R_str(g_ill_msg[0] ? "msg" : "none"); }
static void op_selftest(void) { CALL(secp256k1_selftest()); R_int(1); }
static void op_prealloc_size(void) { size_t s; CALL(s = secp256k1_context_preallocated_size((unsigned int)A_u64(0))); R_u64(s); }

#define OPS_CTX \
    { "ctx_create", op_ctx_create }, { "ctx_prealloc_create", op_ctx_prealloc_create }, \
    { "ctx_clone", op_ctx_clone }, { "ctx_prealloc_clone", op_ctx_prealloc_clone }, \
    { "ctx_destroy", op_ctx_destroy }, { "ctx_randomize", op_ctx_randomize }, \
    { "ctx_set_compress", op_ctx_set_compress }, { "ctx_alt_calls", op_ctx_alt_calls }, \
    { "ctx_state", op_ctx_state }, { "ctx_static_copy", op_ctx_static_copy }, { "ctx_free_copy", op_ctx_free_copy }, { "ctx_list", op_ctx_list }, { "ill_msg", op_ill_msg }, \
    { "selftest", op_selftest }, { "prealloc_size", op_prealloc_size },
