"""Client side of the vshim pipe protocol."""
import os, subprocess, tempfile, collections
from . import build

class ShimCrash(Exception):
    def __init__(self, kind, report, cmd, history):
        Exception.__init__(self, kind)
        self.kind = kind; self.report = report; self.cmd = cmd; self.history = history

class ShimError(Exception):
    """harness-level error (unknown op, malformed argument): a bug in the checker, never a verdict"""

class Result:
    __slots__ = ("t", "ill", "err", "m", "live", "cmd", "mod")
    def __init__(self, toks, ill, err, m, live, cmd):
        self.t = toks; self.ill = ill; self.err = err; self.m = m; self.live = live; self.cmd = cmd
    def i(self, k): return int(self.t[k])
    def b(self, k):
        s = self.t[k]
        if s == '-': return None
        if s == '.': return b''
        return bytes.fromhex(s)
    @property
    def ret(self): return int(self.t[0])
    def __len__(self): return len(self.t)
    def __repr__(self): return "Result(%s ill=%d err=%d m=%d live=%d)" % (" ".join(x if len(x) < 70 else x[:66] + ".." for x in self.t), self.ill, self.err, self.m, self.live)

def enc(a):
    if a is None: return '-'
    if isinstance(a, (bytes, bytearray)): return a.hex() if len(a) else '.'
    if isinstance(a, bool): return '1' if a else '0'
    if isinstance(a, int): return str(a)
    if isinstance(a, str): return a
    raise TypeError("cannot encode %r" % (a,))

SAN_ENV = {
    "ASAN_OPTIONS": "abort_on_error=0:detect_leaks=0:halt_on_error=1:exitcode=66:allocator_may_return_null=1:symbolize=1:detect_stack_use_after_return=1",
    "UBSAN_OPTIONS": "print_stacktrace=1:halt_on_error=1:exitcode=67",
    "TSAN_OPTIONS": "halt_on_error=0:exitcode=68",
}

class Shim:
    def __init__(self, config="san", repo=None, path=None, wrapper=None, env=None):
        self.config = config
        # VERIF_SHIM_OVERRIDE: run a specially built shim (e.g. the gcov-instrumented one of tools/coverage.sh) in place of every
        # vshim-based configuration; used for measuring what the workloads reach, never by a registered check
        self.path = path or os.environ.get("VERIF_SHIM_OVERRIDE") or build.build(config, repo)
        self.wrapper = list(wrapper or [])
        self.env = dict(os.environ); self.env.update(SAN_ENV)
        if env: self.env.update(env)
        self.hist = collections.deque(maxlen=40)
        self.ncalls = 0; self.nstarts = 0
        self.p = None; self.errf = None
        self.start()
    def start(self):
        self.stop()
        os.makedirs(os.path.join(build.CACHE, "tmp"), exist_ok=True)
        self.errf = tempfile.TemporaryFile(dir=os.path.join(build.CACHE, "tmp"))
        self.p = subprocess.Popen(self.wrapper + [self.path], stdin=subprocess.PIPE, stdout=subprocess.PIPE, stderr=self.errf,
                                  env=self.env, bufsize=0)
        self.rd = os.fdopen(os.dup(self.p.stdout.fileno()), "rb", buffering=1 << 16)
        self.nstarts += 1
    def stop(self):
        if self.p is not None:
            try: self.p.stdin.close()
            except Exception: pass
            try: self.p.wait(timeout=5)
            except Exception:
                self.p.kill(); self.p.wait()
            try: self.rd.close(); self.p.stdout.close()
            except Exception: pass
            self.p = None
        if self.errf is not None:
            self.errf.close(); self.errf = None
    def _crash(self, cmd):
        try: self.p.wait(timeout=10)
        except Exception:
            self.p.kill(); self.p.wait()
        rc = self.p.returncode
        self.errf.seek(0); rep = self.errf.read().decode("latin1")[-20000:]
        hist = list(self.hist)
        try: self.rd.close(); self.p.stdout.close(); self.p.stdin.close()
        except Exception: pass
        self.p = None; self.errf.close(); self.errf = None
        if "AddressSanitizer" in rep: kind = "asan"
        elif "runtime error" in rep: kind = "ubsan"
        elif "test condition failed" in rep or "VERIFY_CHECK" in rep or "Internal consistency check failed" in rep:
            kind = "verify_check"
            import re as _re
            m = _re.search(r"([A-Za-z0-9_./-]+):(\d+): (?:test condition failed|Internal consistency check failed)?:? ?(.*)", rep)
            if m:
                cond = _re.sub(r"\s+", "", m.group(3))[:80]
                rep = rep + "\n#0 0x0 in %s\n#1 0x0 in %s\n" % (os.path.basename(m.group(1)), cond or "check")
        elif rc == 3: kind = "timeout"
        elif rc is not None and rc < 0: kind = "signal%d" % (-rc)
        else: kind = "exit%s" % rc
        self.start()
        raise ShimCrash(kind, rep, cmd, hist)
    def raw(self, line):
        self.hist.append(line); self.ncalls += 1
        try:
            self.p.stdin.write(line.encode() + b"\n")
        except (BrokenPipeError, OSError):
            self._crash(line)
        out = self.rd.readline()
        if not out:
            self._crash(line)
        out = out.decode().rstrip("\n")
        if out.startswith("TIMEOUT"):
            self._crash(line)
        if out.startswith("ERR"):
            raise ShimError(out + " <- " + line[:200])
        body, _, tail = out.partition(" | ")
        toks = body.split(" ")[1:]
        kv = dict(x.split("=") for x in tail.split())
        r = Result(toks, int(kv["ill"]), int(kv["err"]), int(kv["m"]), int(kv["live"]), line)
        r.mod = tuple(int(x) for x in kv["mod"].split(",")) if "mod" in kv else ()
        return r
    def call(self, op, *args, ctx=None):
        line = ("@%d " % ctx if ctx else "") + op + "".join(" " + enc(a) for a in args)
        return self.raw(line)
    def __del__(self):
        try: self.stop()
        except Exception: pass
