"""Runs the small-group driver (shim/sgdriver.c) and folds its per-family counts into a check."""
import subprocess, os
from . import build
from .shim import SAN_ENV

def run(ctx, families_arg, wanted, orders=("sg13", "sg199")):
    """families_arg: driver argument (ecdsa|schnorr|halfagg|adaptor|misc); wanted: {family_name: violation_key_suffix}.
    Only two shards do the work (one per order)."""
    for i, cfg in enumerate(orders):
        if ctx.shard != (i % ctx.nshards): continue
        path = build.build(cfg, ctx.repo)
        env = dict(os.environ); env.update(SAN_ENV)
        try:
            r = subprocess.run([path, families_arg, "seed%d" % ctx.seed], capture_output=True, text=True, env=env, timeout=900)
        except subprocess.TimeoutExpired:
            from .runner import Inconclusive
            raise Inconclusive("small-group driver %s timed out" % cfg)
        out = r.stdout
        if r.returncode != 0 or "SGDONE" not in out:
            ctx.fail("%s:smallgroup:%s:driver_died" % (ctx.prop, cfg), "rc=%d\n%s\n%s" % (r.returncode, out[-2000:], r.stderr[-4000:]), cmds=[path + " " + families_arg], config=cfg)
            continue
        for line in out.splitlines():
            if line.startswith("SGFAIL"):
                ctx.fail("%s:smallgroup:%s:%s" % (ctx.prop, cfg, line[7:].replace(" ", "_")), line, cmds=[path + " " + families_arg], config=cfg)
            if not line.startswith("FAM "): continue
            parts = line.split(); name = parts[1]
            if name not in wanted: continue
            kv = dict(p.split("=", 1) for p in parts[2:])
            tried = int(kv["tried"]); valid = int(kv["valid"]); acc = int(kv["accepted"])
            ctx.bulk("smallgroup:" + name, "%s:%s" % (cfg, name), tried, "%s:%s" % (cfg, name))
            ctx.count("smallgroup_valid_artifacts:%s:%s" % (cfg, name), valid)
            if valid == 0:
                ctx.fail("%s:smallgroup:%s:%s:no_valid_artifact" % (ctx.prop, cfg, name), "the driver produced no valid artifact: the monitor observed nothing", cmds=[path + " " + families_arg], config=cfg)
            if acc:
                ctx.fail("%s:smallgroup:%s:%s" % (ctx.prop, name, wanted[name]), "%s: %d of %d re-encodings (value + k*order) of scalars in valid artifacts were accepted; first witness %s" % (cfg, acc, tried, kv.get("witness")), cmds=[path + " " + families_arg], config=cfg)
