"""Input-immutability monitor (DESIGN 9.6, round 7): the shim reports which of the byte blocks it parsed from the command
line were changed by the call ("mod=i,j").  INOUT lists, per shim op, the argument positions that the API documents as
in/out (or that the shim op itself rewrites); a change to any other block is a violation ("input_argument_modified")."""
INOUT = {
    # op: argument positions the API documents as in/out (header prototypes without const)
    "seckey_negate": (0,), "seckey_tweak_add": (0,), "seckey_tweak_mul": (0,),          # unsigned char *seckey
    "pubkey_negate": (0,), "pubkey_tweak_add": (0,), "pubkey_tweak_mul": (0,),          # secp256k1_pubkey *pubkey
    "keypair_xonly_tweak_add": (0,),                                                    # secp256k1_keypair *keypair
    "musig_nonce_gen": (2,),                                                            # unsigned char *session_secrand32 (zeroed)
    "musig_partial_sign": (1,),                                                         # secp256k1_musig_secnonce *secnonce (zeroed)
    "musig_tweak_add": (0,),                                                            # secp256k1_musig_keyagg_cache *keyagg_cache
    "pedersen_bgbs": (2,),                                                              # unsigned char * const *blinding_factor (last entry rewritten)
    "sig_parse_compact_over": (0,), "sig_parse_der_over": (0,),                         # the shim passes an existing object as the output
    "surj_generate": (0,),                                                              # secp256k1_surjectionproof *proof
}
