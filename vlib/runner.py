"""Shard runner, verdict / known-finding plumbing and evidence writer."""
import os, sys, json, time, hashlib, random, importlib, traceback, multiprocessing, re
from . import build
from .shim import Shim, ShimCrash, ShimError, Result
from .inout import INOUT

VERIF = build.VERIF
EVID = os.environ.get("VERIF_EVIDENCE_DIR", os.path.join(VERIF, "evidence"))
NSHARDS = int(os.environ.get("VERIF_SHARDS", "16"))

def seed_value():
    try: return int(os.environ.get("VERIF_SEED", "1"))
    except ValueError: return int.from_bytes(hashlib.sha256(os.environ["VERIF_SEED"].encode()).digest()[:4], "big")

def _frames(report, k=4):
    fr = re.findall(r"#\d+ 0x[0-9a-f]+ in (\S+)", report)
    fr = [f for f in fr if not f.startswith(("__asan", "__ubsan", "__interceptor", "__sanitizer", "abort", "raise", "__GI_", "_start", "__libc"))]
    return fr[:k]

class Inconclusive(Exception):
    pass

class Ctx:
    """per-shard state handed to the property module"""
    def __init__(self, prop, tier, seed, shard, nshards, configs, repo=None):
        self.prop = prop; self.tier = tier; self.seed = seed; self.shard = shard; self.nshards = nshards
        self.configs = configs; self.repo = repo
        self.rng = random.Random(hashlib.sha256(("%d|%s|%d" % (seed, prop, shard)).encode()).digest())
        self.shims = {}
        self.evals = 0; self.distinct = set(); self.ops = {}; self.classes = {}; self.samples = []; self.sample_keys = set()
        self.viol = {}; self.counters = {}; self.crashes = 0; self.unmodelled = 0
        self.quick = (tier == "quick")
        self.scale = 1.0
    # ---- sizes
    def n(self, quick, thorough):
        tot = int((quick if self.quick else thorough) * self.scale)
        base, rem = divmod(tot, self.nshards)
        return base + (1 if self.shard < rem else 0)
    def iters(self, quick, thorough):
        """this shard's share of a counted workload as GLOBAL case indices (shard, shard + nshards, ...): selectors of the form
        `it % K` then cycle through every kind across the shards even when a shard gets fewer than K cases"""
        for k in range(self.n(quick, thorough)): yield k * self.nshards + self.shard
    def mine(self, seq):
        """deterministic partition of an enumerated finite family over the shards (sub-sampled when self.scale < 1)"""
        keep = max(1, int(round(1 / self.scale))) if self.scale < 1 else 1
        for i, x in enumerate(seq):
            if i % self.nshards == self.shard and (keep == 1 or (i // self.nshards + self.seed) % keep == 0):
                yield x
    def cfgs(self, secondary=0.3):
        """the build configurations of this tier; in the quick tier every configuration after the first runs the same workloads at a
        fraction of their size (the alternative limb layouts / production build get the boundary-heavy head of each workload)"""
        for i, c in enumerate(self.configs):
            self.scale = secondary if (self.quick and i > 0) else 1.0
            yield c
        self.scale = 1.0
    # ---- shims
    def sh(self, config="san"):
        if config not in self.shims:
            self.shims[config] = Shim(config, self.repo)
        return self.shims[config]
    # verification-type operations whose documentation does not restrict the context: a sample of the calls made by any check is
    # repeated on a byte copy of secp256k1_context_static and must give the same reply without an illegal-argument report
    def _static_ok(self, op):
        """op maps to a public API function whose documentation does not say '(not secp256k1_context_static)' (the header's own rule,
        parsed by the C20 check)"""
        if not hasattr(self, "_static_ops"):
            try:
                from props import c20
                restricted = c20.restricted_functions(self.repo)[0]
                self._static_ops = set(o for o, api in c20.OP_API.items() if api not in restricted and o not in c20.INTERNAL)
            except Exception: self._static_ops = set()
        return op in self._static_ops
    def _mirror(self, s, op, args, config, r):
        key = (config, s.nstarts)
        if getattr(self, "_static_key", None) != key:
            try: sc = s.call("ctx_static_copy")
            except ShimCrash: return
            self._static_key = key; self._static_slot = int(sc.t[0])
        try: r2 = s.call(op, *args, ctx=self._static_slot)
        except ShimCrash as e:
            self.fail("%s:%s:static_context_mirror:crash:%s" % (self.prop, op, e.kind), e.report[-3000:], cmds=e.history, config=config); return
        self.count("static_context_mirrored_calls")
        self.check(r2.t == r.t and r2.ill == 0 and r2.err == 0, "%s:static_context_mirror:%s" % (op, "illegal_callback" if r2.ill else "reply_differs"),
                   "full context: %s | static copy: %s ill=%d" % (" ".join(r.t)[:200], " ".join(r2.t)[:200], r2.ill), config)
    def _mirror_misaligned(self, s, op, args, config, r):
        """the same call with every argument / output block placed K bytes past a 16-byte boundary: byte-array arguments carry no
        alignment requirement, so the reply (outputs and wiped buffers included) must be identical"""
        k = self.rng.choice((1, 2, 3, 4, 5, 6, 7, 9, 12))
        try: r2 = s.call(op, *args, "!misalign=%d" % k)
        except ShimCrash as e:
            self.fail("%s:%s:misaligned_buffers:crash:%s" % (self.prop, op, e.kind), e.report[-3000:], cmds=e.history, config=config); return
        self.count("misaligned_buffer_mirrored_calls")
        self.check(r2.t == r.t and r2.ill == r.ill and r2.err == r.err, "%s:misaligned_buffers:reply_differs" % op,
                   "aligned: %s | buffers at +%d: %s" % (" ".join(r.t)[:300], k, " ".join(r2.t)[:300]), config)
    def _misalign_ok(self, op):
        # only operations whose pointer arguments are byte arrays or opaque unsigned-char-array objects (no size_t / uint64 members)
        if not hasattr(self, "_mis_ops"):
            try:
                from props import c20
                self._mis_ops = set(o for o in c20.OP_API if o not in c20.INTERNAL and not o.startswith(("surj_", "wl_", "bppp_", "ctx_", "rangeproof_", "pubkey_sort", "pubkey_combine", "musig_pubkey_agg", "musig_nonce_agg", "musig_partial_sig_agg", "halfagg_")))
            except Exception: self._mis_ops = set()
        return op in self._mis_ops
    def _mirror_alt(self, s, op, args, config, r):
        """results depend only on arguments: the same call on a second context (created separately, randomized, with a replaced but
        correct SHA-256 compression function) must give the identical reply"""
        key = (config, s.nstarts)
        if getattr(self, "_alt_key", None) != key:
            try:
                sc = s.call("ctx_create", 1); slot0 = int(sc.t[0])
                s.call("ctx_set_compress", 1, ctx=slot0); s.call("ctx_randomize", hashlib.sha256(b"alt" + str(self.seed).encode()).digest(), ctx=slot0)
                # ... and the mirror runs on a CLONE of that context (malloc or preallocated, by shard parity): a clone computes what its source does
                cl = s.call("ctx_clone" if self.shard % 2 == 0 else "ctx_prealloc_clone", ctx=slot0); slot = int(cl.t[0])
                if slot < 0: slot = slot0
            except (ShimCrash, ValueError, IndexError): return
            self._alt_key = key; self._alt_slot = slot
        try: r2 = s.call(op, *args, ctx=self._alt_slot)
        except ShimCrash as e:
            self.fail("%s:%s:alt_context_mirror:crash:%s" % (self.prop, op, e.kind), e.report[-3000:], cmds=e.history, config=config); return
        self.count("alt_context_mirrored_calls")
        self.check(r2.t == r.t and r2.ill == r.ill and r2.err == r.err, "%s:alt_context_mirror:reply_differs" % op,
                   "default context: %s | randomized context with replaced SHA-256 compression: %s" % (" ".join(r.t)[:300], " ".join(r2.t)[:300]), config)
    def call(self, op, *args, config="san", ill=0, c=None):
        """returns Result, or None if the shim died (recorded as a violation). ill: 0 = callbacks forbidden,
        1 = illegal callback allowed, 2 = illegal callback required"""
        s = self.sh(config)
        if c is None and ill == 0 and self.rng.random() < 0.02 and self._misalign_ok(op) and not any(isinstance(a, str) and a.startswith("!") for a in args):
            try:
                r0 = s.call(op, *args, ctx=None)
                if not r0.ill and not r0.err: self._mirror_misaligned(s, op, args, config, r0)
            except ShimCrash: pass
        if c is None and ill == 0 and not op.startswith(("ctx_", "fork_")) and op not in ("selftest", "ill_msg") and self.rng.random() < 0.015:
            try:
                r0 = s.call(op, *args, ctx=None)
                if not r0.ill and not r0.err: self._mirror_alt(s, op, args, config, r0)
            except ShimCrash: pass
        if c is None and ill == 0 and self.rng.random() < 0.03 and self._static_ok(op):
            try:
                r0 = s.call(op, *args, ctx=None)
                if not r0.ill and not r0.err: self._mirror(s, op, args, config, r0)
            except ShimCrash: pass
        try:
            r = s.call(op, *args, ctx=c)
        except ShimCrash as e:
            self.crashes += 1
            fr = _frames(e.report)
            key = "%s:%s:%s:%s" % (self.prop, op, e.kind, "/".join(fr[:3]) if fr else "noframes")
            self.fail(key, "shim died (%s) on config %s\n%s" % (e.kind, config, e.report[-6000:]), cmds=e.history, config=config)
            return None
        if r.mod:
            if os.environ.get("VERIF_MOD_DISCOVER"):
                with open(os.environ["VERIF_MOD_DISCOVER"], "a") as f: f.write("%s %s\n" % (op, ",".join(map(str, r.mod))))
            else:
                self.count("input_monitor_changed_blocks_seen", len(r.mod))      # liveness of the monitor: documented in/out arguments do change
                for k in r.mod:
                    if k not in INOUT.get(op, ()):
                        self.fail("%s:%s:input_argument_modified:arg%d" % (self.prop, op, k), "the call changed the bytes of input argument %d, which the API declares const (or the shim passes as a pure input): %r" % (k, r), cmds=list(s.hist), config=config)
        if r.err:
            self.fail("%s:%s:error_callback" % (self.prop, op), "error callback fired: %r" % (r,), cmds=list(s.hist), config=config)
        if r.ill and ill == 0:
            self.fail("%s:%s:illegal_callback" % (self.prop, op), "illegal-argument callback fired: %r" % (r,), cmds=list(s.hist), config=config)
        if ill == 2 and not r.ill:
            self.fail("%s:%s:no_illegal_callback" % (self.prop, op), "documented illegal use did not reach the callback: %r" % (r,), cmds=list(s.hist), config=config)
        return r
    # ---- bookkeeping
    def ev(self, op, cls, nontrivial, *parts):
        """one checked record. parts: bytes/ints identifying the case (for distinct counting)"""
        self.evals += 1
        self.ops[op] = self.ops.get(op, 0) + 1
        self.classes[cls] = self.classes.get(cls, 0) + 1
        if nontrivial:
            h = hashlib.blake2b(digest_size=8)
            h.update(op.encode())
            for x in parts:
                if isinstance(x, (bytes, bytearray)): h.update(bytes(x))
                else: h.update(repr(x).encode())
                h.update(b"|")
            self.distinct.add(h.digest())
        if cls not in self.sample_keys and len(self.samples) < 6:
            self.sample_keys.add(cls)
            self.samples.append({"op": op, "class": cls, "case": [_show(x) for x in parts][:8]})
    def bulk(self, op, cls, n, tag):
        """n distinct cases measured by an external driver (each is a distinct (artifact, re-encoding) by construction)"""
        self.evals += n
        self.ops[op] = self.ops.get(op, 0) + n
        self.classes[cls] = self.classes.get(cls, 0) + n
        for i in range(n):
            self.distinct.add(hashlib.blake2b(("%s:%d" % (tag, i)).encode(), digest_size=8).digest())
        if cls not in self.sample_keys and len(self.samples) < 6:
            self.sample_keys.add(cls); self.samples.append({"op": op, "class": cls, "case": ["%d cases enumerated by shim/sgdriver.c" % n]})
    def count(self, name, k=1):
        self.counters[name] = self.counters.get(name, 0) + k
    def fail(self, key, detail, cmds=None, config="san"):
        if key in self.viol:
            self.viol[key]["count"] += 1
            return
        if cmds is None:
            cmds = list(self.sh(config).hist) if config in self.shims else []
        self.viol[key] = {"key": key, "detail": detail[:8000], "config": config, "cmds": list(cmds)[-40:], "count": 1}
    def check(self, cond, key, detail="", config="san"):
        if not cond:
            self.fail("%s:%s" % (self.prop, key), detail, config=config)
        return cond
    def result(self):
        for s in self.shims.values():
            s.stop()
        return {"evals": self.evals, "distinct": self.distinct, "ops": self.ops, "classes": self.classes, "samples": self.samples,
                "viol": self.viol, "counters": self.counters, "crashes": self.crashes, "shim_calls": sum(s.ncalls for s in self.shims.values())}

def _show(x):
    if isinstance(x, (bytes, bytearray)):
        h = bytes(x).hex()
        return h if len(h) <= 140 else h[:128] + "..(%d bytes)" % len(x)
    return x if isinstance(x, (int, str, bool, type(None))) else repr(x)[:200]

def _shard_entry(a):
    modname, prop, tier, seed, shard, nshards, configs, repo = a
    mod = importlib.import_module(modname)
    ctx = Ctx(prop, tier, seed, shard, nshards, configs, repo)
    try:
        mod.run(ctx)
    except Inconclusive as e:
        r = ctx.result(); r["inconclusive"] = str(e); return r
    except ShimCrash as e:
        # a workload that talks to the shim directly (Shim.raw) and does not expect the library to die: the death is the observation
        fr = _frames(e.report)
        toks = [t for t in (e.cmd or "?").split(" ") if t and not t.startswith("@")]
        ctx.fail("%s:%s:%s:%s" % (prop, toks[0] if toks else "?", e.kind, "/".join(fr[:3]) if fr else "noframes"),
                 "shim died (%s), shard stopped early\n%s" % (e.kind, e.report[-6000:]), cmds=e.history, config=configs[0] if configs else "san")
        return ctx.result()
    except Exception:
        r = ctx.result(); r["harness_error"] = traceback.format_exc(); return r
    return ctx.result()

def memcheck_replay(ctx, lines, cls):
    """replays shim command lines on the sanitizer-free VERIFY build (config vgv) under valgrind memcheck; any report (a branch or address
    depending on uninitialised memory, an invalid read / write) or a dying process is recorded as a violation of ctx.prop"""
    import subprocess, tempfile
    path = build.build("vgv", ctx.repo)
    tmpd = os.path.join(build.CACHE, "tmp"); os.makedirs(tmpd, exist_ok=True)
    with tempfile.NamedTemporaryFile("w", dir=tmpd, suffix=".vgscript", delete=False) as f: f.write("\n".join(lines) + "\n"); script = f.name
    try:
        with open(script) as fin:
            r = subprocess.run(["valgrind", "-q", "--error-exitcode=0", "--track-origins=no", path], stdin=fin, capture_output=True, text=True, timeout=2400)
    except subprocess.TimeoutExpired:
        raise Inconclusive("memcheck replay timed out")
    finally:
        os.unlink(script)
    replies = [l for l in r.stdout.splitlines() if l.startswith(("ok", "ERR"))]
    ctx.bulk("memcheck_replay", cls, len(replies), "vgv:%s:%d" % (cls, ctx.seed)); ctx.count("memcheck_replayed_commands", len(replies))
    nrep = len([l for l in r.stderr.splitlines() if "uninitialised" in l or "Invalid read" in l or "Invalid write" in l])
    ctx.count("memcheck_reports", nrep)
    if nrep or r.returncode != 0 or len(replies) < len(lines):
        first = r.stderr[:3000]
        fr = re.findall(r"(?:at|by) 0x[0-9A-F]+: (\S+)", first)[:3]
        ctx.fail("%s:memcheck:%s:%s" % (ctx.prop, "report" if nrep else "process_died", "/".join(fr[:2]) if fr else "noframes"),
                 "replayed %d of %d commands, rc=%d, %d memcheck reports\n%s" % (len(replies), len(lines), r.returncode, nrep, first), cmds=lines[max(0, len(replies) - 3):len(replies) + 1], config="vgv")

def load_known():
    try:
        with open(os.path.join(VERIF, "known_findings.json")) as f:
            return json.load(f).get("findings", [])
    except FileNotFoundError:
        return []

def finish(prop, tier, seed, level, coverage, assumptions, viol, t0, inconclusive=None, extra=None):
    """writes evidence, prints verdict lines, returns exit code"""
    known = [k for k in load_known() if k.get("property") == prop]
    open_keys = {k["key"]: k for k in known if k.get("status") == "open"}
    real = []; kf = []
    for key, v in sorted(viol.items()):
        (kf if key in open_keys else real).append(v)
    os.makedirs(os.path.join(EVID, "replay"), exist_ok=True)
    lines = []
    for v in kf:
        lines.append("KNOWN-FINDING: property=%s %s (%s)" % (prop, v["key"], open_keys[v["key"]].get("text", "")[:160]))
    for v in real:
        path = os.path.join(EVID, "replay", "%s-%s.json" % (prop, hashlib.sha256(v["key"].encode()).hexdigest()[:10]))
        with open(path, "w") as f:
            json.dump({"property": prop, "key": v["key"], "config": v["config"], "cmds": v["cmds"], "detail": v["detail"], "seed": seed, "tier": tier}, f, indent=1)
        lines.append("VIOLATION property=%s replay=%s" % (prop, path))
        lines.append("  key=%s count=%d\n  %s" % (v["key"], v["count"], v["detail"][:1500].replace("\n", "\n  ")))
    ev = {"property_id": prop, "tier": tier, "seed": seed, "level": level, "coverage": coverage,
          "assumptions": assumptions, "wall_s": round(time.time() - t0, 2), "violations": len(real)}
    if extra: ev.update(extra)
    ev["known_findings_seen"] = [v["key"] for v in kf]
    if inconclusive: ev["inconclusive"] = inconclusive
    with open(os.path.join(EVID, "%s.json" % prop), "w") as f:
        json.dump(ev, f, indent=1, sort_keys=True)
    for l in lines: print(l)
    if real:
        return 1
    if inconclusive:
        print("INCONCLUSIVE property=%s %s" % (prop, inconclusive))
        return 2
    return 0

def run_property(prop, tier, replay=None):
    modname = "props." + prop.lower()
    mod = importlib.import_module(modname)
    seed = seed_value(); t0 = time.time()
    configs = list(mod.CONFIGS[tier]) if isinstance(getattr(mod, "CONFIGS", None), dict) else ["san"]
    try:
        build.build_many(configs + list(getattr(mod, "EXTRA_BUILDS", [])))
        if hasattr(mod, "prebuild"): mod.prebuild(tier)
    except build.BuildError as e:
        print("HARNESS-ERROR property=%s build failed\n%s" % (prop, e))
        return 2
    nshards = getattr(mod, "SHARDS", {}).get(tier, NSHARDS) if isinstance(getattr(mod, "SHARDS", None), dict) else NSHARDS
    args = [(modname, prop, tier, seed, i, nshards, configs, None) for i in range(nshards)]
    if nshards == 1 or os.environ.get("VERIF_SERIAL"):
        res = [_shard_entry(a) for a in args]
    else:
        with multiprocessing.get_context("fork").Pool(min(nshards, NSHARDS)) as pool:
            res = pool.map(_shard_entry, args, chunksize=1)
    evals = sum(r["evals"] for r in res); distinct = set()
    ops = {}; classes = {}; counters = {}; viol = {}; samples = []; herr = []; inc = []
    for r in res:
        distinct |= r["distinct"]
        for k, v in r["ops"].items(): ops[k] = ops.get(k, 0) + v
        for k, v in r["classes"].items(): classes[k] = classes.get(k, 0) + v
        for k, v in r["counters"].items(): counters[k] = counters.get(k, 0) + v
        for k, v in r["viol"].items():
            if k in viol: viol[k]["count"] += v["count"]
            else: viol[k] = v
        if r.get("harness_error"): herr.append(r["harness_error"])
        if r.get("inconclusive"): inc.append(r["inconclusive"])
    seen = set()
    for r in res:
        for s in r["samples"]:
            if s["class"] not in seen and len(samples) < 12:
                seen.add(s["class"]); samples.append(s)
    cov = {"evaluations": evals, "distinct_nontrivial": len(distinct), "rule": getattr(mod, "RULE", ""), "samples": samples,
           "per_op": dict(sorted(ops.items())), "per_class": dict(sorted(classes.items())), "monitors": dict(sorted(counters.items())),
           "builds": configs, "shards": nshards, "shim_calls": sum(r["shim_calls"] for r in res),
           "shim_crashes": sum(r["crashes"] for r in res), "tree_hash": build.tree_hash()[:16]}
    if hasattr(mod, "post"):
        try:
            mod.post(cov, viol, tier)
        except Inconclusive as e:
            inc.append(str(e))
    inconclusive = None
    if herr:
        inconclusive = "harness error in %d shard(s): %s" % (len(herr), herr[0][-1500:])
    elif inc:
        inconclusive = "; ".join(inc)[:1000]
    elif evals == 0 or len(distinct) < 2:
        inconclusive = "observed nothing (evaluations=%d distinct=%d)" % (evals, len(distinct))
    rc = finish(prop, tier, seed, getattr(mod, "LEVEL", "exploration"), cov, getattr(mod, "ASSUMPTIONS", []), viol, t0, inconclusive)
    okeys = set(k["key"] for k in load_known() if k.get("property") == prop and k.get("status") == "open")
    print("%s tier=%s seed=%d evaluations=%d distinct_nontrivial=%d violations=%d known_findings=%d wall=%.1fs rc=%d" % (prop, tier, seed, evals, len(distinct), len([1 for k in viol if k not in okeys]), len([1 for k in viol if k in okeys]), time.time() - t0, rc))
    return rc

def replay(path, config=None):
    with open(path) as f: d = json.load(f)
    cfgname = config or d.get("config", "san")
    print("replaying %s on config %s: %s" % (path, cfgname, d.get("key")))
    s = Shim(cfgname)
    for c in d.get("cmds", []):
        try:
            r = s.raw(c)
            print("> %s\n< %r" % (c[:300], r))
        except ShimCrash as e:
            print("> %s\n< CRASH %s\n%s" % (c[:300], e.kind, e.report[-3000:])); break
        except ShimError as e:
            print("> %s\n< %s" % (c[:300], e))
    print("expected / detail:\n" + d.get("detail", ""))
    return 0
