"""Build cache: compiles the shim (which #includes the library sources) straight
from the working tree of $VERIF_REPO (default /repo).  A build is keyed by the
hash of every source file under src/ include/ contrib/ plus the shim sources,
the config's flags and the compiler version, so any edit to the tree forces a
rebuild and an unchanged tree re-uses binaries across checks."""
import hashlib, os, subprocess, sys, fcntl, shutil, time

VERIF = os.path.dirname(os.path.dirname(os.path.abspath(__file__)))
REPO = os.environ.get("VERIF_REPO", "/repo")
CACHE = os.environ.get("VERIF_CACHE", os.path.join(VERIF, ".cache"))
GUARD = "SECP256K1_ZKP_VERIF"

MODULES = ["BPPP", "ECDH", "ECDSA_ADAPTOR", "ECDSA_S2C", "ELLSWIFT", "EXTRAKEYS", "GENERATOR",
           "MUSIG", "RANGEPROOF", "SCHNORRSIG", "SCHNORRSIG_HALFAGG", "SURJECTIONPROOF",
           "WHITELIST", "RECOVERY"]
MODDEFS = ["-DENABLE_MODULE_%s=1" % m for m in MODULES]
WARN = ["-Wno-unused-function", "-Wno-unused-variable", "-w"]

SAN = ["-fsanitize=address,undefined", "-fno-sanitize-recover=all", "-fno-omit-frame-pointer"]
WRAP = ["-Wl,--wrap=malloc,--wrap=free,--wrap=calloc,--wrap=realloc"]

def _cfg(cc, opt, defs, extra=(), link=(), src="vshim.c", precomp=True, wrap=True):
    return dict(cc=cc, opt=list(opt), defs=list(defs), extra=list(extra), link=list(link), src=src,
                precomp=precomp, wrap=wrap)

STD = ["-DCOMB_BLOCKS=43", "-DCOMB_TEETH=6", "-DECMULT_WINDOW_SIZE=15"]

CONFIGS = {
    # main functional build: VERIFY + ASan + UBSan, production table sizes, asm, native int128
    "san": _cfg("gcc", ["-O2", "-g"], STD + ["-DUSE_ASM_X86_64=1", "-DVERIFY"], SAN),
    # production code paths (no VERIFY): restrict active, no verify side effects
    # (22 KiB generator table: together with san = 86 KiB and mx_i64 = 2 KiB every check that runs these three sees every comb layout)
    "san_nv": _cfg("gcc", ["-O2", "-g"], ["-DCOMB_BLOCKS=11", "-DCOMB_TEETH=6", "-DECMULT_WINDOW_SIZE=15", "-DUSE_ASM_X86_64=1"], SAN),
    # configuration matrix
    # (also the one configuration built with HAVE_BUILTIN_POPCOUNT, which autotools builds define and cmake builds do not)
    "mx_i64": _cfg("gcc", ["-O2", "-g"], ["-DCOMB_BLOCKS=2", "-DCOMB_TEETH=5", "-DECMULT_WINDOW_SIZE=8",
                                           "-DUSE_FORCE_WIDEMUL_INT64=1", "-DVERIFY", "-DHAVE_BUILTIN_POPCOUNT=1"], SAN),
    "mx_i64_nv": _cfg("gcc", ["-O2", "-g"], ["-DCOMB_BLOCKS=11", "-DCOMB_TEETH=6", "-DECMULT_WINDOW_SIZE=2",
                                              "-DUSE_FORCE_WIDEMUL_INT64=1"], SAN),
    "mx_i128s": _cfg("gcc", ["-O2", "-g"], ["-DCOMB_BLOCKS=11", "-DCOMB_TEETH=6", "-DECMULT_WINDOW_SIZE=15",
                                             "-DUSE_FORCE_WIDEMUL_INT128_STRUCT=1", "-DVERIFY"], SAN),
    "mx_i128s_nv": _cfg("gcc", ["-O2", "-g"], ["-DCOMB_BLOCKS=43", "-DCOMB_TEETH=6", "-DECMULT_WINDOW_SIZE=2",
                                                "-DUSE_FORCE_WIDEMUL_INT128_STRUCT=1"], SAN),
    "mx_noasm": _cfg("gcc", ["-O2", "-g"], ["-DCOMB_BLOCKS=2", "-DCOMB_TEETH=5", "-DECMULT_WINDOW_SIZE=8",
                                             "-DVERIFY"], SAN),
    "mx_noasm_nv": _cfg("gcc", ["-O3", "-g"], ["-DCOMB_BLOCKS=11", "-DCOMB_TEETH=6", "-DECMULT_WINDOW_SIZE=15"], SAN),
    "mx_clang": _cfg("clang", ["-O2", "-gdwarf-4"], STD + ["-DUSE_ASM_X86_64=1", "-DVERIFY"], SAN),
    "mx_w2": _cfg("gcc", ["-O1", "-g"], ["-DCOMB_BLOCKS=43", "-DCOMB_TEETH=6", "-DECMULT_WINDOW_SIZE=2",
                                          "-DUSE_ASM_X86_64=1", "-DVERIFY"], SAN),
    # thread sanitizer
    "tsan": _cfg("gcc", ["-O1", "-g"], STD + ["-DUSE_ASM_X86_64=1"], ["-fsanitize=thread"], ["-lpthread"], wrap=False),
    "tsan_noasm": _cfg("gcc", ["-O1", "-g"], STD, ["-fsanitize=thread"], ["-lpthread"], wrap=False),
    # plain build of the shim for valgrind (helgrind / memcheck): shipped flags
    "vg": _cfg("gcc", ["-O2", "-g"], STD + ["-DUSE_ASM_X86_64=1", "-DVALGRIND"], [], ["-lpthread"], wrap=False),
    # VERIFY build without sanitizers, run under valgrind memcheck by C07: reads of uninitialised memory that steer a branch (ASan is blind to them)
    "vgv": _cfg("gcc", ["-O1", "-g"], STD + ["-DUSE_ASM_X86_64=1", "-DVERIFY"], [], ["-lpthread"], wrap=False),
    # small-group configuration (EXHAUSTIVE_TEST_ORDER): standalone driver, tables recomputed at start
    "sg13": _cfg("gcc", ["-O1", "-g"], ["-DEXHAUSTIVE_TEST_ORDER=13", "-DVERIFY"], SAN, src="sgdriver.c", precomp=False, wrap=False),
    "sg199": _cfg("gcc", ["-O1", "-g"], ["-DEXHAUSTIVE_TEST_ORDER=199", "-DVERIFY"], SAN, src="sgdriver.c", precomp=False, wrap=False),
    # the library as a shared object (production flags) + a public-API driver that watches its writable segment
    "so": dict(_cfg("gcc", ["-O2", "-g"], STD + ["-DUSE_ASM_X86_64=1"], [], ["-lpthread"], src="sodriver.c", wrap=False), so=True),
    "so_tsan": dict(_cfg("gcc", ["-O1", "-g"], STD + ["-DUSE_ASM_X86_64=1"], ["-fsanitize=thread"], ["-lpthread"], src="sodriver.c", wrap=False), so=True),
    # libFuzzer over the untrusted-input entry points (thorough tier of C07)
    "fuzz": _cfg("clang", ["-O1", "-gdwarf-4"], STD + ["-DUSE_ASM_X86_64=1", "-DVERIFY"], ["-fsanitize=fuzzer,address,undefined", "-fno-sanitize-recover=all"], src="fuzzdrv.c", wrap=False),
    # constant-time monitor: the library as its own translation units with the shipped flags + -DVALGRIND, public-API driver, run under memcheck
    "ct_default": dict(_cfg("gcc", ["-O2", "-g", "-std=c90", "-fPIC"], STD + ["-DUSE_ASM_X86_64=1", "-DVALGRIND"], [], [], src="ctdriver.c", wrap=False), ct=True),
    "ct_int64": dict(_cfg("gcc", ["-O2", "-g", "-std=c90", "-fPIC"], STD + ["-DUSE_FORCE_WIDEMUL_INT64=1", "-DVALGRIND"], [], [], src="ctdriver.c", wrap=False), ct=True),
    "ct_i128s": dict(_cfg("gcc", ["-O2", "-g", "-std=c90", "-fPIC"], STD + ["-DUSE_FORCE_WIDEMUL_INT128_STRUCT=1", "-DVALGRIND"], [], [], src="ctdriver.c", wrap=False), ct=True),
    "ct_o3": dict(_cfg("gcc", ["-O3", "-g", "-std=c90", "-fPIC"], STD + ["-DUSE_ASM_X86_64=1", "-DVALGRIND"], [], [], src="ctdriver.c", wrap=False), ct=True),
    "ct_os": dict(_cfg("gcc", ["-Os", "-g", "-std=c90", "-fPIC"], STD + ["-DUSE_ASM_X86_64=1", "-DVALGRIND"], [], [], src="ctdriver.c", wrap=False), ct=True),
    "ct_noasm": dict(_cfg("gcc", ["-O2", "-g", "-std=c90", "-fPIC"], STD + ["-DVALGRIND"], [], [], src="ctdriver.c", wrap=False), ct=True),
    "ct_clang": dict(_cfg("clang", ["-O2", "-gdwarf-4", "-std=c90", "-fPIC"], STD + ["-DUSE_ASM_X86_64=1", "-DVALGRIND"], [], [], src="ctdriver.c", wrap=False), ct=True),
}

# every supported precomputed window size (2..15): a light ecmult workload runs on each in the thorough tier of C05 (quick tiers see 2, 8, 15)
for _w in range(2, 16):
    CONFIGS["mx_win%d" % _w] = _cfg("gcc", ["-O1", "-g"], ["-DCOMB_BLOCKS=11", "-DCOMB_TEETH=6", "-DECMULT_WINDOW_SIZE=%d" % _w, "-DUSE_ASM_X86_64=1", "-DVERIFY"], SAN)

def tree_files(repo=None):
    repo = repo or REPO
    out = []
    for top in ("src", "include", "contrib"):
        for dp, dn, fn in os.walk(os.path.join(repo, top)):
            dn.sort()
            for f in sorted(fn):
                if f.endswith((".c", ".h", ".S", ".s")):
                    out.append(os.path.join(dp, f))
    return out

_tree_hash = {}
def tree_hash(repo=None):
    repo = repo or REPO
    if repo in _tree_hash:
        return _tree_hash[repo]
    h = hashlib.sha256()
    for f in tree_files(repo):
        h.update(os.path.relpath(f, repo).encode() + b"\0")
        with open(f, "rb") as fh:
            h.update(hashlib.sha256(fh.read()).digest())
    _tree_hash[repo] = h.hexdigest()
    return _tree_hash[repo]

def shim_hash():
    h = hashlib.sha256()
    d = os.path.join(VERIF, "shim")
    for f in sorted(os.listdir(d)):
        if f.endswith((".c", ".h")):
            h.update(f.encode())
            with open(os.path.join(d, f), "rb") as fh:
                h.update(fh.read())
    return h.hexdigest()

_ccver = {}
def cc_version(cc):
    if cc not in _ccver:
        _ccver[cc] = subprocess.run([cc, "--version"], capture_output=True, text=True).stdout.splitlines()[0]
    return _ccver[cc]

class BuildError(Exception):
    pass

def _prune(keep):
    """keep at most two tree hashes in the cache"""
    try:
        ents = [e for e in os.listdir(CACHE) if os.path.isdir(os.path.join(CACHE, e))]
    except FileNotFoundError:
        return
    ents = [e for e in ents if e != keep]
    ents.sort(key=lambda e: os.path.getmtime(os.path.join(CACHE, e)), reverse=True)
    for e in ents[1:]:
        shutil.rmtree(os.path.join(CACHE, e), ignore_errors=True)

def command_line(name, cfg, out, repo=None, extra_defs=()):
    repo = repo or REPO
    srcs = [os.path.join(VERIF, "shim", cfg["src"])]
    if cfg["precomp"]:
        srcs += [os.path.join(repo, "src", "precomputed_ecmult.c"), os.path.join(repo, "src", "precomputed_ecmult_gen.c")]
    cmd = [cfg["cc"]] + cfg["opt"] + cfg["defs"] + MODDEFS + ["-D%s=1" % GUARD] + list(extra_defs) + cfg["extra"] + WARN
    cmd += ["-I" + os.path.join(repo, "src"), "-I" + os.path.join(repo, "include"), "-I" + os.path.join(repo, "contrib"),
            "-I" + repo, "-I" + os.path.join(VERIF, "shim")]
    cmd += srcs + ["-o", out] + cfg["link"]
    if cfg["wrap"]:
        cmd += WRAP
    else:
        cmd.insert(1, "-DVSHIM_NO_WRAP=1")
    return cmd

def build(name, repo=None, cfg=None, quiet=True):
    """Returns the path of the binary for config `name`, building it if needed."""
    repo = repo or REPO
    cfg = cfg or CONFIGS[name]
    th = tree_hash(repo)
    key = hashlib.sha256((th + shim_hash() + repr(sorted(cfg.items())) + cc_version(cfg["cc"]) + " ".join(command_line(name, cfg, "OUT", repo))).encode()).hexdigest()[:16]
    d = os.path.join(CACHE, th[:16], name + "-" + key)
    out = os.path.join(d, "vshim")
    if os.path.exists(out):
        return out
    os.makedirs(d, exist_ok=True)
    with open(os.path.join(d, ".lock"), "w") as lk:
        fcntl.flock(lk, fcntl.LOCK_EX)
        if os.path.exists(out):
            return out
        tmp = out + ".tmp%d" % os.getpid()
        cmd = command_line(name, cfg, tmp, repo)
        t0 = time.time()
        if cfg.get("ct"):
            objs = []
            for i, src in enumerate(("secp256k1.c", "precomputed_ecmult.c", "precomputed_ecmult_gen.c")):
                o = os.path.join(d, "lib%d.o" % i)
                c1 = [cfg["cc"]] + cfg["opt"] + cfg["defs"] + MODDEFS + WARN + ["-I" + os.path.join(repo, "src"), "-I" + os.path.join(repo, "include"), "-c", os.path.join(repo, "src", src), "-o", o]
                r = subprocess.run(c1, capture_output=True, text=True)
                if r.returncode != 0:
                    raise BuildError("build of %s (library object) failed:\n%s\n%s" % (name, " ".join(c1), r.stderr[-4000:]))
                objs.append(o)
            cmd = [cfg["cc"], "-O1", "-g" if cfg["cc"] == "gcc" else "-gdwarf-4"] + WARN + ["-I" + os.path.join(repo, "include"), os.path.join(VERIF, "shim", cfg["src"])] + objs + ["-o", tmp]
        if cfg.get("so"):
            # step 1: libsecp256k1.so from the library's own translation units; step 2: the driver against the public headers only
            lib = os.path.join(d, "libsecp256k1.so")
            c1 = [cfg["cc"]] + cfg["opt"] + cfg["defs"] + MODDEFS + cfg["extra"] + WARN + ["-fPIC", "-shared", "-Wl,-z,now", "-I" + os.path.join(repo, "src"), "-I" + os.path.join(repo, "include"),
                  os.path.join(repo, "src", "secp256k1.c"), os.path.join(repo, "src", "precomputed_ecmult.c"), os.path.join(repo, "src", "precomputed_ecmult_gen.c"), "-o", lib]
            r = subprocess.run(c1, capture_output=True, text=True)
            if r.returncode != 0:
                raise BuildError("build of %s (shared object) failed:\n%s\n%s" % (name, " ".join(c1), r.stderr[-4000:]))
            cmd = [cfg["cc"]] + cfg["opt"] + cfg["extra"] + WARN + ["-I" + os.path.join(repo, "include"), os.path.join(VERIF, "shim", cfg["src"]), "-o", tmp, "-L" + d, "-lsecp256k1", "-Wl,-rpath," + d, "-ldl"] + cfg["link"]
        r = subprocess.run(cmd, capture_output=True, text=True)
        if r.returncode != 0:
            raise BuildError("build of config %s failed:\n%s\n%s" % (name, " ".join(cmd), r.stderr[-4000:]))
        os.rename(tmp, out)
        if not quiet:
            sys.stderr.write("[build] %s %.1fs\n" % (name, time.time() - t0))
    _prune(th[:16])
    return out

def build_many(names, repo=None):
    """build several configs in parallel; returns {name: path}"""
    from concurrent.futures import ThreadPoolExecutor
    with ThreadPoolExecutor(max_workers=min(8, max(1, len(names)))) as ex:
        res = list(ex.map(lambda n: build(n, repo), names))
    return dict(zip(names, res))
