#!/bin/sh
# offline setup: self-test of the reference model and a warm build of the main shim configuration
set -e
cd "$(dirname "$0")"
python3 tools/selftest_ref.py
python3 -c "
import sys; sys.path.insert(0,'.')
from vlib import build
build.build_many(['san'])
print('setup ok')"
