#include "secp256k1.c"
#include <stdio.h>
static int ncb; static void cb(const char*m,void*d){(void)d; printf("illegal: %s\n",m); ncb++;}
int main(void){ secp256k1_context *ctx=secp256k1_context_create(SECP256K1_CONTEXT_NONE); unsigned char cp[sizeof(secp256k1_context)]; secp256k1_context *sc=(secp256k1_context*)cp;
  unsigned char sk[32]={0}, msg[32]={1}, sig[64], agg[64]; size_t al=64; secp256k1_keypair kp; secp256k1_xonly_pubkey xo;
  memcpy(cp, secp256k1_context_static, sizeof cp); secp256k1_context_set_illegal_callback(sc,cb,NULL);
  sk[31]=3; secp256k1_keypair_create(ctx,&kp,sk); secp256k1_keypair_xonly_pub(ctx,&xo,NULL,&kp); secp256k1_schnorrsig_sign32(ctx,sig,msg,&kp,NULL); secp256k1_schnorrsig_aggregate(ctx,agg,&al,&xo,msg,sig,1);
  printf("full ctx aggverify=%d\n", secp256k1_schnorrsig_aggverify(ctx,&xo,msg,1,agg,al));
  printf("static-copy schnorrsig_verify=%d cb=%d\n", secp256k1_schnorrsig_verify(sc,sig,msg,32,&xo), ncb);
  printf("static-copy aggregate=%d cb=%d\n", secp256k1_schnorrsig_aggregate(sc,agg,&al,&xo,msg,sig,1), ncb);
  printf("static-copy aggverify=%d cb=%d\n", secp256k1_schnorrsig_aggverify(sc,&xo,msg,1,agg,al), ncb);
  return 0; }
