#include "secp256k1.c"
#include <stdio.h>
static size_t unhex(const char *s, unsigned char *o){ size_t n=strlen(s)/2,i; for(i=0;i<n;i++){ unsigned v; sscanf(s+2*i,"%2x",&v); o[i]=v;} return n; }
int main(int argc,char**argv){ secp256k1_context *ctx=secp256k1_context_create(SECP256K1_CONTEXT_NONE); unsigned char c[33], g[33], pr[6000], ex[200]; size_t pl, el; secp256k1_pedersen_commitment cm; secp256k1_generator gen; uint64_t mn=0,mx=0; int r;
  if(argc<5) return 2; unhex(argv[1],c); unhex(argv[2],g); pl=unhex(argv[3],pr); el=unhex(argv[4],ex);
  if(!secp256k1_pedersen_commitment_parse(ctx,&cm,c)||!secp256k1_generator_parse(ctx,&gen,g)){printf("parsefail\n");return 1;}
  r=secp256k1_rangeproof_verify(ctx,&mn,&mx,&cm,pr,pl,el?ex:NULL,el,&gen); printf("verify=%d min=%llu max=%llu\n",r,(unsigned long long)mn,(unsigned long long)mx); return 0; }
