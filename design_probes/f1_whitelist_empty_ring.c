#include "secp256k1.c"
#include <stdio.h>
int main(void){
  secp256k1_context *c = secp256k1_context_create(SECP256K1_CONTEXT_NONE);
  unsigned char k[32]={0}; secp256k1_pubkey sub, dummy; unsigned char ser[33]; size_t l=33;
  unsigned char h1[32], h2[32], in[33]; secp256k1_sha256 sha; secp256k1_whitelist_signature sig;
  const secp256k1_hash_ctx *hc = secp256k1_get_hash_context(c);
  k[31]=7; secp256k1_ec_pubkey_create(c,&sub,k); dummy=sub;
  secp256k1_ec_pubkey_serialize(c,ser,&l,&sub,SECP256K1_EC_COMPRESSED);
  secp256k1_sha256_initialize(&sha); secp256k1_sha256_write(hc,&sha,ser,33); secp256k1_sha256_finalize(hc,&sha,h1);
  secp256k1_sha256_initialize(&sha); secp256k1_sha256_write(hc,&sha,h1,32); secp256k1_sha256_finalize(hc,&sha,h2);
  in[0]=0; memcpy(in+1,h2,32);
  printf("parse=%d\n", secp256k1_whitelist_signature_parse(c,&sig,in,33));
  printf("verify(n_keys=0)=%d\n", secp256k1_whitelist_verify(c,&sig,&dummy,&dummy,0,&sub));
  return 0;}
