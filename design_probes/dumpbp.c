#include "secp256k1.c"
#include <stdio.h>
static void hx(const char *k, const unsigned char *p, size_t n){ size_t i; printf("%s=",k); for(i=0;i<n;i++) printf("%02x",p[i]); printf("\n"); }
static void sc(const char *k, const secp256k1_scalar *s){ unsigned char b[32]; secp256k1_scalar_get_b32(b,s); hx(k,b,32);} 
static void rnd(secp256k1_scalar *s, unsigned *st){ unsigned char b[32]; int i; for(i=0;i<32;i++){ *st = *st*1103515245u+12345u; b[i]=*st>>16; } secp256k1_scalar_set_b32(s,b,NULL);} 
int main(void){
  secp256k1_context *ctx=secp256k1_context_create(SECP256K1_CONTEXT_NONE); unsigned st=7; unsigned cfg[6][2]={{1,1},{2,1},{1,4},{4,2},{8,8},{2,16}}; int t;
  for(t=0;t<6;t++){ unsigned n=cfg[t][0], m=cfg[t][1], i; secp256k1_scalar nv[64], lv[64], cv[64], nv2[64], lv2[64], cv2[64], rho, mu; secp256k1_ge commit, *gcopy; unsigned char proof[2000], buf[33*80]; size_t plen=2000, bl; secp256k1_sha256 tr; int r;
    secp256k1_bppp_generators *gs=secp256k1_bppp_generators_create(ctx,n+m); secp256k1_scratch *scr=secp256k1_scratch_space_create(ctx,1000*1000);
    rnd(&rho,&st); secp256k1_scalar_sqr(&mu,&rho); for(i=0;i<n;i++) rnd(&nv[i],&st); for(i=0;i<m;i++){ rnd(&lv[i],&st); rnd(&cv[i],&st);} 
    if(!secp256k1_bppp_commit(ctx,scr,&commit,gs,nv,n,lv,m,cv,m,&mu)) return 1;
    memcpy(nv2,nv,sizeof nv); memcpy(lv2,lv,sizeof lv); memcpy(cv2,cv,sizeof cv); gcopy=malloc((n+m)*sizeof(*gcopy)); memcpy(gcopy,gs->gens,(n+m)*sizeof(*gcopy));
    secp256k1_sha256_initialize(&tr); secp256k1_sha256_write(secp256k1_get_hash_context(ctx),&tr,(const unsigned char*)"prefix",6);
    r=secp256k1_bppp_rangeproof_norm_product_prove(ctx,scr,proof,&plen,&tr,&rho,gcopy,n+m,nv2,n,lv2,m,cv2,m);
    printf("case=%u,%u prove=%d\n",n,m,r); sc("rho",&rho); for(i=0;i<m;i++) sc("c",&cv[i]); bl=sizeof buf; secp256k1_bppp_generators_serialize(ctx,gs,buf,&bl); hx("gens",buf,bl);
    { unsigned char cb[33]; secp256k1_eckey_pubkey_serialize33(&commit,cb); hx("commit",cb,33);} hx("proof",proof,plen);
    secp256k1_sha256_initialize(&tr); secp256k1_sha256_write(secp256k1_get_hash_context(ctx),&tr,(const unsigned char*)"prefix",6);
    printf("verify=%d\n", secp256k1_bppp_rangeproof_norm_product_verify(ctx,scr,proof,plen,&tr,&rho,gs,n,cv,m,&commit));
    free(gcopy); secp256k1_scratch_space_destroy(ctx,scr); secp256k1_bppp_generators_destroy(ctx,gs); }
  return 0; }
