#include "secp256k1.c"
#include <stdio.h>
static void hx(const char *k, const unsigned char *p, size_t n){ size_t i; printf("%s=",k); for(i=0;i<n;i++) printf("%02x",p[i]); printf("\n"); }
int main(void){
  secp256k1_context *ctx=secp256k1_context_create(SECP256K1_CONTEXT_NONE); unsigned char buf[9000]; size_t l; int i;
  for(i=0;i<6;i++){ unsigned char key[32]={0}, bl[32]={0}; secp256k1_generator g; key[0]=i; key[31]=i*37; bl[31]=i+1; bl[0]=i;
    secp256k1_generator_generate(ctx,&g,key); secp256k1_generator_serialize(ctx,buf,&g); hx("genkey",key,32); hx("gen",buf,33);
    secp256k1_generator_generate_blinded(ctx,&g,key,bl); secp256k1_generator_serialize(ctx,buf,&g); hx("genblind",bl,32); hx("genb",buf,33);
    { secp256k1_pedersen_commitment c; secp256k1_pedersen_commit(ctx,&c,bl,1000003ull*i+i,&g); secp256k1_pedersen_commitment_serialize(ctx,buf,&c); hx("commit",buf,33);} }
  { secp256k1_surjectionproof sp; secp256k1_fixed_asset_tag tags[4]; secp256k1_generator gs[5]; unsigned char bk[5][32], m[32]={2}; size_t idx, j; memset(tags,0,sizeof tags); memset(bk,0,sizeof bk); for(j=0;j<4;j++){ tags[j].data[0]=j; bk[j][31]=j+1; secp256k1_generator_generate_blinded(ctx,&gs[j],tags[j].data,bk[j]); } bk[4][31]=9; secp256k1_generator_generate_blinded(ctx,&gs[4],tags[2].data,bk[4]);
    if(secp256k1_surjectionproof_initialize(ctx,&sp,&idx,tags,4,3,&tags[2],100,m) && secp256k1_surjectionproof_generate(ctx,&sp,gs,4,&gs[4],idx,bk[idx],bk[4])){ l=sizeof buf; secp256k1_surjectionproof_serialize(ctx,buf,&l,&sp); hx("surj",buf,l); for(j=0;j<5;j++){ secp256k1_generator_serialize(ctx,buf,&gs[j]); hx("tag",buf,33);} printf("surjverify=%d\n", secp256k1_surjectionproof_verify(ctx,&sp,gs,4,&gs[4])); } }
  { secp256k1_whitelist_signature ws; secp256k1_pubkey on[4], off[4], sub; unsigned char ok[32]={0}, sum[32]; for(i=0;i<=3;i++){ ok[31]=1+i; ok[30]=1; secp256k1_ec_pubkey_create(ctx,&on[i],ok); ok[30]=2; secp256k1_ec_pubkey_create(ctx,&off[i],ok);} sub=on[3];
    ok[31]=2; ok[30]=1; memset(sum,0,32); sum[30]=3; sum[31]=6; if(secp256k1_whitelist_sign(ctx,&ws,on,off,3,&sub,ok,sum,1)){ l=sizeof buf; secp256k1_whitelist_signature_serialize(ctx,buf,&l,&ws); hx("wl",buf,l); for(i=0;i<3;i++){ l=33; secp256k1_ec_pubkey_serialize(ctx,buf,&l,&on[i],SECP256K1_EC_COMPRESSED); hx("on",buf,33); l=33; secp256k1_ec_pubkey_serialize(ctx,buf,&l,&off[i],SECP256K1_EC_COMPRESSED); hx("off",buf,33);} l=33; secp256k1_ec_pubkey_serialize(ctx,buf,&l,&sub,SECP256K1_EC_COMPRESSED); hx("sub",buf,33); printf("wlverify=%d\n",secp256k1_whitelist_verify(ctx,&ws,on,off,3,&sub)); } }
  return 0; }
