import hashlib, hmac
from rp import p,n,G,add,neg,mul,sqrt,is_sq,xquad
def pt33(b):
    x=int.from_bytes(b[1:],'big'); y=sqrt((x**3+7)%p)
    if y is None: return 'bad'
    if (y&1)!=(b[0]&1): y=p-y
    return (x,y)
def genpt(b):  # generator encoding 0a/0b
    P=xquad(int.from_bytes(b[1:],'big')); return neg(P) if b[0]&1 else P
def parse_one(in65, idx):
    if in65[0]>3: return 'bad'
    xb=in65[1+32*idx:33+32*idx]
    if xb!=bytes(32):
        return pt33(bytes([2|((in65[0]&(2-idx))>>(1-idx))])+xb)
    if in65[0]&(2-idx): return 'bad'
    return None
def verify(proof, prefix, rho, gens, g_len, c, commit):
    h_len=len(c)
    if g_len==0 or h_len==0: return False
    lg=g_len.bit_length()-1; lh=h_len.bit_length()-1; rounds=max(lg,lh)
    if len(gens)!=g_len+h_len or len(proof)!=65*rounds+64: return False
    if g_len&(g_len-1) or h_len&(h_len-1): return False
    nn=int.from_bytes(proof[65*rounds:65*rounds+32],'big'); ll=int.from_bytes(proof[65*rounds+32:],'big')
    if nn>=n or ll>=n or rho%n==0: return False
    tr=hashlib.sha256(prefix); C=commit; g=gens[:g_len]; h=gens[g_len:]; c=list(c); r=rho
    for i in range(rounds):
        blk=proof[65*i:65*i+65]; X=parse_one(blk,0); R=parse_one(blk,1)
        if X=='bad' or R=='bad': return False
        tr.update(blk); t2=tr.copy(); t2.update((0).to_bytes(8,'little')); gam=int.from_bytes(t2.digest(),'big')%n
        C=add(C,add(mul(gam,X) if X else None, mul((gam*gam-1)%n,R) if R else None))
        if len(g)>1:
            g=[add(mul(r,g[2*k]),mul(gam,g[2*k+1])) for k in range(len(g)//2)]; r=r*r%n
        if len(h)>1:
            h=[add(h[2*k],mul(gam,h[2*k+1])) for k in range(len(h)//2)]; c=[(c[2*k]+gam*c[2*k+1])%n for k in range(len(c)//2)]
    mu=r*r%n; v=(nn*nn%n*mu+c[0]*ll)%n
    rhs=add(add(mul(v,G) if v else None, mul(nn,g[0]) if nn else None), mul(ll,h[0]) if ll else None)
    return C==rhs
cur={}
for l in open('bp.txt'):
    l=l.strip()
    if l.startswith('case='): cur={'c':[], 'case':l}
    elif l.startswith('rho='): cur['rho']=int(l[4:],16)
    elif l.startswith('c='): cur['c'].append(int(l[2:],16))
    elif l.startswith('gens='): b=bytes.fromhex(l[5:]); cur['gens']=[genpt(b[i:i+33]) for i in range(0,len(b),33)]
    elif l.startswith('commit='): cur['commit']=pt33(bytes.fromhex(l[7:]))
    elif l.startswith('proof='): cur['proof']=bytes.fromhex(l[6:])
    elif l.startswith('verify='):
        g_len=len(cur['gens'])-len(cur['c'])
        ok=verify(cur['proof'],b'prefix',cur['rho'],cur['gens'],g_len,cur['c'],cur['commit'])
        bad=bytearray(cur['proof']); bad[-1]^=1
        print(cur['case'], 'model:',ok,'flipped:',verify(bytes(bad),b'prefix',cur['rho'],cur['gens'],g_len,cur['c'],cur['commit']))
