import subprocess, hashlib
from rp import *
from zk import gen_generate, gen_ser, commit_ser
def b32(i): return i.to_bytes(32,'big')
def borro_sign(pubs_rings, secidx, secx, ks, forged, m):
    """pubs_rings: list of lists of points; forged[i][j] chosen s (ignored at secidx)"""
    lasts=[]
    for i,ring in enumerate(pubs_rings):
        R=mul(ks[i],G)
        for j in range(secidx[i]+1,len(ring)):
            e=int.from_bytes(borro_hash(m,ser33(R),i,j),'big'); assert 0<e<n
            R=add(mul(forged[i][j],G),mul(e,ring[j]))
        lasts.append(ser33(R))
    e0=sha(b''.join(lasts)+m); s=[list(f) for f in forged]
    for i,ring in enumerate(pubs_rings):
        e=int.from_bytes(borro_hash(m,e0,i,0),'big'); assert 0<e<n
        for j in range(secidx[i]):
            R=add(mul(forged[i][j],G),mul(e,ring[j]))
            e=int.from_bytes(borro_hash(m,ser33(R),i,j+1),'big'); assert 0<e<n
        s[i][secidx[i]]=(ks[i]-e*secx[i])%n
    return e0,s
def make_proof(value,blind,H,exp,mantissa,minv,extra,reserved=0):
    rings=(mantissa+1)//2; rsizes=[4]*(mantissa//2)+([2] if mantissa&1 else [])
    scale=10**exp; v=(value-minv)//scale; assert v*scale+minv==value and v< (1<<mantissa)
    C=add(mul(blind,G), mul(value,H) if value else None)
    hdr=bytes([64|exp|(32 if minv else 0)|(128 if reserved else 0), mantissa-1])+(minv.to_bytes(8,'big') if minv else b'')
    digs=[(v>>(2*i))&3 for i in range(rings)]
    bl=[1000+i for i in range(rings-1)]; bl.append((blind-sum(bl))%n)
    firsts=[]; signs=[]; xs=[]
    for i in range(rings-1):
        Ci=add(mul(bl[i],G), mul(digs[i]*scale*4**i,H) if digs[i] else None)
        firsts.append(Ci); signs.append(0 if is_sq(Ci[1]) else 1); xs.append(b32(Ci[0]))
    acc=mul(minv,H) if minv else None
    for c in firsts: acc=add(acc,c)
    firsts.append(add(C,neg(acc)))
    signbytes=bytearray((rings+6)>>3)
    for i,sg in enumerate(signs): signbytes[i>>3]|=sg<<(i&7)
    m=rp_ser_point(C)+rp_ser_point(H)+hdr+b''.join(bytes([signs[i]])+xs[i] for i in range(rings-1))
    m=sha(m+extra)
    pubs=[]; base=neg(mul(scale,H))
    for i in range(rings):
        ring=[firsts[i]]
        for j in range(1,rsizes[i]): ring.append(add(ring[-1],base))
        pubs.append(ring)
        if i<rings-1: base=mul(4,base)
    forged=[[7+10*i+j for j in range(rsizes[i])] for i in range(rings)]
    e0,s=borro_sign(pubs,digs,bl,[5000+i for i in range(rings)],forged,m)
    proof=hdr+bytes(signbytes)+b''.join(xs)+e0+b''.join(b32(x) for ring in s for x in ring)
    return C,proof,s,digs,len(hdr)+len(signbytes)+32*(rings-1)+32
def lib(C,H,proof,extra):
    out=subprocess.run(['./vrf',commit_ser(C).hex(),gen_ser(H).hex(),proof.hex(),extra.hex() or ''],capture_output=True,text=True).stdout.strip()
    return out
H=gen_generate(b'\x05'*32); extra=b'xyz'
C,proof,s,digs,soff=make_proof(11,123456789,H,0,4,0,extra)
print('honest-forged   :',lib(C,H,proof,extra),'model:',rp_verify(commit_ser(C),gen_ser(H),proof,extra))
# re-encode a forged scalar as s+n
flat=[x for ring in s for x in ring]; idx=[k for k,x in enumerate(flat) if x<2**100][0]
p2=bytearray(proof); p2[soff+32*idx:soff+32*idx+32]=b32(flat[idx]+n)
print('forged s+n      :',lib(C,H,bytes(p2),extra),'model:',rp_verify(commit_ser(C),gen_ser(H),bytes(p2),extra))
# wrapping range: mantissa 64, min_value 5, exp 0 -> header must be rejected although ring sig valid for wrapped statement
C,proof,s,digs,soff=make_proof(5+9,424242,H,0,64,5,extra)
print('min+max overflow:',lib(C,H,proof,extra),'model:',rp_verify(commit_ser(C),gen_ser(H),proof,extra))
C,proof,s,digs,soff=make_proof(9,424242,H,0,64,0,extra)
print('mantissa 64 ok  :',lib(C,H,proof,extra),'model:',rp_verify(commit_ser(C),gen_ser(H),proof,extra))
C,proof,s,digs,soff=make_proof(3*10**18+7,99,H,18,3,7,extra)
print('exp 18          :',lib(C,H,proof,extra),'model:',rp_verify(commit_ser(C),gen_ser(H),proof,extra))
C,proof,s,digs,soff=make_proof(11,5,H,0,4,0,extra,reserved=1)
print('reserved bit    :',lib(C,H,proof,extra),'model:',rp_verify(commit_ser(C),gen_ser(H),proof,extra))
