import hashlib, sys
p=2**256-2**32-977; n=0xFFFFFFFFFFFFFFFFFFFFFFFFFFFFFFFEBAAEDCE6AF48A03BBFD25E8CD0364141
G=(0x79BE667EF9DCBBAC55A06295CE870B07029BFCDB2DCE28D959F2815B16F81798,0x483ADA7726A3C4655DA4FBFC0E1108A8FD17B448A68554199C47D08FFB10D4B8)
def inv(a,m=p): return pow(a,-1,m)
def add(P,Q):
    if P is None: return Q
    if Q is None: return P
    if P[0]==Q[0]:
        if (P[1]+Q[1])%p==0: return None
        l=3*P[0]*P[0]*inv(2*P[1])%p
    else: l=(Q[1]-P[1])*inv(Q[0]-P[0])%p
    x=(l*l-P[0]-Q[0])%p; return (x,(l*(P[0]-x)-P[1])%p)
def neg(P): return None if P is None else (P[0],(-P[1])%p)
def mul(k,P):
    k%=n; R=None
    while k:
        if k&1: R=add(R,P)
        P=add(P,P); k>>=1
    return R
def is_sq(a): return a%p==0 or pow(a,(p-1)//2,p)==1
def sqrt(a):
    r=pow(a,(p+1)//4,p); return r if r*r%p==a%p else None
def ser33(P): return bytes([2+(P[1]&1)])+P[0].to_bytes(32,'big')
def xquad(x):
    y=sqrt((x**3+7)%p)
    if y is None: return None
    # secp256k1_fe_sqrt returns the root that is itself a square
    if not is_sq(y): y=p-y
    return (x,y)
def rp_ser_point(P): return bytes([0 if is_sq(P[1]) else 1])+P[0].to_bytes(32,'big')
def sha(b): return hashlib.sha256(b).digest()
def borro_hash(m,e,ridx,eidx): return sha(e+m+ridx.to_bytes(4,'big')+eidx.to_bytes(4,'big'))
def borromean_verify(e0,s,pubs,rsizes,m):
    cnt=0; acc=b''
    for i,rs in enumerate(rsizes):
        ens=int.from_bytes(borro_hash(m,e0,i,0),'big'); ovf = ens>=n
        for j in range(rs):
            if ovf or s[cnt]==0 or ens==0 or pubs[cnt] is None: return False
            R=add(mul(ens,pubs[cnt]),mul(s[cnt],G))
            if R is None: return False
            t=ser33(R)
            if j!=rs-1:
                ens=int.from_bytes(borro_hash(m,t,i,j+1),'big'); ovf=ens>=n
            else: acc+=t
            cnt+=1
    return sha(acc+m)==e0
def header(proof):
    plen=len(proof); off=0
    if plen<65 or proof[0]&128: return None
    has_nz=proof[0]&64; has_min=proof[0]&32; exp=-1; mant=0
    if has_nz:
        exp=proof[0]&31; off+=1
        if exp>18: return None
        mant=proof[off]+1
        if mant>64: return None
        maxv=(1<<mant)-1
    else: maxv=0
    off+=1; scale=1
    for i in range(max(exp,0)):
        if maxv>(2**64-1)//10: return None
        maxv*=10; scale*=10
    minv=0
    if has_min:
        if plen-off<8: return None
        minv=int.from_bytes(proof[off:off+8],'big'); off+=8
    if maxv>2**64-1-minv: return None
    return off,exp,mant,scale,minv,maxv+minv
def commit_load(c):
    P=xquad(int.from_bytes(c[1:],'big')); return neg(P) if c[0]&1 else P
def gen_load33(g):
    P=xquad(int.from_bytes(g[1:],'big')); return neg(P) if g[0]&1 else P
def rp_verify(commit33,gen33,proof,extra):
    h=header(proof)
    if h is None: return None
    off,exp,mant,scale,minv,maxv=h
    C=commit_load(commit33); H=gen_load33(gen33)
    if mant:
        rings=mant>>1; rsizes=[4]*rings
        if mant&1: rsizes.append(2); rings+=1
    else: rings=1; rsizes=[1]
    npub=sum(rsizes)
    if len(proof)-off < 32*(npub+rings-1)+32+((rings+6)>>3): return None
    m=rp_ser_point(C)+rp_ser_point(H)+proof[:off]
    signs=[(proof[off+(i>>3)]>>(i&7))&1 for i in range(rings-1)]
    off+=(rings+6)>>3
    if (rings-1)&7 and (proof[off-1]>>((rings-1)&7))!=0: return None
    acc=mul(minv,H) if minv else None
    firsts=[]
    for i in range(rings-1):
        x=int.from_bytes(proof[off:off+32],'big')
        if x>=p: return None
        c=xquad(x)
        if c is None: return None
        if signs[i]: c=neg(c)
        m+=bytes([signs[i]])+proof[off:off+32]
        firsts.append(c); acc=add(acc,c); off+=32
    last=add(neg(acc),C)
    if last is None: return None
    firsts.append(last)
    # pub expand
    base=neg(mul(10**max(exp,0),H)); pubs=[]
    for i in range(rings):
        P=firsts[i]; pubs.append(P)
        for j in range(1,rsizes[i]):
            P=add(P,base); pubs.append(P)
        if i<rings-1: base=mul(4,base)
    e0=proof[off:off+32]; off+=32; s=[]
    for i in range(npub):
        v=int.from_bytes(proof[off:off+32],'big')
        if v>=n: return None
        s.append(v); off+=32
    if off!=len(proof): return None
    m=sha(m+extra)
    if not borromean_verify(e0,s,pubs,rsizes,m): return None
    return minv,maxv
for f in sys.argv[1:]:
    d=open(f,'rb').read()[1:]
    print(f, rp_verify(d[:33],d[33:66],d[66:],d[:5]))
