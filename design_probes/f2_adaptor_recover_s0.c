#include "secp256k1.c"
#include <stdio.h>
int main(void){
  secp256k1_context *c = secp256k1_context_create(SECP256K1_CONTEXT_NONE);
  unsigned char sk[32]={0}, dk[32]={0}, msg[32]={1}, as[162], c64[64], out[32]; secp256k1_pubkey enc; secp256k1_ecdsa_signature sig;
  sk[31]=5; dk[31]=9; if(!secp256k1_ec_pubkey_create(c,&enc,dk)) return 9;
  printf("enc=%d\n", secp256k1_ecdsa_adaptor_encrypt(c,as,sk,&enc,msg,NULL,NULL));
  memcpy(c64, as+1, 32); memset(c64+32,0,32);
  printf("parse=%d\n", secp256k1_ecdsa_signature_parse_compact(c,&sig,c64));
  printf("recover=%d\n", secp256k1_ecdsa_adaptor_recover(c,out,&sig,as,&enc));
  return 0;}
