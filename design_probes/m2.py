import hashlib, hmac
from rp import p,n,G,add,neg,mul,sqrt,is_sq,ser33,sha
def pt33(b):
    x=int.from_bytes(b[1:],'big'); y=sqrt((x**3+7)%p)
    if (y&1)!=(b[0]&1): y=p-y
    return (x,y)
def liftx(x):
    y=sqrt((x**3+7)%p)
    if y is None: return None
    return (x, y if y%2==0 else p-y)
def th(tag,msg): t=sha(tag); return sha(t+t+msg)
def b32(i): return i.to_bytes(32,'big')
def I(b): return int.from_bytes(b,'big')
class Drbg:
    def __init__(s,key):
        s.v=b'\x01'*32; s.k=b'\x00'*32
        s.k=hmac.new(s.k,s.v+b'\x00'+key,'sha256').digest(); s.v=hmac.new(s.k,s.v,'sha256').digest()
        s.k=hmac.new(s.k,s.v+b'\x01'+key,'sha256').digest(); s.v=hmac.new(s.k,s.v,'sha256').digest(); s.retry=False
    def gen(s):
        if s.retry:
            s.k=hmac.new(s.k,s.v+b'\x00','sha256').digest(); s.v=hmac.new(s.k,s.v,'sha256').digest()
        s.v=hmac.new(s.k,s.v,'sha256').digest(); s.retry=True; return s.v
def rfc6979(key32,msg32,data=None,algo=None,counter=0):
    kd=key32+b32(I(msg32)%n)+(data or b'')+(algo or b''); d=Drbg(kd)
    for _ in range(counter+1): out=d.gen()
    return out
def ecdsa_sign(sk,msg,data=None,tweakfn=None):
    d=I(sk); m=I(msg)%n; c=0
    while True:
        k=I(rfc6979(sk,msg,data,None,c)); c+=1
        if not 0<k<n: continue
        R0=None
        if tweakfn:
            R0=mul(k,G); k=tweakfn(k,R0)
            if k is None: return None
        R=mul(k,G); r=R[0]%n; s=pow(k,-1,n)*(m+r*d)%n
        if s>n//2: s=n-s
        if r and s: return r,s,R0
def dleq_chal(P1,Y,P2,R1,R2): return I(th(b'DLEQ',ser33(P1)+ser33(Y)+ser33(P2)+ser33(R1)+ser33(R2)))%n
def adaptor_verify(a,X,msg,Y):
    R=pt33(a[:33]); Rp=pt33(a[33:66]); sp=I(a[66:98]); e=I(a[98:130])%n; s=I(a[130:162])
    if not 0<sp<n or s>=n: return False
    sigr=I(a[1:33])%n
    if sigr==0: return False
    R1=add(mul(s,G),neg(mul(e,Rp))) if e else mul(s,G); R2=add(mul(s,Y),neg(mul(e,R)))
    if R1 is None or R2 is None: return False
    if dleq_chal(Rp,Y,R,R1,R2)!=e: return False
    si=pow(sp,-1,n); D=add(mul(si*(I(msg)%n)%n,G),mul(si*sigr%n,X))
    return D is not None and D==Rp
def nonce_adaptor(msg,key,pk33,algo,data):
    if data is not None: mk=bytes(a^b for a,b in zip(th(b'ECDSAadaptor/aux',data),key))
    else: mk=key
    return th(algo,mk+pk33+msg)
V=[l.strip().split('=',1) for l in open('v2.txt') if '=' in l]
i=0; t=0
D={}
def flush(D,t):
    sk,dk,msg,aux,data=[bytes.fromhex(D[k]) for k in ('sk','dk','msg','aux','data')]
    X=mul(I(sk),G); Y=mul(I(dk),G); auxd = aux if t else None
    r,s,_=ecdsa_sign(sk,msg,auxd); print(t,'ecdsa',(b32(r)+b32(s)).hex()==D['ecdsa'])
    a=bytes.fromhex(D['adaptor']); print(t,'adaptor_verify',adaptor_verify(a,X,msg,Y))
    # encrypt model
    k=I(nonce_adaptor(msg,sk,ser33(Y),b'ECDSAadaptor/non',auxd))%n; R=mul(k,Y); Rp=mul(k,G)
    buf=sha(ser33(Rp)+ser33(R)); kd=I(nonce_adaptor(buf,b32(k),ser33(Y),b'DLEQ',auxd))%n
    R1=mul(kd,G); R2=mul(kd,Y); e=dleq_chal(Rp,Y,R,R1,R2); ds=(kd+e*k)%n
    sp=pow(k,-1,n)*((I(msg)%n)+(R[0]%n)*I(sk))%n
    print(t,'adaptor_encrypt',(ser33(R)+ser33(Rp)+b32(sp)+b32(e)+b32(ds)).hex()==D['adaptor'])
    sdec=sp*pow(I(dk),-1,n)%n
    if sdec>n//2: sdec=n-sdec
    print(t,'adaptor_decrypt',(b32(R[0]%n)+b32(sdec)).hex()==D['adec'])
    # s2c
    nd=th(b's2c/ecdsa/data',data)
    def tw(k,R0):
        tk=I(th(b's2c/ecdsa/point',ser33(R0)+data))
        if tk>=n: return None
        k2=(k+tk)%n
        return k2 if k2 else None
    r,s,R0=ecdsa_sign(sk,msg,nd,tw); print(t,'s2c_sign',(b32(r)+b32(s)).hex()==D['s2csig'], ser33(R0).hex()==D['s2cop'])
    print(t,'host_commit',nd.hex()==D['hostcommit'])
    c=0
    while True:
        k=I(rfc6979(sk,msg,nd,None,c)); c+=1
        if 0<k<n: break
    print(t,'signer_commit',ser33(mul(k,G)).hex()==D['signercommit'])
    # halfagg
    keys=bytes.fromhex(D['hkeys']); msgs=bytes.fromhex(D['hmsgs']); sigs=bytes.fromhex(D['hsigs']); acc=b''; S=0
    tagh=sha(b'HalfAgg/randomizer'); st=hashlib.sha256(tagh+tagh)
    for j in range(3):
        st.update(sigs[64*j:64*j+32]+keys[32*j:32*j+32]+msgs[32*j:32*j+32]); z=I(st.copy().digest())%n if j else 1
        S=(S+z*I(sigs[64*j+32:64*j+64]))%n; acc+=sigs[64*j:64*j+32]
    print(t,'halfagg',(acc+b32(S)).hex()==D['hagg'])
    # ecdh
    P=mul(I(sk),Y); print(t,'ecdh',sha(bytes([2|(P[1]&1)])+b32(P[0])).hex()==D['ecdh'])
    # ellswift decode
    def xswiftec(u,tt):
        u%=p; tt%=p
        if u==0: u=1
        if tt==0: tt=1
        if (u**3+tt**2+7)%p==0: tt=2*tt%p
        Xv=(u**3+7-tt**2)*pow(2*tt,-1,p)%p; Yv=(Xv+tt)*pow(u*sqrt(p-3)%p,-1,p)%p
        for x in ((u+4*Yv*Yv)%p, (-Xv*pow(Yv,-1,p)-u)*pow(2,-1,p)%p, (Xv*pow(Yv,-1,p)-u)*pow(2,-1,p)%p):
            if sqrt((x**3+7)%p) is not None: return x
    ell=bytes.fromhex(D['ell']); u=I(ell[:32]); tt=I(ell[32:]); x=xswiftec(u,tt); y=sqrt((x**3+7)%p)
    if (y&1)!=((tt%p)&1): y=p-y
    print(t,'ellswift_decode',ser33((x,y)).hex()==D['elldec'], D['elldec']==D['pk'])
    ell2=bytes.fromhex(D['ell2']); x2=xswiftec(I(ell2[:32]),I(ell2[32:])); P2=mul(I(sk),liftx(x2))
    print(t,'xdh',th(b'bip324_ellswift_xonly_ecdh',ell+ell2+b32(P2[0])).hex()==D['xdhA'], D['xdhA']==D['xdhB'])
for k,v in V:
    if k=='sk' and D: flush(D,t); t+=1; D={}
    D[k]=v
flush(D,t)
