#define EXHAUSTIVE_TEST_ORDER 13
#include "secp256k1.c"
#include "ecmult_compute_table_impl.h"
#include "ecmult_gen_compute_table_impl.h"
#include <stdio.h>
int main(void){
  secp256k1_context *c; int i, ok=0, rej=0, acc_bad=0; 
  secp256k1_ecmult_gen_compute_table(&secp256k1_ecmult_gen_prec_table[0][0], &secp256k1_ge_const_g, COMB_BLOCKS, COMB_TEETH, COMB_SPACING);
  secp256k1_ecmult_compute_two_tables(secp256k1_pre_g, secp256k1_pre_g_128, WINDOW_G, &secp256k1_ge_const_g);
  c = secp256k1_context_create(SECP256K1_CONTEXT_NONE);
  for (i=1;i<13;i++){ int j; for(j=1;j<13;j++){
    unsigned char sk1[32]={0}, sk2[32]={0}, msgs[64]={0}, sigs[128], agg[96]; size_t al=96; secp256k1_keypair kp1,kp2; secp256k1_xonly_pubkey pks[2]; int k;
    sk1[31]=i; sk2[31]=j; msgs[0]=i; msgs[32]=j;
    if(!secp256k1_keypair_create(c,&kp1,sk1)||!secp256k1_keypair_create(c,&kp2,sk2)) continue;
    secp256k1_keypair_xonly_pub(c,&pks[0],NULL,&kp1); secp256k1_keypair_xonly_pub(c,&pks[1],NULL,&kp2);
    if(!secp256k1_schnorrsig_sign32(c,sigs,msgs,&kp1,NULL)) continue; if(!secp256k1_schnorrsig_sign32(c,sigs+64,msgs+32,&kp2,NULL)) continue;
    if(!secp256k1_schnorrsig_verify(c,sigs,msgs,32,&pks[0])) {printf("selfverify fail\n"); continue;}
    if(!secp256k1_schnorrsig_aggregate(c,agg,&al,pks,msgs,sigs,2)) {printf("agg fail\n"); continue;}
    if(secp256k1_schnorrsig_aggverify(c,pks,msgs,2,agg,al)) ok++; else printf("aggverify fail %d %d\n",i,j);
    for(k=1;k<4;k++){ unsigned char a2[96]; unsigned v; memcpy(a2,agg,96); v = a2[95] + 13*k; a2[95]=v&255; a2[94]=v>>8; if(secp256k1_schnorrsig_aggverify(c,pks,msgs,2,a2,al)) acc_bad++; else rej++; }
  }}
  printf("ok=%d rej=%d acc_bad=%d\n",ok,rej,acc_bad); return 0;}
