#include "secp256k1.c"
#include <stdio.h>
static void hx(const char *k, const unsigned char *p, size_t n){ size_t i; printf("%s=",k); for(i=0;i<n;i++) printf("%02x",p[i]); printf("\n"); }
int main(void){
  secp256k1_context *ctx=secp256k1_context_create(SECP256K1_CONTEXT_NONE); int t;
  for(t=0;t<3;t++){ enum{N=3}; unsigned char sk[N][32], rnd[N][32], msg[32], extra[32], tw1[32], tw2[32], sadp[32], buf[200], sig64[64], fin[64]; secp256k1_keypair kp[N]; secp256k1_pubkey pk[N], adp, outpk; const secp256k1_pubkey *pkp[N]; secp256k1_xonly_pubkey agg; secp256k1_musig_keyagg_cache cache; secp256k1_musig_secnonce sn[N]; secp256k1_musig_pubnonce pn[N]; const secp256k1_musig_pubnonce *pnp[N]; secp256k1_musig_aggnonce an; secp256k1_musig_session ses; secp256k1_musig_partial_sig ps[N]; const secp256k1_musig_partial_sig *psp[N]; int i, par; size_t l;
    for(i=0;i<32;i++){ msg[i]=i+t; extra[i]=3*i+t; tw1[i]=(i*5+t)&0xff; tw2[i]=(i*11+1+t)&0xff; sadp[i]=i+100+t; } tw1[0]&=0x7f; tw2[0]&=0x7f;
    for(i=0;i<N;i++){ int j; for(j=0;j<32;j++){ sk[i][j]=(j*7+i*13+t+1)&0xff; rnd[i][j]=(j+i*31+t*17+5)&0xff;} sk[i][0]&=0x7f; if(t==1&&i==2) memcpy(sk[2],sk[0],32); secp256k1_keypair_create(ctx,&kp[i],sk[i]); secp256k1_keypair_pub(ctx,&pk[i],&kp[i]); pkp[i]=&pk[i]; pnp[i]=&pn[i]; psp[i]=&ps[i]; hx("sk",sk[i],32); hx("rand",rnd[i],32);} 
    hx("msg",msg,32); hx("extra",extra,32); hx("tw1",tw1,32); hx("tw2",tw2,32); hx("sadp",sadp,32);
    secp256k1_ec_pubkey_create(ctx,&adp,sadp);
    secp256k1_musig_pubkey_agg(ctx,&agg,&cache,pkp,N); secp256k1_xonly_pubkey_serialize(ctx,buf,&agg); hx("aggx",buf,32);
    secp256k1_musig_pubkey_ec_tweak_add(ctx,&outpk,&cache,tw1); secp256k1_musig_pubkey_xonly_tweak_add(ctx,&outpk,&cache,tw2); l=33; secp256k1_ec_pubkey_serialize(ctx,buf,&l,&outpk,SECP256K1_EC_COMPRESSED); hx("tweaked",buf,33);
    for(i=0;i<N;i++){ unsigned char r2[32]; memcpy(r2,rnd[i],32); if(i==0) secp256k1_musig_nonce_gen(ctx,&sn[i],&pn[i],r2,sk[i],&pk[i],msg,&cache,extra); else if(i==1) secp256k1_musig_nonce_gen(ctx,&sn[i],&pn[i],r2,NULL,&pk[i],NULL,NULL,NULL); else secp256k1_musig_nonce_gen_counter(ctx,&sn[i],&pn[i],0x0123456789abcdefULL+t,&kp[i],msg,NULL,extra); secp256k1_musig_pubnonce_serialize(ctx,buf,&pn[i]); hx("pubnonce",buf,66); }
    secp256k1_musig_nonce_agg(ctx,&an,pnp,N); secp256k1_musig_aggnonce_serialize(ctx,buf,&an); hx("aggnonce",buf,66);
    secp256k1_musig_nonce_process(ctx,&ses,&an,msg,&cache,t==2?&adp:NULL);
    for(i=0;i<N;i++){ int r=secp256k1_musig_partial_sign(ctx,&ps[i],&sn[i],&kp[i],&cache,&ses); secp256k1_musig_partial_sig_serialize(ctx,buf,&ps[i]); hx("psig",buf,32); printf("psign=%d pverify=%d\n",r,secp256k1_musig_partial_sig_verify(ctx,&ps[i],&pn[i],&pk[i],&cache,&ses)); }
    secp256k1_musig_partial_sig_agg(ctx,sig64,&ses,psp,N); hx("sig",sig64,64); secp256k1_musig_nonce_parity(ctx,&par,&ses); printf("parity=%d\n",par);
    { secp256k1_xonly_pubkey xo; secp256k1_xonly_pubkey_from_pubkey(ctx,&xo,NULL,&outpk); if(t==2){ secp256k1_musig_adapt(ctx,fin,sig64,sadp,par); hx("adapted",fin,64);} else memcpy(fin,sig64,64); printf("schnorr=%d\n",secp256k1_schnorrsig_verify(ctx,fin,msg,32,&xo)); }
  }
  return 0; }
