#include "secp256k1.c"
#include <pthread.h>
#include <stdio.h>
static secp256k1_context *ctx;
static void *worker(void *a){ int i; (void)a; for(i=0;i<200;i++){ unsigned char k[32]={0}, m[32]={0}, der[80]; size_t l=80; secp256k1_ecdsa_signature s; k[31]=1+i%5; m[0]=i;
  if(!secp256k1_ecdsa_sign(ctx,&s,m,k,NULL,NULL)) abort(); secp256k1_ecdsa_signature_serialize_der(ctx,der,&l,&s);} return NULL;}
int main(void){ pthread_t t[8]; int i; ctx=secp256k1_context_create(SECP256K1_CONTEXT_NONE); for(i=0;i<8;i++) pthread_create(&t[i],0,worker,0); for(i=0;i<8;i++) pthread_join(t[i],0); puts("done"); return 0;}
