import hashlib
from rp import p,n,G,add,neg,mul,sqrt,ser33,sha
def th(tag,msg): t=sha(tag.encode()); return sha(t+t+msg)
def b32(i): return i.to_bytes(32,'big')
def I(b): return int.from_bytes(b,'big')
def even(P): return P[1]%2==0
def xb(P): return b32(P[0])
def cext(P): return bytes(33) if P is None else ser33(P)
def keyagg(pks):
    pk2=next((q for q in pks[1:] if q!=pks[0]), bytes(33))
    L=th('KeyAgg list',b''.join(pks))
    def coef(q): return 1 if q==pk2 else I(th('KeyAgg coefficient',L+q))%n
    return coef
def pt(b):
    x=I(b[1:]); y=sqrt((x**3+7)%p)
    if (y&1)!=(b[0]&1): y=p-y
    return (x,y)
def noncegen(rand_,sk,pk,aggpk,m,extra):
    rand = bytes(a^b for a,b in zip(sk,th('MuSig/aux',rand_))) if sk is not None else rand_
    mp = b'\x00' if m is None else b'\x01'+len(m).to_bytes(8,'big')+m
    ag = aggpk or b''; ex = extra or b''
    ks=[I(th('MuSig/nonce',rand+bytes([len(pk)])+pk+bytes([len(ag)])+ag+mp+len(ex).to_bytes(4,'big')+ex+bytes([i])))%n for i in range(2)]
    return ks
D=[l.strip().split('=',1) for l in open('ms.txt') if '=' in l and not l.startswith('psign') and not l.startswith('parity') and not l.startswith('schnorr')]
def run(rec,t):
    sks=[bytes.fromhex(v) for k,v in rec if k=='sk']; rnds=[bytes.fromhex(v) for k,v in rec if k=='rand']
    g=lambda key:[bytes.fromhex(v) for k,v in rec if k==key]
    msg=g('msg')[0]; extra=g('extra')[0]; tw1=g('tw1')[0]; tw2=g('tw2')[0]; sadp=g('sadp')[0]
    P=[mul(I(s),G) for s in sks]; pks=[ser33(q) for q in P]; coef=keyagg(pks)
    Q=None
    for q,Pt in zip(pks,P): Q=add(Q,mul(coef(q),Pt))
    ok=[b32(Q[0]).hex()==g('aggx')[0].hex()]
    gacc=1; tacc=0
    for tw,xonly in ((tw1,False),(tw2,True)):
        gg = n-1 if (xonly and not even(Q)) else 1; tt=I(tw); assert tt<n
        Q=add(mul(gg,Q),mul(tt,G)); gacc=gg*gacc%n; tacc=(tt+gg*tacc)%n
    ok.append(ser33(Q).hex()==g('tweaked')[0].hex())
    ks=[noncegen(rnds[0],sks[0],pks[0],xb(Q),msg,extra), noncegen(rnds[1],None,pks[1],None,None,None),
        noncegen((0x0123456789abcdef+t).to_bytes(8,'big')+bytes(24),sks[2],pks[2],None,msg,extra)]
    pn=[ser33(mul(k[0],G))+ser33(mul(k[1],G)) for k in ks]; ok.append([x.hex() for x in pn]==[x.hex() for x in g('pubnonce')])
    R1=R2=None
    for k in ks: R1=add(R1,mul(k[0],G)); R2=add(R2,mul(k[1],G))
    ok.append((cext(R1)+cext(R2)).hex()==g('aggnonce')[0].hex())
    if t==2: R1=add(R1,mul(I(sadp),G))
    b=I(th('MuSig/noncecoef',cext(R1)+cext(R2)+xb(Q)+msg))%n
    R=add(R1,mul(b,R2)); R=R or G
    e=I(th('BIP0340/challenge',xb(R)+xb(Q)+msg))%n
    gq = 1 if even(Q) else n-1; S=0; ps=[]
    for i in range(3):
        k1,k2=ks[i]
        if not even(R): k1,k2=n-k1,n-k2
        d=gq*gacc*I(sks[i])%n; s=(k1+b*k2+e*coef(pks[i])*d)%n; ps.append(b32(s)); S+=s
    ok.append([x.hex() for x in ps]==[x.hex() for x in g('psig')])
    S=(S+e*gq*tacc)%n; ok.append((xb(R)+b32(S)).hex()==g('sig')[0].hex())
    if t==2:
        tt=I(sadp); 
        if not even(R): tt=n-tt
        ok.append((xb(R)+b32((S+tt)%n)).hex()==g('adapted')[0].hex())
    print(t,ok)
rec=[];t=0;seen=0
for k,v in D:
    if k=='sk' and seen>=3 and rec and rec[-1][0]!='sk' and rec[-1][0]!='rand':
        run(rec,t); t+=1; rec=[]; seen=0
    if k=='sk': seen+=1
    rec.append((k,v))
run(rec,t)
