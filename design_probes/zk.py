import hashlib
from rp import *
def load_vec():
    out=[]
    for l in open('vec.txt'):
        if '=' in l:
            k,v=l.strip().split('=',1); out.append((k,v))
    return out
c_sqrt_m3 = sqrt(p-3)  # some root of -3
def svdw(t):
    # constants from the code: negc, d
    negc=0xf5d2d456caf80e20dcc88f3d586869d339e092ea25eb132b8272d850e32a03dd
    d=0x851695d49a83f8ef919bb86153cbcb16630fb68aed0a766a3ec693d68e6afa40
    wd=t*t%p; x1=negc*wd%p; x3d=(-3*wd)%p; wd=(wd+8)%p
    j=wd*x3d%p; jinv=pow(j,p-2,p)
    x1=(x1*x3d%p*jinv+d)%p; x2=(-(x1+1))%p; x3=(wd*wd%p*wd%p*jinv+1)%p
    def f(x): return (x*x*x+7)%p
    def qsqrt(a):  # fe_sqrt: returns (is_square, root); root = a^((p+1)/4) (which is a square root of a or of -a)
        r=pow(a,(p+1)//4,p); return (r*r%p==a, r)
    a_ok,y1=qsqrt(f(x1)); b_ok,y2=qsqrt(f(x2)); _,y3=qsqrt(f(x3))
    if a_ok: x,y=x1,y1
    elif b_ok: x,y=x2,y2
    else: x,y=x3,y3
    if t&1: y=(-y)%p
    return (x,y)
def gen_generate(key,blind=None):
    acc=mul(int.from_bytes(blind,'big'),G) if blind is not None else None
    for pre in (b"1st generation: ", b"2nd generation: "):
        t=int.from_bytes(sha(pre+key),'big')
        assert t<p
        acc=add(acc,svdw(t))
    return acc
def gen_ser(P): return bytes([11 ^ (1 if is_sq(P[1]) else 0)])+P[0].to_bytes(32,'big')
def commit_ser(P): return bytes([9 ^ (1 if is_sq(P[1]) else 0)])+P[0].to_bytes(32,'big')
V=load_vec(); i=0; ok=0; gi=0
while i<len(V):
    k,v=V[i]
    if k=='genkey':
        key=bytes.fromhex(v); g=gen_generate(key); assert gen_ser(g).hex()==V[i+1][1], ("gen",gi)
        bl=bytes.fromhex(V[i+2][1]); gb=gen_generate(key,bl); assert gen_ser(gb).hex()==V[i+3][1], ("genb",gi)
        val=1000003*gi+gi; C=add(mul(int.from_bytes(bl,'big'),G), mul(val,gb) if val else None); assert commit_ser(C).hex()==V[i+4][1], ("commit",gi)
        ok+=3; gi+=1; i+=5; continue
    if k=='surj':
        proof=bytes.fromhex(v); tags=[bytes.fromhex(V[i+1+j][1]) for j in range(5)]; i+=6
        nin=proof[0]+(proof[1]<<8); bm=proof[2:2+(nin+7)//8]; data=proof[2+(nin+7)//8:]
        T=[gen_load33(t) for t in tags]
        def tagser(P): return bytes([2+(P[1]&1)])+P[0].to_bytes(32,'big')
        m=sha(b''.join(tagser(P) for P in T[:4])+tagser(T[4]))
        used=[j for j in range(nin) if bm[j//8]>>(j%8)&1]
        pubs=[add(neg(T[j]),T[4]) for j in used]
        s=[int.from_bytes(data[32+32*j:64+32*j],'big') for j in range(len(used))]
        print("surj model verify:", borromean_verify(data[:32],s,pubs,[len(used)],m)); continue
    if k=='wl':
        sig=bytes.fromhex(v); nk=sig[0]; on=[];off=[]
        for j in range(nk): on.append(bytes.fromhex(V[i+1+2*j][1])); off.append(bytes.fromhex(V[i+2+2*j][1]))
        sub=bytes.fromhex(V[i+1+2*nk][1]); i+=2+2*nk
        def pt(b):
            x=int.from_bytes(b[1:],'big'); y=sqrt((x**3+7)%p); 
            if (y&1)!=(b[0]&1): y=p-y
            return (x,y)
        W=pt(sub); m=sha(sub+b''.join(off[j]+on[j] for j in range(nk))); keys=[]
        for j in range(nk):
            S=add(pt(off[j]),W); h=int.from_bytes(sha(ser33(S)),'big'); assert 0<h<n
            keys.append(add(mul(h,S),pt(on[j])))
        s=[int.from_bytes(sig[33+32*j:65+32*j],'big') for j in range(nk)]
        print("wl model verify:", borromean_verify(sig[1:33],s,keys,[nk],m)); continue
    i+=1
print("generator/commit vectors ok:",ok)
