#include "secp256k1.c"
#include <stdio.h>
static void hx(const char *k, const unsigned char *p, size_t n){ size_t i; printf("%s=",k); for(i=0;i<n;i++) printf("%02x",p[i]); printf("\n"); }
int main(void){
  secp256k1_context *ctx=secp256k1_context_create(SECP256K1_CONTEXT_NONE); unsigned char buf[4000]; size_t l; int t;
  for(t=0;t<3;t++){ unsigned char sk[32]={0}, dk[32]={0}, msg[32], aux[32], data[32], as[162], hc[32]; secp256k1_pubkey pk, ek; secp256k1_ecdsa_signature sig; secp256k1_ecdsa_s2c_opening op, op2; int i;
    sk[31]=5+t; sk[0]=t; dk[31]=9+t; dk[1]=t*3; for(i=0;i<32;i++){ msg[i]=(t?0xff:i*7+1); aux[i]=i^t; data[i]=i*3+t; } if(t==2) msg[31]=0x41; 
    secp256k1_ec_pubkey_create(ctx,&pk,sk); secp256k1_ec_pubkey_create(ctx,&ek,dk);
    hx("sk",sk,32); hx("dk",dk,32); hx("msg",msg,32); hx("aux",aux,32); hx("data",data,32);
    secp256k1_ecdsa_sign(ctx,&sig,msg,sk,NULL,t?aux:NULL); secp256k1_ecdsa_signature_serialize_compact(ctx,buf,&sig); hx("ecdsa",buf,64);
    secp256k1_ecdsa_adaptor_encrypt(ctx,as,sk,&ek,msg,NULL,t?aux:NULL); hx("adaptor",as,162); printf("averify=%d\n",secp256k1_ecdsa_adaptor_verify(ctx,as,&pk,msg,&ek));
    secp256k1_ecdsa_adaptor_decrypt(ctx,&sig,dk,as); secp256k1_ecdsa_signature_serialize_compact(ctx,buf,&sig); hx("adec",buf,64);
    secp256k1_ecdsa_s2c_sign(ctx,&sig,&op,msg,sk,data); secp256k1_ecdsa_signature_serialize_compact(ctx,buf,&sig); hx("s2csig",buf,64); secp256k1_ecdsa_s2c_opening_serialize(ctx,buf,&op); hx("s2cop",buf,33);
    secp256k1_ecdsa_anti_exfil_host_commit(ctx,hc,data); hx("hostcommit",hc,32); secp256k1_ecdsa_anti_exfil_signer_commit(ctx,&op2,msg,sk,hc); secp256k1_ecdsa_s2c_opening_serialize(ctx,buf,&op2); hx("signercommit",buf,33);
    { secp256k1_keypair kp[3]; secp256k1_xonly_pubkey xo[3]; unsigned char msgs[96], sigs[192], agg[128]; size_t al=128; for(i=0;i<3;i++){ unsigned char k2[32]={0}; k2[31]=i+1+t; k2[5]=t; secp256k1_keypair_create(ctx,&kp[i],k2); secp256k1_keypair_xonly_pub(ctx,&xo[i],NULL,&kp[i]); memset(msgs+32*i,i+t,32); secp256k1_schnorrsig_sign32(ctx,sigs+64*i,msgs+32*i,&kp[i],i?aux:NULL); secp256k1_xonly_pubkey_serialize(ctx,buf+32*i,&xo[i]); }
      hx("hkeys",buf,96); hx("hmsgs",msgs,96); hx("hsigs",sigs,192); secp256k1_schnorrsig_aggregate(ctx,agg,&al,xo,msgs,sigs,3); hx("hagg",agg,al); printf("haggverify=%d\n",secp256k1_schnorrsig_aggverify(ctx,xo,msgs,3,agg,al)); }
    { unsigned char ell[64], ell2[64], out[32], out2[32]; secp256k1_pubkey dec; secp256k1_ellswift_create(ctx,ell,sk,aux); secp256k1_ellswift_create(ctx,ell2,dk,NULL); hx("ell",ell,64); secp256k1_ellswift_decode(ctx,&dec,ell); l=33; secp256k1_ec_pubkey_serialize(ctx,buf,&l,&dec,SECP256K1_EC_COMPRESSED); hx("elldec",buf,33); l=33; secp256k1_ec_pubkey_serialize(ctx,buf,&l,&pk,SECP256K1_EC_COMPRESSED); hx("pk",buf,33);
      secp256k1_ellswift_xdh(ctx,out,ell,ell2,sk,0,secp256k1_ellswift_xdh_hash_function_bip324,NULL); secp256k1_ellswift_xdh(ctx,out2,ell,ell2,dk,1,secp256k1_ellswift_xdh_hash_function_bip324,NULL); hx("ell2",ell2,64); hx("xdhA",out,32); hx("xdhB",out2,32);
      secp256k1_ecdh(ctx,out,&ek,sk,NULL,NULL); hx("ecdh",out,32); }
  }
  return 0; }
